#!/usr/bin/env python3
"""usage: keep_mutant.py <seed-id> <property> <patch> <demo> <note> <caught-by> [detected-how]
Copies a confirmed seeded change into /verif/seeded/<seed-id>/ with meta.json."""
import json, os, shutil, subprocess, sys
sid, prop, patch, demo, note, caught = sys.argv[1:7]
how = sys.argv[7] if len(sys.argv) > 7 else ''
d = os.path.join('/verif/seeded', sid)
os.makedirs(d, exist_ok=True)
shutil.copy(patch, os.path.join(d, 'patch.diff'))
shutil.copy(demo, os.path.join(d, 'demo.py'))
notes = open(note).read().strip() if os.path.exists(note) else note
base = subprocess.run(['git', '-C', '/repo', 'rev-parse', '--short', 'HEAD'], stdout=subprocess.PIPE, text=True).stdout.strip()
meta = {'id': sid, 'breaks_property': prop, 'what_it_needs_to_manifest': notes,
        'origin': 'independent sub-agent given only the property text and a scratch worktree',
        'confirmed': 'tools/confirm_mutant.sh in a scratch worktree: demo exits 0 on the clean tree, non-zero with the patch; the 91 baseline tests still pass with the patch',
        'repo_base': base, 'checks_run': 'tools/try_mutant.sh patch.diff ' + caught, 'caught_by': caught.split(',') if caught != 'none' else [],
        'detected_how': how}
json.dump(meta, open(os.path.join(d, 'meta.json'), 'w'), indent=1)
print('kept', d)
