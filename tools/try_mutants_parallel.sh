#!/bin/sh
# usage: tools/try_mutants_parallel.sh <worktree-id> <PID> [extra PIDs]   e.g. c01b C01
# Confirms patch1..3 of /tmp/mut/<id>/out in that worktree and runs the checks against the *worktree* (VERIF_REPO), never touching /repo.
id=$1; shift
wt=/tmp/mut/$id
cd $wt || exit 2
git checkout -q -- . ; git checkout -q --detach $(git -C /repo rev-parse HEAD) 2>/dev/null
for i in 1 2 3; do
  [ -f out/patch$i.diff ] || continue
  c=$(/verif/tools/confirm_mutant.sh $wt $wt/out/patch$i.diff $wt/out/demo$i.py | tail -1)
  git apply out/patch$i.diff 2>/dev/null || { echo "$id patch$i: does not apply"; continue; }
  for pid in "$@"; do
    out=$(cd /verif && VERIF_REPO=$wt VERIF_OUT=/tmp/mut/out_$id ./check $pid --tier quick 2>&1); rc=$?
    echo "$id patch$i [$c] $pid rc=$rc :: $(echo "$out" | grep -E '^VIOLATION|MACHINERY' | head -2 | cut -c1-170 | tr '\n' ' ')"
  done
  git checkout -q -- .
done
