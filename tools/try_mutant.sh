#!/bin/sh
# usage: tools/try_mutant.sh <patch.diff> <PID> [<PID> ...]   - applies the patch to /repo, runs the quick checks, reverts.
patch="$1"; shift
cd /repo || exit 2
git diff --quiet || { echo "/repo is dirty"; exit 2; }
git apply "$patch" || { echo "patch does not apply"; exit 2; }
trap 'git -C /repo checkout -- . ' EXIT INT TERM
cd /verif
for pid in "$@"; do
  out=$(VERIF_TMP= ./check "$pid" --tier quick 2>&1); rc=$?
  echo "== $pid rc=$rc :: $(echo "$out" | grep -E 'VIOLATION|MACHINERY|KNOWN|OK' | head -4 | cut -c1-300)"
done
git -C /verif checkout -- evidence 2>/dev/null
