#!/usr/bin/env python3
"""Regenerates /verif/MANIFEST.json from the table below (single source of truth for the interface)."""
import json
import os

HERE = os.path.dirname(os.path.dirname(os.path.abspath(__file__)))
BASE_OFF = "cd /repo && env -u SVGPATHTOOLS_VERIF /venv/bin/python -m pytest -ra -q -p no:cacheprovider --timeout=900 --continue-on-collection-errors"

CHECKS = {
 'C01': dict(
   technique="TLA+ serialiser design + round-trip theorem (PathD over PathSem) model-checked with TLC; every model path x 8 options replayed through the real Path.d/parse_path; tokens of the real d() output validated as traces by PathData_Trace.tla",
   text="TLC proves Parse(Emit(p,o)) = p, NoDrop, ZIffClosed... for every lattice path (L/Q/C/A, closed by line or curve, S/T-smooth joints, several subpaths) and all 8 option combinations; each path is built as a real Path (integer, exact tiny/huge/halves affine images, nasty doubles; also paths that come out of the parser, then mutated) and parse_path(p.d(o)) must satisfy C01's relation; the text the real d() wrote is lexed by the reference grammar and its meaning under the spec must be the original segments.",
   note="Trusted: TLC, PathSem semantics, Python repr/float round trip. Relative form on non-dyadic doubles is compared with a 1e-9 relative tolerance (rounding not modelled). Zero-length Lines and null arcs excluded as the property says.",
   ref="4 (C01), 3.3"),
 'C03': dict(
   technique="TLA+ exact lattice algebra (Bezier.tla) model-checked with TLC, degree <= 3 identities proved over unbounded integers with Apalache; every (control vectors, t) case replayed through the real Line/QuadraticBezier/CubicBezier methods with exact == on the dyadic lattice",
   text="TLC checks the polynomial identities (Horner = Bernstein = de Casteljau, end points, basis change round trip, derivative = derivative of the polynomial, reversal) on unisolvent grids (all vectors over {-3,0,1,4} for degree <= 3 x 7..13 parameter values); the same cases, paired into complex control points, go through point, points, poly, derivative(n=1..4), poly2bez, bpoints2bezier, bez2poly of the real classes: bit-for-bit equality for integer control points and t = k/8 (incl. t outside [0,1], scaled by 2^-10 and 2^20), 1e-12 relative for t = k/3 and decimal scales 1e-3/1e6.",
   note="Trusted: TLC, the interpolation argument, and that each evaluated method is straight-line arithmetic branching only on degree/flags (checked from the AST at run time and reported in the evidence). Floating-point rounding itself is absorbed by the tolerance, not modelled.",
   ref="4 (C03), 3.6"),
 'C04': dict(
   technique="TLA+ angle-lattice model of elliptical arcs in centre parameterisation (ArcLattice.tla) model-checked with TLC; every lattice arc converted to constructor arguments and walked through the real Arc in 15-degree steps",
   text="TLC checks that the flag pair selects exactly one of the four arcs through two end points (F65Unique), LargeIffOver180, the walk properties CurInSweep / MonotoneDir / EndsAtEnd, ReverseOK, CropOK, MirrorFlipsSweep and the exact minimal enlargement (SmallOK) over 3-5 radius pairs x 9 rotations (incl. -90, 390 degrees) x 24 start angles x 15-46 sweeps; each arc is built through the end-point constructor and the derived centre, radii, theta, delta, every walk point, membership of the stored ellipse, the monotone eccentric angle, derivative(t,n) n=1..6, the end points of as_cubic_curves/as_quad_curves, negative-signed radii and the too-small-radius family (incl. autoscale_radius=False refusing) are compared with the lattice values.",
   note="Trusted: TLC; math.cos/sin in the concretisation (which is F.6.4 itself). Tolerances: theta/delta 1e-5 degree, centre 1e-7, points 1e-6 relative (acos near +-1). Angles off the 15-degree lattice are not separately decided.",
   ref="4 (C04), 3.8"),
 'C05': dict(
   technique="TLA+ lattice model of T <-> (k,t) <-> arc-length fractions and of continuous subpaths (TParam) model-checked with TLC; every (lengths, joints, T) case replayed on real Paths",
   text="TLC checks RoundTripT, InOccupancy, TZeroOnlyAtStart, Monotone (walking T along the grid), RunsOK and ContIffOneRun for all paths of <= 3 (quick) / 4 (thorough) segments with lengths from a set containing 0 and 64; every case is realised as a real Path (uniform-speed Line/Quadratic/Cubic chains; mixed L/Q/C/A geometry for every joint pattern incl. the closing joint) and T2t, t2T, point, start/end, iscontinuous, isclosed, continuous_subpaths are compared with the model - exactly when all lengths are powers of two. Since round 5 a share of the cases is repeated in small / large units and at offsets of 1e6 .. 3e7 (the base case's answer, mapped: the identities behind that oracle are proved for all integers by Apalache, spec/apalache/MC_Placement.tla).",
   note="Trusted: TLC; exact comparison only on dyadic chains, otherwise 1e-9/1e-12 tolerances (either side of a boundary accepted). Effects one ulp below T=1 (a rounding effect outside the lattice) are not decided.",
   ref="4 (C05), 3.5"),
 'C06': dict(
   technique="TLA+ exact model of the total variation of Bezier coordinate polynomials on dyadic sub-intervals (BezierBox.tla) and circular lattice arcs model-checked with TLC; the exact lengths replayed through length() with scipy quadrature and with the pure-Python fallback",
   text="TLC checks TVAdditive, TVMonotone (along the walk), TVAtLeastChord and TVAtMostPolygon for every small-integer coordinate vector with rational critical points; the corresponding collinear quadratics / cubics along the direction (3,4) - monotone, fold-back, repeated control points, at scales 1e-3, 1, 1e4 - must give length(t0,t1) = 5 x TV on every dyadic sub-interval (1e-6 relative; 5e-3 where the speed vanishes inside, as the property allows), finite and non-negative; lines exact; circular lattice arcs r|delta| incl. additivity; generic lattice curves inside the rigorous [chords, control polygon] bracket of a depth-7 subdivision and additive; Path.length = sum of segments; all of it with _quad_available on and off. Since round 5 a share of the cases is repeated in small / large units and at offsets of 1e6 .. 3e7 (the base case's answer, mapped: the identities behind that oracle are proved for all integers by Apalache, spec/apalache/MC_Placement.tla).",
   note="Trusted: TLC. NOT decided: the 1e-6 accuracy of length() for generic non-collinear curves and elliptical arcs (numeric accuracy proper; only the coarse rigorous bracket is checked).",
   ref="4 (C06), 3.6"),
 'C07': dict(
   technique="TLA+ state machine of the bisection loop of inv_arclength (Bisect.tla) model-checked with TLC over all monotone length tables; every run of the real ilength recorded probe by probe and validated by Bisect_Trace.tla; exact inverses on constant-speed curves",
   text="TLC checks Terminates, FewSteps, Bracket, Post, Ends, Monotone and RunAgrees for every non-decreasing table on a 2^P grid, every target and tolerances below the table's resolution (the unreachable-tolerance regime); ~350 real runs (8 segment shapes and 3 paths x scales 1e-3..1e6 x 9 targets incl. 0, L and near-ends, scipy and no-scipy) are recorded by wrapping length() and must be accepted by the trace spec (each probe = midpoint of the dyadic bracket, or the float-resolution stall followed by the return); results are compared with s/L on constant-speed curves, checked for monotonicity, the post-condition and ValueError outside [0,L].",
   note="Trusted: TLC; the recorder (harness-side wrapper of length(), no source hook). Post-condition slack max(s_tol, 1e-12 + 16 ulp(L)). Without scipy only scales <= 1 (the fallback integrator needs seconds per call at 1e6).",
   ref="4 (C07), 3.10"),
 'C08': dict(
   technique="TLA+ exact model of the extremes of Bezier coordinate polynomials with rational critical points (BezierBox.tla) and of the critical angles of lattice arcs (ArcLattice.tla) model-checked with TLC; exact boxes replayed through bbox()",
   text="TLC checks WitnessInside, Attained, EndsInside and DerivZero for all ~1500 coordinate vectors over -3..3 whose critical points are rational (incl. degenerate degree, monotone, double roots, roots outside (0,1)) and the sweep membership of critical lattice angles; pairs of vectors form 2-D curves whose bbox() must equal the exact rational extremes (1e-12; also scaled 1e-3 with an offset and 2^20), generic lattice curves and off-lattice arcs are checked with 64/256 witnesses (containment and tightness up to the witness spacing), lattice circles / axis-aligned ellipses against the hull of end points and critical-angle points with 0-4 extremes crossed, and Path.bbox against the union of its segments' boxes. Since round 5 a share of the cases is repeated in small / large units and at offsets of 1e6 .. 3e7 (the base case's answer, mapped: the identities behind that oracle are proved for all integers by Apalache, spec/apalache/MC_Placement.tla).",
   note="Trusted: TLC; Fraction -> float conversion. Tightness of generic curves is only bounded by the witness spacing; arcs with generic rotation and unequal radii: witnesses only.",
   ref="4 (C08), 3.6, 3.8"),
 'C09': dict(
   technique="TLA+ lattice models (Bezier.tla split/reverse identities, ArcLattice.tla Reverse/Crop, TParam.tla) model-checked with TLC; the model's exact split control points and lattice crops replayed through reversed/split/cropped of segments and paths; TLA+ state machine of Path.cropped (Crop.tla: locate / first / middle loops / last, design vs transcription of the code) model-checked with TLC against the declarative piece list, every model case replayed into Path.cropped on realised polylines and cyclic polygons",
   text="TLC checks SplitReparam, SplitMeets, RevIdentity on the bi-degree unisolvent grid, ReverseOK and CropOK for every lattice arc and step pair, and the T-parameter invariants; every paired control-vector case is replayed: split(t) control points (exact), reversed() (exact), cropped(t0,t1) for all dyadic t0<t1 by points (1e-9) incl. fold-back collinear and self-crossing curves; lattice arcs reversed/split/cropped at 15-degree steps on both sides of 180 degrees (1e-6); paths: open chains, closed polygons with wrap-around crops, crop points on joints and paths traversing an equal segment twice - start/end points, joined pieces, length = length(T0,T1), closed-form values on polylines.",
   note="Trusted: TLC; exactness of float arithmetic on the dyadic integer lattice. Path crops on curved segments are compared with Path.length(T0,T1) (the property's own oracle), closed forms only on polylines. Open finding (printed as KNOWN-FINDING): a crop with one end on a joint and the other within 1e-8 of it returns whole segments.",
   ref="4 (C09), 3.5, 3.6, 3.8"),
 'C10': dict(
   technique="TLA+ models of SVG transform lists as integer affine matrices (Affine.tla) and of the joint re-joining pass (Rejoin.tla) model-checked with TLC; every product matrix and every joint pattern replayed through the real translated/rotated/scaled/transform; the underlying affine algebra (composition = composition of maps, associativity, det multiplicative, evaluation commutes with the map, area scales by det) proved for all integers with Apalache (spec/apalache/MC_Affine.tla)",
   text="TLC checks list = product, associativity, multiplicative determinant, rotate-about-centre, and affine invariance of Bezier evaluation for every list of <= 3 of 14 operations, and JointsKept (incl. the closing joint) for every joint pattern with independently rounded images; all ~200 distinct product matrices are applied with transform() to lattice Beziers (1e-12) and lattice arcs (1e-6) and image.point(t) is compared with M(point(t)); translated / rotated (default and explicit origins, angles incl. 390) / scaled (2, 1/2, -1, -3, 1/3; non-uniform on Beziers; arcs must refuse or be right); every joint pattern of <= 4 segments (L / Q / C / A mixes) is mapped with rounding-prone factors and joints that coincided must coincide exactly, closed paths stay closed.",
   note="Trusted: TLC, numpy for applying M to a point. Singular matrices are not generated (outside the property).",
   ref="4 (C10), 3.9"),
 'C11': dict(
   technique="TLA+ exact crossing oracle on the integer lattice (Crossings.tla: pairs constructed to meet at known rational parameters, provably disjoint pairs) model-checked with TLC; every pair replayed through intersect in both operand orders",
   text="TLC checks MeetExactly, Monotone, TransversalOK (the constructed crossing exists, is unique and transversal) and Separated for all pairs of Line/Quadratic/Cubic control polygons of the families; for a sample of them (all nine type pairs, parameters k/3 and the dyadic k/2, gaps of 1-2 lattice units for the disjoint ones) every returned pair must be in [0,1]^2, its two points must coincide, it must be the known crossing (nothing at all for disjoint pairs), and swapping the operands must give the same crossing points; circle-lattice families for Arc-Line, Arc-Quadratic, Arc-Cubic and circular Arc-Arc; Path.intersect: the four points coincide and the segments are members. Since round 5 a share of the cases is repeated in small / large units and at offsets of 1e6 .. 3e7 (the base case's answer, mapped: the identities behind that oracle are proved for all integers by Apalache, spec/apalache/MC_Placement.tla).",
   note="Trusted: TLC; point evaluation of the library for the coincidence test. Pairs off the lattice are not decided; general (rotated / elliptical) arc-arc pairs may raise, as documented.",
   ref="4 (C11), 3.11"),
 'C12': dict(
   technique="TLA+ exact crossing oracle (Crossings.tla: constructed transversal crossings, exact crossing counts by isolated sign changes) model-checked with TLC; every constructed crossing must be found, once, by intersect / Path.intersect; TLA+ state machine of the subdivision loop of bezier_intersections (Subdiv.tla) model-checked with TLC and compared visit by visit with the real loop (behaviour conformance)",
   text="For the constructed pairs of Crossings.tla (tangents >= 6 degrees apart, parameters strictly inside (0,1), unique crossing proved in the model) the crossing must be reported within 1e-4 of the true parameters exactly once, in both operand orders; pairs involving a Line must report exactly one pair; a long line against every lattice quadratic in general position must report exactly the model's number of crossings (0, 1 or 2); circle-lattice arc families with 1-2 known crossings; two path families whose crossings lie strictly inside segments; generic lattice Bezier pairs must not report a crossing twice; the count family spelled with Beziers only (degree-elevated quadratic x straight quadratic, turned by 3+4j).  Subdiv.tla: the design variant satisfies NoLoss / Once / NoGhostParallel / Sound for all pairs of straight lattice segments, the transcription of the code violates NoLoss (the open findings at model level), and every behaviour of the transcription (pairs visited per level in order, reports, the maximum-iterations failure) equals the recorded behaviour of the real function on straight lattice quadratics (exact dyadic arithmetic). Since round 5 a share of the cases is repeated in small / large units and at offsets of 1e6 .. 3e7 (the base case's answer, mapped: the identities behind that oracle are proved for all integers by Apalache, spec/apalache/MC_Placement.tla).",
   note="Trusted: TLC. Open findings (printed as KNOWN-FINDING): Bezier-Bezier crossings at dyadic parameters of both curves are lost; crossings of an axis-parallel straight Bezier are lost; generic Bezier-Bezier crossings can be reported several times.",
   ref="4 (C12), 3.11"),
 'C13': dict(
   technique="TLA+ lattice model of point-to-segment distance (RadialRange.tla: closed form for lines, exact witness distances for curves) model-checked with TLC; every (segment, query point) case replayed through radialrange / closest_point_in_path / farthest_point_in_path",
   text="TLC checks LineMinIsMin, LineMaxAtEnd and WitnessBounds along the walk over the witnesses for 10 lattice segments (lines, parabola with its centre of curvature and focus, cusped, folded and S-shaped cubics) x 15 query points (far, near, on the curve, beyond the ends); each case - plain, scaled 1e-3 with an offset, rotated 30 degrees and scaled 1e4 - must return parameters in [0,1], d = |point(t)-z|, no witness closer than dmin or farther than dmax, the exact projection on lines and 0 for points on the curve; random paths of model segments: the extreme over the segments with the index of the segment attaining it.",
   note="Trusted: TLC. Optimality between witnesses (spacing 1/8, 1/10 thorough) is not decided for curved segments.",
   ref="4 (C13)"),
 'C14': dict(
   technique="TLA+ lattice model of signed area (shoelace / Green's formula for polynomial segments) and of even-odd enclosure by exact orientation predicates with a general-position predicate (Area.tla) model-checked with TLC; every polygon, probe and containment pair replayed through area / path_encloses_pt / is_contained_by; the underlying affine algebra (composition = composition of maps, associativity, det multiplicative, evaluation commutes with the map, area scales by det) proved for all integers with Apalache (spec/apalache/MC_Affine.tla)",
   text="TLC checks RevNegates, TranslationInvariant, DetScales, RotationInvariantStart, PolygonAgrees (Green = shoelace), BezRevNegates and ParityIndependentOfOpt for every polygon of 3..4 (5 thorough) distinct vertices of two grids; each polygon's area() must equal the exact value, change sign under reversed(), be invariant under translation and a shear and scale by the determinant; path_encloses_pt must equal the model's crossing parity for every half-integer probe proved to be in general position (proper crossings or strict separation, pairwise distinct crossing points); is_contained_by for a triangle at 8 offsets (only pairs in general position); closed Bezier paths against exact Green areas; ellipses from arcs within the chord bound with the sign of the sweep.",
   note="Trusted: TLC. Non-generic probes (through a vertex / self-intersection point / touching) are not generated: the library merges crossings at one point and the property excludes them.",
   ref="4 (C14), 3.11"),
 'C15': dict(
   technique="TLA+ model of end tangents of Bezier curves with coincident control points (BezierTan.tla: Taylor expansion at the ends) model-checked with TLC, plus the lattice arc walk; every model curve, under lattice similarities and reversal, replayed through unit_tangent / normal / curvature",
   text="TLC checks TaylorAt0 / TaylorAt1 (all lower derivatives vanish at the end and the first non-vanishing one is the stated positive multiple of the first non-vanishing control difference, in the direction of travel) for every degree 2-3 curve with 0-2 coincident control points at either end heading into 12 directions; each curve - plain, translated, rotated by 90k/30/-45 degrees, scaled by 2, 1/2, -3, and reversed - must give unit_tangent(0/1) = the model direction with its sign, modulus 1, normal = -i tangent, and the exact tangent/curvature at t = 1/2 from the model's integer derivatives; lines; lattice arcs: tangent along the sweep, curvature 1/r on circles and the closed form on ellipses.",
   note="Trusted: TLC. Interior cusps are not generated (two-sided limit ambiguous); curvature at an end with vanishing derivative is not compared.",
   ref="4 (C15)"),
 'C16': dict(
   technique="TLA+ state machine of Path's mutators and caches (PathSeq) and of the per-segment length cache (SegCache) model-checked with TLC; every behaviour replayed on real objects and compared with fresh ones; recorded histories validated by PathSeq_Trace.tla",
   text="TLC checks CacheCoherent / AnswerFresh / MutInvalidates over all histories of the 15 mutator and query actions to depth 4 (quick) / 6 (thorough); every behaviour of a small configuration plus simulated long ones is replayed on a warm and a lazy real Path with every query compared with a freshly built Path and with the model after each step, with and without scipy; SegCache histories are replayed on real Cubic/Quadratic segments; random 60-step histories of real Paths are accepted by the trace spec, which demands the fresh answers.",
   note="Trusted: TLC; the projection (axis-parallel integer Lines; one concretisation swaps in a collinear CubicBezier). Mutating a segment object that sits inside a Path is not a mutation through the Path interface and is not generated. Open finding: equal Paths with different hidden closed flag hash differently.",
   ref="4 (C16), 3.4"),
 'C02': dict(
   technique="TLA+ state machine of the SVG path-data interpreter (PathData/PathSem/PathLex) model-checked with TLC; every TLC behaviour replayed into parse_path; real-parser traces validated by PathData_Trace.tla",
   text="TLC enumerates every program over the 20 command letters up to the depth bound (plus simulated longer ones) with the machine invariants and the spelling-equivalence theorems checked in the model; each terminal behaviour is rendered in several lexical spellings and must parse to exactly the model's segments; every string of the lexer DFA is fed to the real tokenizer; per-group events of the real parser on random long programs and on the repository's own d-strings are accepted by the trace spec.",
   note="Trusted: TLC, the reading of the SVG 1.1/2 path grammar encoded in PathSem/PathLex (no trailing-dot numbers, no null arcs), Python float()/Fraction for number values. Arguments are small integers; float rounding of relative offsets is not modelled.",
   ref="4 (C02), 3.1, 3.2"),
 'C17': dict(
   technique="TLA+ state machine of the SVG document tree and of the explicit-stack flattening traversal (SvgDoc.tla over AffineOps) model-checked with TLC; every tree rendered to SVG text and read through Document, paths_from_group, svg2paths and SaxDocument; the underlying affine algebra (composition = composition of maps, associativity, det multiplicative, evaluation commutes with the map, area scales by det) proved for all integers with Apalache (spec/apalache/MC_Affine.tla)",
   text="TLC checks StackEqualsRecursive and PartialOK (the traversal's matrices = product of ancestor transform lists, outermost first), TreeOK and ShapesClosed for every tree up to the node bound; every tree of root + 2 nodes (8 shape kinds x 10 transform lists x both nestings) and simulated trees of up to 7-9 nodes are rendered with ids and each API's result is compared per element id with the model's shape geometry (SVG 1.1 ch. 9) mapped by the model's matrix: Document.paths, paths_from_group for every group (recursive / not, by element / by nested names), svg2paths (identity, by design), SaxDocument.flatten_all_paths.",
   note="Trusted: TLC, xml parsing, the Arc class for reference arcs (C04). Integer attributes, invertible transform lists only; rx/ry never exceed half the rect; circle/ellipse compared as a closed arc outline through the four quadrant points.",
   ref="4 (C17), 3.12"),
 'C18': dict(
   technique="TLA+ state machine of Document histories (SvgHist.tla: add_path / add_group / save / reload from an empty or loaded document) model-checked with TLC; every behaviour replayed on a real Document in a temporary directory; wsvg round trips read back by three readers",
   text="TLC checks AddedVisible, GroupsClosed, SaveReloadIdentity and FileIsSnapshot over all histories to depth 4 (quick) / 5 (thorough); every behaviour of depth 2, a sample of depth 3 and simulated ones of depth 5-9 are replayed: after each operation paths() and paths_from_group() of every group (recursive and direct, insertion order) and the supplied attributes are compared with the model, every saved file is also read by svg2paths and SaxDocument; wsvg(paths, attributes, svg_attributes) for permutations of a path pool (lines, cubic, arc, quadratic, several subpaths, large and tiny coordinates) is read back by svg2paths2, Document and SaxDocument: same order, equal paths, attributes included.",
   note="Trusted: TLC, xml libraries, svgwrite. Paths are identified by == with the pool (absolute d round trip, C01). Order across different groups is not prescribed.",
   ref="4 (C18), 3.12"),
 'C19': dict(
   technique="TLA+ exact lattice algebra (Bezier.tla, degrees 0..8; degree <= 3 identities also proved over unbounded integers with Apalache) and state machines of the root de-duplication loop (Roots.tla) and of the L'Hopital recursion (RatLimit.tla) model-checked with TLC; every case replayed into the real helpers in exact Fraction arithmetic / through a numpy.roots proxy; recorded numpy orders validated by Roots_Trace.tla",
   text="TLC checks Bernstein = de Casteljau = Horner, the basis-change round trip, derivative = polynomial derivative and the split re-parameterisation on unisolvent grids for degrees 0..8, SimpleOnce/ClusterRepresented/OnePerCluster for every set partition x kind vector of up to 5 (quick) / 6 (thorough) roots, and the correctness of the limit recursion for all integer polynomial pairs of degree <= 2 at four points; each case is replayed: bezier_point, bezier2polynomial, polynomial2bezier, split_bezier, halve_bezier with Fractions (exact equality), polyroots/polyroots01 with numpy.roots returning exactly the model's ordered list, rational_limit on every (f,g,t0); 300/3000 real polynomials with prescribed root sets are validated as traces.",
   note="Trusted: TLC, Python Fractions, the interpolation argument (identities linear in the control points and of degree <= n in t). Closeness of roots is modelled as an equivalence relation; non-transitive chains are not generated.",
   ref="4 (C19), 3.6, 3.7"),
 'C20': dict(
   technique="TLA+ state machine of the joint loop of smoothed_path (Smooth.tla: AlreadySmooth, three elbow constructions, closing joint) model-checked with TLC; every scenario realised geometrically and pushed through the real smoothed_path",
   text="TLC checks Continuous, NoKinks, EndpointsKept, StaysClosed, SmoothUntouched, SingleUnchanged and EverySegmentKept for every pattern of <= 4 line / cubic segments x smooth / kink joints x open / closed (506 scenarios); each scenario is realised with seeded geometry (corner angles 25-155 degrees, segment lengths from 0.3 to 40 against maxjointsize 0.7 / 3 / 10, tightness 0.5 / 1.5 / 1.99) and the real result must be continuous, have matching unit tangents at every joint incl. the closing one, keep the end points (open) or stay closed, leave smooth joints at the same point with the same tangent, return a single segment unchanged, and keep every sampled point within maxjointsize of the input.",
   note="Trusted: TLC; the geometric realisation is verified against the scenario before use (draws that do not realise the pattern are discarded and counted). The distance bound is sampled, not decided. Straight (collinear) smooth joints inside closed polygons are covered by the open scenarios only.",
   ref="4 (C20), 3.13"),
}
PENDING = {}
ALL = ['C%02d' % i for i in range(1, 21)]


def main():
    checks = []
    for pid in ALL:
        c = CHECKS.get(pid)
        if not c:
            continue
        checks.append({
            'property_id': pid,
            'quick_cmd': './check %s --tier quick' % pid,
            'thorough_cmd': './check %s --tier thorough' % pid,
            'evidence_file': 'evidence/%s.json' % pid,
            'replay_cmd_template': './check %s --replay {path}' % pid,
            'engine': 'tlc',
            'level_claimed': {'category': 'model_checking', 'text': c['text'], 'design_ref': 'DESIGN.md section ' + c['ref']},
            'level_note': c['note'],
            'technique': c['technique'],
        })
    na = [{'property_id': pid, 'reason': PENDING.get(pid, 'check not built yet (build in progress; no claim made)')}
          for pid in ALL if pid not in CHECKS]
    man = {
        'version': 1,
        'setup_cmd': './setup.sh',
        'hooks': {
            'guard': 'SVGPATHTOOLS_VERIF',
            'enable': 'no source hooks in /repo: checks import svgpathtools from /repo\'s working tree and wrap public methods from outside; SVGPATHTOOLS_VERIF=1 enables the harness-side pytest plugin harness/pytest_recorder.py (used by the C16 check when it runs the repository tests: PYTHONPATH=/verif pytest -p harness.pytest_recorder)',
            'baseline_off_cmd': BASE_OFF,
            'source_commits': [],
            'add_only': True,
        },
        'engines': [{'name': 'tlc', 'path': 'harness/tlc.py', 'serves_properties': sorted(CHECKS),
                     'kind_free_text': 'TLA+ specifications in spec/ checked with TLC 1.8 (exhaustive + -simulate); generate-and-replay and trace-validation drivers in harness/props/'}],
        'checks': checks,
        'notes': 'See DESIGN.md. Exit 2 of ./check = machinery failure (never reported as a violation). known_findings.json lists open findings and fixed defects.',
        'not_applicable': na,
    }
    with open(os.path.join(HERE, 'MANIFEST.json'), 'w') as f:
        json.dump(man, f, indent=1)
        f.write('\n')
    print('MANIFEST.json: %d checks, %d not_applicable' % (len(checks), len(na)))


if __name__ == '__main__':
    main()
