#!/bin/bash
# usage: tools/try_refactors.sh <jobs> <patch.diff> [<patch.diff> ...]
# False-alarm rehearsal: each patch is a change that is meant to PRESERVE every property.  It is applied in its own scratch worktree of /repo (under /tmp/rfw,
# removed afterwards) and all 20 quick checks are run against that worktree (VERIF_REPO / VERIF_OUT), never against /repo.  Prints one line per (patch, check)
# whose exit status is not 0 or that printed MODEL-DRIFT, and a summary line per patch.
jobs=$1; shift
mkdir -p /tmp/rfw
one() {
  patch=$1; pid=$2; tag=$3
  wt=/tmp/rfw/wt_$tag
  out=$(cd /verif && VERIF_REPO=$wt VERIF_OUT=/tmp/rfw/out_${tag}_$pid timeout 1500 ./check $pid --tier quick 2>&1); rc=$?
  echo "$tag $pid rc=$rc :: $(echo "$out" | grep -E '^VIOLATION|^MACHINERY|^MODEL-DRIFT' | head -3 | cut -c1-260 | tr '\n' ' ')"
  rm -rf /tmp/rfw/out_${tag}_$pid
}
export -f one
list=/tmp/rfw/list.$$; : > $list
for patch in "$@"; do
  tag=$(echo "$patch" | sed -e 's#^/tmp/rf/##' -e 's#/out/patch#_r#' -e 's#\.diff$##' -e 's#[^A-Za-z0-9_]#_#g')
  wt=/tmp/rfw/wt_$tag
  git -C /repo worktree remove --force $wt >/dev/null 2>&1
  git -C /repo worktree add --detach $wt HEAD >/dev/null 2>&1 || { echo "$tag: cannot make a worktree"; continue; }
  (cd $wt && (git apply --whitespace=nowarn "$patch" 2>/dev/null || git apply -3 --whitespace=nowarn "$patch" >/dev/null 2>&1)) || { echo "$tag: does not apply"; git -C /repo worktree remove --force $wt; continue; }
  (cd $wt && timeout 900 /venv/bin/python -m pytest -q -p no:cacheprovider test >/tmp/rfw/pytest_$tag.log 2>&1); echo "$tag pytest rc=$? $(tail -1 /tmp/rfw/pytest_$tag.log)"
  for n in 01 02 03 04 05 06 07 08 09 10 11 12 13 14 15 16 17 18 19 20; do echo "$patch C$n $tag" >> $list; done
done
xargs -a $list -P $jobs -L 1 bash -c 'one "$0" "$1" "$2"' | grep --line-buffered -v "rc=0 :: $"
for patch in "$@"; do
  tag=$(echo "$patch" | sed -e 's#^/tmp/rf/##' -e 's#/out/patch#_r#' -e 's#\.diff$##' -e 's#[^A-Za-z0-9_]#_#g')
  git -C /repo worktree remove --force /tmp/rfw/wt_$tag >/dev/null 2>&1
done
rm -f $list
echo "done: $# patch(es)"
