#!/bin/sh
# For every fix: commit of /repo, apply its reverse to the working tree, run the checks that claim it, expect a VIOLATION (rc=1), restore.
# usage: tools/revert_rehearsal.sh            -> table on stdout (also written to /verif/seeded/revert_rehearsal.txt)
cd /repo || exit 2
git diff --quiet || { echo "/repo is dirty"; exit 2; }
out=/verif/seeded/revert_rehearsal.txt
: > $out
map() { case "$1" in
 *"S/T directly after Z"*) echo C02;; *"arc flags written"*) echo C02;; *"dropped a closing curve"*) echo C01;;
 *"kept the cached length"*) echo C16;; *"looser error"*) echo C16;; *"slice assignment"*) echo C16;;
 *"polyroots removed"*) echo "C19";; *"bisection had stalled"*) echo C07;; *"chain-rule factor"*) echo C04;;
 *"closing joint not re-joined"*) echo C10;; *"transform() of an Arc"*) echo "C10 C17";; *"rounded rectangles"*) echo C17;;
 *"SaxDocument ignored"*) echo C17;; *"empty group"*) echo C17;; *"invisible to the Document"*) echo C18;; *"could not be read by svg2paths"*) echo C18;;
 *"T2t could return"*) echo C09;; *"crop_bezier located"*) echo C09;; *"picked the wrong segment"*) echo C09;;
 *"missed extremes"*) echo C08;; *"lost its sign"*) echo C15;; *"returned nan at a vanishing"*) echo C15;;
 *"+/-inf for collinear"*) echo C06;; *"clockwise Arc"*) echo C12;; *) echo "";; esac; }
git log --format='%h %s' | grep " fix:" | while read sha rest; do
  pids=$(map "$rest")
  [ -z "$pids" ] && { echo "$sha ?? no check mapped: $rest" | tee -a $out; continue; }
  git show $sha | git apply -R 2>/dev/null || { echo "$sha SKIP (reverse patch does not apply on top of later fixes): $rest" | tee -a $out; git checkout -q -- .; continue; }
  for pid in $pids; do
    res=$(cd /verif && ./check $pid --tier quick 2>&1); rc=$?
    n=$(echo "$res" | grep -c '^VIOLATION')
    echo "$sha $pid rc=$rc violations_lines=$n :: $rest" | tee -a $out
  done
  git checkout -q -- .
done
cd /verif && git checkout -q -- evidence 2>/dev/null
