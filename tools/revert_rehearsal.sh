#!/bin/bash
# For every fix: commit of /repo: apply its reverse in a scratch worktree of HEAD (never in /repo), run the quick check of the property recorded for it in
# known_findings.json against that worktree (VERIF_REPO) and expect exit 1 with a VIOLATION line.
# usage: tools/revert_rehearsal.sh [jobs]     -> table in /verif/seeded/revert_rehearsal.txt
J=${1:-6}
S=/tmp/revert_reh.$$; mkdir -p $S
python3 - > $S/list.txt <<'PY'
import json, subprocess
k = json.load(open('/verif/known_findings.json'))
props = {}
for f in k['findings']:
    if f.get('status') == 'fixed' and f.get('commit'):
        props.setdefault(f['commit'][:7], [])
        if f['property'] not in props[f['commit'][:7]]:
            props[f['commit'][:7]].append(f['property'])
import re
for line in k['log']:
    m = re.match(r'fixed: property=(C\d\d) ([0-9a-f]{7})', line)
    if m and m.group(1) not in props.setdefault(m.group(2), []):
        props[m.group(2)].append(m.group(1))
log = subprocess.run(['git', '-C', '/repo', 'log', '--format=%h %s'], stdout=subprocess.PIPE, text=True).stdout.splitlines()
for l in log:
    sha, rest = l.split(' ', 1)
    if rest.startswith('fix:'):
        print(sha[:7], ','.join(props.get(sha[:7], [])) or '-', rest)
PY
run_one() {
  sha=$1; pids=$2; rest=$(git -C /repo log -1 --format=%s $sha); S=$S_DIR; wt=$S/wt_$sha
  [ "$pids" = "-" ] && { echo "$sha ?? no property recorded: $rest"; return; }
  git -C /repo worktree add -q --detach $wt HEAD 2>/dev/null || { echo "$sha WORKTREE-FAILED"; return; }
  if ! (git -C /repo show $sha | git -C $wt apply -R 2>/dev/null); then
    echo "$sha SKIP (reverse patch does not apply on top of later fixes): $rest"
  else
    for pid in $(echo $pids | tr ',' ' '); do
      res=$(cd /verif && VERIF_REPO=$wt VERIF_OUT=$S/out_$sha ./check $pid --tier quick 2>&1); rc=$?
      n=$(echo "$res" | grep -c '^VIOLATION')
      echo "$sha $pid rc=$rc violations_lines=$n :: $rest"
    done
  fi
  git -C /repo worktree remove --force $wt; rm -rf $S/out_$sha
}
export -f run_one; export S_DIR=$S
cut -d' ' -f1,2 $S/list.txt | xargs -P $J -L 1 bash -c 'run_one "$0" "$1"' > $S/table.txt
git -C /repo worktree prune
{ echo "# revert rehearsal against /repo $(git -C /repo rev-parse --short HEAD), $(date -u +%FT%TZ)"; sort -k1,1 $S/table.txt; } > /verif/seeded/revert_rehearsal.txt
rm -rf $S
grep -c "rc=1" /verif/seeded/revert_rehearsal.txt; grep -v "rc=1" /verif/seeded/revert_rehearsal.txt | grep -v '^#'
