#!/bin/sh
# runs every check of the manifest at the given tier (default quick), in parallel batches; prints one line per check
tier=${1:-quick}
cd "$(dirname "$0")/.."
mkdir -p /tmp/runall
for p in 01 02 03 04 05 06 07 08 09 10 11 12 13 14 15 16 17 18 19 20; do
  ( s=$(date +%s); ./check C$p --tier $tier > /tmp/runall/C$p.out 2>&1; rc=$?; e=$(date +%s); echo "C$p rc=$rc $((e-s))s $(grep -c KNOWN-FINDING /tmp/runall/C$p.out) known :: $(tail -1 /tmp/runall/C$p.out | cut -c1-150)" ) &
  case $p in 04|08|12|16) wait;; esac
done
wait
