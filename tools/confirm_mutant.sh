#!/bin/sh
# usage: tools/confirm_mutant.sh <worktree> <patch> <demo.py>  -> prints CONFIRMED or the reason why not
wt="$1"; patch="$2"; demo="$3"
cd "$wt" || exit 2
git checkout -q -- . 
/venv/bin/python "$demo" "$wt" >/dev/null 2>&1; a=$?
git apply "$patch" || { echo "NOT: patch does not apply"; exit 1; }
res=$(/venv/bin/python -m pytest -q -p no:cacheprovider --timeout=900 2>&1 | tail -1)
/venv/bin/python "$demo" "$wt" >/dev/null 2>&1; b=$?
git checkout -q -- .
echo "demo clean=$a patched=$b tests: $res"
case "$res" in *"92 passed"*|*"1 failed, 91 passed"*) t=ok;; *) t=bad;; esac
if [ "$a" = 0 ] && [ "$b" != 0 ] && [ "$t" = ok ]; then echo CONFIRMED; else echo "NOT confirmed"; exit 1; fi
