#!/bin/bash
# usage: tools/seeded_regression.sh [jobs] [id-glob]
# Applies every kept seeded change (seeded/<id>/patch.diff) in a scratch worktree of /repo's HEAD under /tmp (never in /repo), runs the quick check of
# the property it breaks against that worktree (VERIF_REPO) and expects exit 1 with a VIOLATION line.  Evidence / replays of these runs go to the
# scratch area, not to /verif.  Result table: seeded/regression.txt
J=${1:-8}; G=${2:-C*}
S=/tmp/seeded_reg.$$; mkdir -p $S
ids=$(cd /verif/seeded && ls -d $G | grep -v txt)
run_one() {
  id=$1; S=$2; P=${id%-*}; wt=$S/wt_$id
  git -C /repo worktree add -q --detach $wt HEAD 2>/dev/null || { echo "$id WORKTREE-FAILED"; return; }
  if python3 -c "import json,sys;sys.exit(0 if json.load(open('/verif/seeded/$id/meta.json')).get('neutralised_by') else 1)"; then
    git -C $wt apply /verif/seeded/$id/patch.diff 2>/dev/null; /venv/bin/python /verif/seeded/$id/demo.py $wt >/dev/null 2>&1 && echo "$id $P NEUTRALISED (CAUGHT n/a: the demo passes with the patch since a later fix; see meta.json) ::" || echo "$id $P NEUTRALISED-BUT-DEMO-FAILS ::"
  elif ! git -C $wt apply /verif/seeded/$id/patch.diff 2>/dev/null; then echo "$id $P DOES-NOT-APPLY"; else
    # the property it breaks first, then the other checks recorded in meta.json as catching it (C13-m3 is a polyroots defect: C19)
    r=MISSED; by=""
    for Q in $P $(python3 -c "import json;print(' '.join(x for x in json.load(open('/verif/seeded/$id/meta.json'))['caught_by'] if x != '$P'))"); do
      out=$(cd /verif && VERIF_REPO=$wt VERIF_OUT=$S/out_$id ./check $Q --tier quick 2>&1); rc=$?
      v=$(echo "$out" | grep -c '^VIOLATION')
      if [ $rc -eq 1 ] && [ $v -gt 0 ]; then r=CAUGHT; by=$Q; break; elif [ $rc -ne 0 ]; then r="MACHINERY(rc=$rc)"; by=$Q; break; fi
    done
    echo "$id $P $r${by:+ by $by} :: $(echo "$out" | grep '^VIOLATION' | head -1 | sed 's/.*key=//' | cut -c1-100)"
  fi
  git -C /repo worktree remove --force $wt; rm -rf $S/out_$id
}
export -f run_one
echo "$ids" | xargs -P $J -I{} bash -c "run_one {} $S" | sort > $S/table.txt
git -C /repo worktree prune
{ echo "# seeded-change regression against /repo $(git -C /repo rev-parse --short HEAD), $(date -u +%FT%TZ)"; cat $S/table.txt; } > /verif/seeded/regression.txt
rm -rf $S
grep -c 'CAUGHT' /verif/seeded/regression.txt; grep -v CAUGHT /verif/seeded/regression.txt | grep -v '^#'
