#!/bin/sh
# Offline setup: nothing to build (specs are interpreted by TLC, the harness is Python); verify the tool chain.
set -e
cd "$(dirname "$0")"
java -version >/dev/null 2>&1 || { echo "java missing"; exit 1; }
test -f /opt/veriftools/tla/tla2tools.jar || { echo "tla2tools.jar missing"; exit 1; }
/venv/bin/python -c "import numpy, sys; sys.path.insert(0, '/repo'); import svgpathtools" || { echo "cannot import svgpathtools from /repo"; exit 1; }
command -v apalache-mc >/dev/null 2>&1 || { echo "apalache-mc missing"; exit 1; }
mkdir -p evidence replays
echo "setup ok"
