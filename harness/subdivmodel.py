"""Binding of spec/Subdiv.tla to svgpathtools.bezier.bezier_intersections (C11 / C12).

The model (Variant = "code") is the subdivision loop transcribed action by action; for straight, uniformly parameterised
quadratics between lattice points every number in the loop is an exact dyadic float, so the real function must take *exactly*
the model's behaviour: the same pairs visited in the same order at every level (recorded by wrapping bezier_bounding_box /
boxes_intersect from outside), the same reports, the same "maximum iterations" failure.  A disagreement means the model no
longer describes the code; it is reported as MODEL-DRIFT, not as a violation (another correct subdivision strategy would
differ too): the model-level properties (NoLoss, Once - violated by "code", satisfied by "correct") then say nothing about
the code and the G families of C11 / C12 are the only judge.
"""
import math

from . import pathmodel as pm

sp = pm.sp
bz = sp.bezier

CFG = ('SPECIFICATION Spec\nCONSTANTS K = %d\n E = %d\n MaxIts = %d\n Variant = "%s"\n Lat <- %s\n TolMerge = "%s"\n Ins <- %s\n'
       'INVARIANT TypeOK\nINVARIANT DepthOK\nINVARIANT Sound\n%sCHECK_DEADLOCK FALSE\n')


def real_behaviour(inp, E, maxits, merge):
    # the lattice is blown up by S = 2^(E+1) (exact in floating point) so that the "longer length" handed over is >= 1: below 1 the library scales its absolute
    # tolerances down with the curves (fix for tiny curves), which is outside the regime Subdiv.tla describes; the behaviour on the blown-up lattice is that of the
    # model's unit lattice with tol_deC = 4^-E, tol = tol_deC
    S = 2.0 ** (E + 1)
    A, B, C, D = (complex(*inp[k]) * S for k in 'abcd')
    bez1 = [A, (A + B) / 2, B]
    bez2 = [C, (C + D) / 2, D]
    tol_dec = 4.0 ** -E * S * S
    tol = 4.0 ** -E * S if merge == 'same' else 2.0 ** -60
    longer = tol_dec * 2 ** (maxits - 1.5)          # maxits = ceil(1 - log2(tol_deC / longer_length)) = maxits
    assert longer >= 1
    calls, visits = [], []
    o_bb, o_bi = bz.bezier_bounding_box, bz.boxes_intersect

    def piece(p, a, b):
        k = int(round(math.log(abs(b - a) / abs(p[-1] - p[0]), 2)))
        i = int(round(((p[0] - a) / (b - a)).real * 2 ** k))
        return k, i

    def bb(bez):
        calls.append(list(bez))
        return o_bb(bez)

    def bi(b1, b2):
        r = o_bi(b1, b2)
        (k1, i), (k2, j) = piece(calls[-2], A, B), piece(calls[-1], C, D)
        visits.append({'k': k1, 'i': i, 'j': j, 'hit': bool(r), 'k2': k2})
        return r
    bz.bezier_bounding_box, bz.boxes_intersect = bb, bi
    raised = False
    res = []
    try:
        res = bz.bezier_intersections(bez1, bez2, longer, tol=tol, tol_deC=tol_dec)
    except Exception as e:      # noqa
        raised = 'maximum' in str(e)
        if not raised:
            raise
    finally:
        bz.bezier_bounding_box, bz.boxes_intersect = o_bb, o_bi
    return visits, [(float(u), float(v)) for u, v in res], raised


def compare(ck, case, E, maxits, merge):
    inp = case['in']
    ck.case(fp=('subdiv', str(inp), E, maxits, merge), nontrivial=case['cross'])
    try:
        visits, res, raised = real_behaviour(inp, E, maxits, merge)
    except Exception as e:      # noqa
        # the recorder rides on bezier_bounding_box / boxes_intersect being called once per visited pair: if the function no longer works that way the recorder may
        # fail although the function itself is fine - only an exception of the *uninstrumented* call on this legal input is the library's
        S = 2.0 ** (E + 1)
        A, B, C, D = (complex(*inp[k]) * S for k in 'abcd')
        try:
            bz.bezier_intersections([A, (A + B) / 2, B], [C, (C + D) / 2, D], 4.0 ** -E * S * S * 2 ** (maxits - 1.5), tol=4.0 ** -E * S if merge == 'same' else 2.0 ** -60,
                                    tol_deC=4.0 ** -E * S * S)
            plain_ok = True
        except Exception as e2:      # noqa
            plain_ok = 'maximum' in str(e2)
        if plain_ok:
            ck.drift('bezier_intersections/recorder-no-longer-fits', 'straight lattice quadratics %s: the visit recorder failed (%r) although the plain call works' % (inp, e))
        else:
            ck.disagree(key='bezier_intersections/raises-' + type(e).__name__, site='svgpathtools/bezier.py:bezier_intersections',
                        what='straight lattice quadratics %s: %r' % (inp, e), case={'in': inp, 'E': E, 'maxits': maxits, 'merge': merge},
                        expected='a list of parameter pairs', observed=repr(e), driver='subdiv')
        return False
    mv = [(v['k'], v['i'], v['j'], v['hit']) for v in case['visits']]
    rv = [(v['k'], v['i'], v['j'], v['hit']) for v in visits]
    mf = [((2 * f['i'] + 1) / 2.0 ** (f['k'] + 1), (2 * f['j'] + 1) / 2.0 ** (f['k'] + 1)) for f in case['found']]
    ok = mv == rv and (raised == case['raised']) and (raised or mf == res) and all(v['k'] == v['k2'] for v in visits)
    if ok:
        ck.trace_ok(1)
    if not ok:
        at = next((n for n, (x, y) in enumerate(zip(mv, rv)) if x != y), min(len(mv), len(rv)))
        ck.drift('bezier_intersections/behaviour-differs-from-Subdiv.tla',
                 'straight lattice quadratics %s (tol_deC=4^-%d, maxits=%d, tol %s): the real loop departs from the model at visit %d: model %s, code %s; '
                         'reports model %s / code %s; raised model %s / code %s' % (inp, E, maxits, merge, at, mv[at:at + 2], rv[at:at + 2], mf, res, case['raised'], raised))
    return ok


def run(ck, quick):
    """P: the design ("correct") satisfies NoLoss / Once / NoGhostParallel; the transcription of the code ("code") violates NoLoss (the open
    findings, explained at model level).  V: every behaviour of the "code" model is compared visit by visit with the real function."""
    inv = 'INVARIANT NoLoss\nINVARIANT Once\nINVARIANT NoGhostParallel\n'
    ins = 'InputsAnchored' if quick else 'Inputs'
    ck.tlc('Subdiv', CFG % (6, 1, 6, 'correct', 'Lat2', 'same', ins, inv), need_actions=['Visit', 'NextLevel'], timeout=1200)
    r = ck.tlc('Subdiv', CFG % (6, 1, 6, 'code', 'Lat2', 'same', ins, 'INVARIANT NoLoss\n'), must_hold=False, coverage=False, timeout=1200)
    if r.violated != 'NoLoss':
        from .core import Machinery
        raise Machinery('Subdiv.tla: the transcription of the code is expected to violate NoLoss (open findings); TLC reports %r' % r.violated)
    ck.parts['Subdiv_code_variant'] = 'violates NoLoss as recorded in known_findings.json (zero-extent / dyadic boxes)'
    runs = [(6, 1, 6, 'Lat2', 'same', ins), (6, 2, 3, 'Lat2', 'tiny', ins)] if quick else \
        [(6, 1, 6, 'Lat2', 'same', ins), (6, 2, 6, 'Lat2', 'tiny', ins), (6, 2, 3, 'Lat2', 'same', ins), (7, 2, 7, 'Lat3', 'same', 'InputsAnchored')]
    state = {'n': 0}
    for K, E, M, lat, merge, ins_ in runs:
        def on_case(c, E=E, M=M, merge=merge):
            state['n'] += 1
            compare(ck, c, E, M, merge)
        ck.tlc('Subdiv', CFG % (K, E, M, 'code', lat, merge, ins_, 'INVARIANT Dump\n'), workers=1, coverage=False, on_case=on_case, timeout=3000)
    # larger lattice by simulation
    for seed in range(1 if quick else 4):
        ck.tlc('Subdiv', CFG % (7, 2, 7, 'code', 'Lat4', 'same', 'InputsAnchored', 'INVARIANT Dump\n'), workers=1, coverage=False, simulate=40 if quick else 400, depth=400,
               seed=ck.seed + seed, on_case=lambda c: compare(ck, c, 2, 7, 'same'), timeout=3000)
    ck.count('subdiv_behaviours_compared', state['n'])
