"""Shared by C11 / C12: turning Crossings.tla cases into real segment pairs, plus the circle-lattice arc families."""
import cmath
import math

from . import pathmodel as pm

sp = pm.sp


def mk(xs, ys):
    z = [complex(x, y) for x, y in zip(xs, ys)]
    return {2: sp.Line, 3: sp.QuadraticBezier, 4: sp.CubicBezier}[len(z)](*z)


def kind(seg):
    return {'Line': 'L', 'QuadraticBezier': 'Q', 'CubicBezier': 'C', 'Arc': 'A'}[type(seg).__name__]


def pair_of(c):
    pr = c['pr']
    a = mk(pr['x1'], pr['y1'])
    b = mk(pr['x2'], pr['y2'])
    q = float(c['q'])
    return a, b, pr['k1'] / q, pr['k2'] / q


def angle_between(a, b, t1, t2):
    u, v = a.derivative(t1), b.derivative(t2)
    if u == 0 or v == 0:
        return 0.0
    s = abs(u.real * v.imag - u.imag * v.real) / (abs(u) * abs(v))
    return math.degrees(math.asin(min(1.0, s)))


def arc_through(center, r, a0, a1):
    """circular unrotated arc on the circle (center, r) from angle a0 to a1 (degrees, counter-clockwise if a1 > a0)"""
    s = center + r * cmath.exp(1j * math.radians(a0))
    e = center + r * cmath.exp(1j * math.radians(a1))
    return sp.Arc(s, complex(r, r), 0, abs(a1 - a0) > 180, a1 > a0, e)


def arc_param(center, a0, a1, pt):
    ang = math.degrees(cmath.phase(pt - center))
    lo, hi = (a0, a1) if a1 > a0 else (a1, a0)
    while ang < lo:
        ang += 360
    while ang > hi:
        ang -= 360
    return (ang - a0) / (a1 - a0)


def arc_families():
    """(name, seg1, seg2, [(t1, t2, point)]) with every crossing known exactly: circles of radius 5 / 13 have lattice points"""
    out = []
    O = 0j
    for (px, py) in ((3, 4), (-4, 3), (4, -3), (5, 0), (0, -5)):
        P = complex(px, py)
        # a radial line from 0.4 P to 1.6 P crosses the circle once, at P, at line parameter 0.5
        ln = sp.Line(0.4 * P, 1.6 * P)
        base = math.degrees(cmath.phase(P))
        arc = arc_through(O, 5.0, base - 70, base + 40)
        out.append(('A-L radial', arc, ln, [(arc_param(O, base - 70, base + 40, P), 0.5, P)]))
        arc2 = arc_through(O, 5.0, base + 100, base - 200)          # clockwise, large
        out.append(('A-L radial cw large', arc2, ln, [(arc_param(O, base + 100, base - 200, P), 0.5, P)]))
        # a uniform cubic / quadratic in disguise of the same radial line
        d = 1.2 * P
        cub = sp.CubicBezier(0.4 * P, 0.4 * P + d / 3, 0.4 * P + 2 * d / 3, 1.6 * P)
        out.append(('A-C radial', arc, cub, [(arc_param(O, base - 70, base + 40, P), 0.5, P)]))
        qd = sp.QuadraticBezier(0.4 * P, 0.4 * P + d / 2, 1.6 * P)
        out.append(('A-Q radial', arc, qd, [(arc_param(O, base - 70, base + 40, P), 0.5, P)]))
    # a chord line crossing the circle twice at lattice points (3,4) and (-4,3)?  use the horizontal y = 4: (-3,4) and (3,4)
    ln = sp.Line(-9 + 4j, 9 + 4j)
    arc = arc_through(O, 5.0, 10, 170)
    out.append(('A-L chord twice', arc, ln, [(arc_param(O, 10, 170, 3 + 4j), 12 / 18.0, 3 + 4j), (arc_param(O, 10, 170, -3 + 4j), 6 / 18.0, -3 + 4j)]))
    # two circles of radius 5 centred 0 and 6: they meet at (3, 4) and (3, -4)
    a1 = arc_through(O, 5.0, 0, 120)
    a2 = arc_through(6 + 0j, 5.0, 60, 200)
    P = 3 + 4j
    out.append(('A-A circles', a1, a2, [(arc_param(O, 0, 120, P), arc_param(6 + 0j, 60, 200, P), P)]))
    a3 = arc_through(O, 5.0, -100, 100)
    a4 = arc_through(6 + 0j, 5.0, 80, 280)
    out.append(('A-A circles twice', a3, a4, [(arc_param(O, -100, 100, P), arc_param(6 + 0j, 80, 280, P), P),
                                              (arc_param(O, -100, 100, P.conjugate()), arc_param(6 + 0j, 80, 280, P.conjugate()), P.conjugate())]))
    # circular arcs whose x-axis-rotation is a multiple of 180 degrees (the same circle, the same traversal) against radial lines
    for rot in (180, -180, 540, 360, 90):
        P = 3 + 4j
        base = math.degrees(cmath.phase(P))
        for a0, a1 in ((base - 70, base + 40), (base + 100, base - 200)):
            s_, e_ = 5.0 * cmath.exp(1j * math.radians(a0)), 5.0 * cmath.exp(1j * math.radians(a1))
            arc = sp.Arc(s_, 5 + 5j, rot, abs(a1 - a0) > 180, a1 > a0, e_)
            out.append(('A-L radial, arc rotation %d' % rot, arc, sp.Line(0.4 * P, 1.6 * P), [(arc_param(O, a0, a1, P), 0.5, P)]))
            out.append(('A-L oblique, arc rotation %d' % rot, arc, sp.Line(P - (2 + 0.5j), P + (2 + 0.5j)), [(arc_param(O, a0, a1, P), 0.5, P)]))
    # a straight segment through the whole circle: one of its two meetings with the circle lies off the arc (before / after the one on the arc)
    up = arc_through(O, 5.0, 10, 170)
    for rot in (0, 30):
        arc = sp.Arc(up.start, 5 + 5j, rot, False, True, up.end)
        for (p0, p1, t_on) in ((3 - 9j, 3 + 9j, 13 / 18.0), (3 + 9j, 3 - 9j, 5 / 18.0), (-3 - 6j, -3 + 6j, 10 / 12.0)):
            d = p1 - p0
            for nm, sg in (('L', sp.Line(p0, p1)), ('Q', sp.QuadraticBezier(p0, p0 + d / 2, p1)), ('C', sp.CubicBezier(p0, p0 + d / 3, p0 + 2 * d / 3, p1))):
                P = p0 + t_on * d
                out.append(('A-%s through the circle, one meeting off the arc (rotation %d)' % (nm, rot), arc, sg, [(arc_param(O, 10, 170, P), t_on, P)]))
    # two circles of unequal radii, the small one centred near the rim of the big one (the common chord lies beyond the small centre)
    for d_, r1 in ((9.0, 3.0), (8.0, 3.0), (11.0, 3.0), (9.5, 1.0)):
        r0 = 10.0
        x = (r0 * r0 - r1 * r1 + d_ * d_) / (2 * d_)
        y = math.sqrt(r0 * r0 - x * x)
        Pu, Pd = complex(x, y), complex(x, -y)
        big = arc_through(O, r0, -40, 40)
        au = math.degrees(cmath.phase(Pu - d_))
        small_u = arc_through(complex(d_, 0), r1, au - 60, au + 50)
        out.append(('A-A unequal radii d=%g r=%g' % (d_, r1), big, small_u, [(arc_param(O, -40, 40, Pu), arc_param(complex(d_, 0), au - 60, au + 50, Pu), Pu)]))
    # radius 13: (5,12), (12,5)
    a5 = arc_through(1 + 1j, 13.0, 0, 90)
    ln2 = sp.Line(1 + 1j + 0.5 * (5 + 12j), 1 + 1j + 1.5 * (5 + 12j))
    out.append(('A-L r13', a5, ln2, [(arc_param(1 + 1j, 0, 90, 1 + 1j + 5 + 12j), 0.5, 1 + 1j + 5 + 12j)]))
    return out


def ellipse_families():
    """rotated / elliptical lattice arcs against a radial line through a lattice point of the arc: one crossing, known exactly"""
    from . import arcmodel as am
    out = []
    for A in ({'r': [5, 3], 'phi': 2, 'th': -5, 'dl': 9, 'c': [0, 0]}, {'r': [2, 7], 'phi': 3, 'th': 9, 'dl': -13, 'c': [1, 1]},
              {'r': [5, 3], 'phi': -6, 'th': 0, 'dl': 17, 'c': [-2, 4]}, {'r': [5, 3], 'phi': 9, 'th': 4, 'dl': -8, 'c': [3, -2]},
              {'r': [2, 7], 'phi': 26, 'th': -3, 'dl': 21, 'c': [0, 0]}, {'r': [5, 5], 'phi': 3, 'th': 1, 'dl': 10, 'c': [2, 2]},
              {'r': [5, 3], 'phi': 0, 'th': 1, 'dl': 8, 'c': [2, -1]}, {'r': [2, 7], 'phi': 0, 'th': -7, 'dl': -9, 'c': [0, 0]},
              {'r': [5, 3], 'phi': 12, 'th': 2, 'dl': 9, 'c': [0, 0]}, {'r': [5, 3], 'phi': -12, 'th': -4, 'dl': -10, 'c': [1, -1]}, {'r': [2, 7], 'phi': 36, 'th': 1, 'dl': 7, 'c': [0, 0]}):
        arc = am.concretise(A)
        n = abs(A['dl'])
        sg = 1 if A['dl'] > 0 else -1
        cen = complex(*A['c'])
        for j in (1, n // 2, n - 1):
            P = am.lat_point(A, A['th'] + sg * j)
            ln = sp.Line(cen + 0.4 * (P - cen), cen + 1.6 * (P - cen))
            out.append(('A-L ellipse %s step %d' % (A, j), arc, ln, [(j / float(n), 0.5, P)]))
            d = 1.2 * (P - cen)
            a0 = cen + 0.4 * (P - cen)
            out.append(('A-C ellipse %s step %d' % (A, j), arc, sp.CubicBezier(a0, a0 + d / 3, a0 + 2 * d / 3, a0 + d), [(j / float(n), 0.5, P)]))
            # a short exactly vertical / horizontal line through the lattice point (unrotated ellipses have an algebraic branch of their own for each)
            if A['phi'] % 12 == 0:
                tang = arc.unit_tangent(j / float(n))
                if abs(tang.real) > 0.3:       # not (nearly) vertical there: a vertical line crosses
                    out.append(('A-L ellipse %s step %d, vertical line' % (A, j), arc, sp.Line(P - 0.5j, P + 0.25j), [(j / float(n), 2 / 3.0, P)]))
                    out.append(('A-L ellipse %s step %d, vertical line downwards' % (A, j), arc, sp.Line(P + 0.25j, P - 0.5j), [(j / float(n), 1 / 3.0, P)]))
                if abs(tang.imag) > 0.3:
                    out.append(('A-L ellipse %s step %d, horizontal line' % (A, j), arc, sp.Line(P - 0.5, P + 0.25), [(j / float(n), 2 / 3.0, P)]))
    return out


def touching_from(a, b, t1, t2):
    """soundness-only pairs derived from a constructed crossing: a line that starts exactly on curve `a` (its start is the
    crossing point), one that starts 1e-10 short of it and one that starts 1e-10 beyond it"""
    P = a.point(t1)
    d = b.derivative(t2)
    d = d / abs(d) * 3.0
    out = []
    for eps, name in ((0.0, 'starts on the curve'), (1e-10, 'starts just beyond the curve'), (-1e-10, 'starts just before the curve')):
        out.append((name, a, sp.Line(P + eps * d, P + d)))
    return out


def path_families():
    """two paths whose crossings lie strictly inside segments: (path1, path2, [(i1, i2, point)])"""
    Ln = sp.Line
    zig = sp.Path(Ln(0j, 2 + 4j), Ln(2 + 4j, 4 + 0j), Ln(4 + 0j, 6 + 4j), Ln(6 + 4j, 8 + 0j))
    hor = sp.Path(Ln(-1 + 1j, 3 + 1j), Ln(3 + 1j, 3 + 3j), Ln(3 + 3j, 9 + 3j))
    exp = [(0, 0, 0.5 + 1j), (1, 1, 3 + 2j), (2, 2, 5.5 + 3j), (3, 2, 6.5 + 3j)]
    out = [('zigzag x staircase', zig, hor, exp)]
    sq = sp.Path(Ln(0j, 6 + 0j), Ln(6 + 0j, 6 + 6j), Ln(6 + 6j, 6j), Ln(6j, 0j))
    diag = sp.Path(Ln(-1 + 2j, 3 + 4j), sp.CubicBezier(3 + 4j, 4 + 4.5j, 5 + 5.5j, 7 + 5j), Ln(7 + 5j, 9 + 9j))
    # the first line enters the square through its left edge x=0 at y = 2.5 (t: x=-1+4t=0 -> t=.25 -> y = 2.5)
    out.append(('square x open path', sq, diag, [(3, 0, 2.5j), (1, 1, None)]))
    # one segment returning to its own start (x(t) = 450 t (1-t), y(t) = 360 t (1-t)(1-2t)): the vertical line x = 72 meets it at t = 0.2 and 0.8
    tear = sp.Path(sp.CubicBezier(0j, 150 + 120j, 150 - 120j, 0j))
    vert = sp.Path(Ln(72 - 50j, 72 + 50j), Ln(72 + 50j, 200 + 50j))
    out.append(('teardrop x line', tear, vert, [(0, 0, 72 + 34.56j), (0, 0, 72 - 34.56j)]))
    # a rectangle (two of its sides run in the negative axis direction) around the apex of a parabola-like quadratic
    rect = sp.Path(Ln(2 + 1j, 8 + 1j), Ln(8 + 1j, 8 + 3j), Ln(8 + 3j, 2 + 3j), Ln(2 + 3j, 2 + 1j))
    hump = sp.Path(sp.QuadraticBezier(0j, 5 + 8j, 10 + 0j))       # y = 16 t (1 - t), x = 10 t: y = 3 at t = 1/4, 3/4 (top side); x = 2, 8 at t = 0.2, 0.8 where y = 2.56
    out.append(('rectangle x hump', rect, hump, [(2, 0, 7.5 + 3j), (2, 0, 2.5 + 3j), (1, 0, 8 + 2.56j), (3, 0, 2 + 2.56j)]))
    return out
