"""Concretisation of ArcLattice.tla arcs: lattice (centre parameterisation, angles in units of 15 degrees)
-> the end-point parameterisation the svgpathtools.Arc constructor takes."""
import cmath
import math

from .core import import_repo

sp = import_repo()
UNIT = 15.0


def rot(phi_units):
    return cmath.exp(1j * math.radians(UNIT * phi_units))


def lat_point(A, alpha_units, centred=False):
    """point of the ellipse at eccentric angle alpha (units of 15 degrees; any real number)"""
    a = math.radians(UNIT * alpha_units)
    z = complex(A['r'][0] * math.cos(a), A['r'][1] * math.sin(a)) * rot(A['phi'])
    return z if centred else z + complex(A['c'][0], A['c'][1])


def flags(dl):
    return (abs(dl) > 12, dl > 0)


def concretise(A, neg_radius=False):
    fa, fs = flags(A['dl'])
    start = lat_point(A, A['th'])
    end = lat_point(A, A['th'] + A['dl'])
    rad = complex(A['r'][0], A['r'][1])
    if neg_radius:
        # "negative values of rx, ry: take the absolute value" - either radius, or both, independently
        k = (A['th'] + A['dl'] + A['phi']) % 3
        rad = complex(-A['r'][0] if k != 1 else A['r'][0], -A['r'][1] if k != 2 else A['r'][1])
    return sp.Arc(start, rad, UNIT * A['phi'], fa, fs, end)


def angle_diff(a, b):
    """a - b in degrees, reduced to (-180, 180]"""
    d = (a - b) % 360.0
    return d - 360.0 if d > 180.0 else d


def on_ellipse_residual(arc, z):
    """|u|-1 where u is z in the unit-circle frame of the arc's *stored* centre, radii and rotation"""
    w = (z - arc.center) / cmath.exp(1j * math.radians(arc.rotation))
    return abs(complex(w.real / arc.radius.real, w.imag / arc.radius.imag)) - 1.0


def ecc_angle(arc, z):
    w = (z - arc.center) / cmath.exp(1j * math.radians(arc.rotation))
    return math.degrees(cmath.phase(complex(w.real / arc.radius.real, w.imag / arc.radius.imag)))
