"""Concretisation / projection between the abstract paths of PathSem.tla and real svgpathtools
objects, d-string rendering under many lexical spellings, and a reference tokenizer for SVG path
data written from the grammar (independent of the library's regexes)."""
from fractions import Fraction

from .core import import_repo

sp = import_repo()
Line, QuadraticBezier, CubicBezier, Arc, Path = sp.Line, sp.QuadraticBezier, sp.CubicBezier, sp.Arc, sp.Path


import os as _os
import random as _random

import numpy as _np

_TYPE_RND = _random.Random(int(_os.environ.get('VERIF_SEED') or 1) * 7919 + 13)


def typed(zs, p=0.5):
    """The same control points in a seeded mix of numeric types (int / float / complex / numpy scalars): the value is unchanged, but
    numpy scalars do not raise ZeroDivisionError, ints have no rounding, ...  Results must not depend on the spelling."""
    out = []
    for z in zs:
        w = complex(z)
        if _TYPE_RND.random() > p:
            out.append(w)
            continue
        if w.imag == 0:
            r = w.real
            choices = [float(r), _np.float64(r), _np.complex128(w), w]
            if float(r).is_integer() and abs(r) < 2 ** 53:
                choices.append(int(r))
            out.append(_TYPE_RND.choice(choices))
        else:
            out.append(_TYPE_RND.choice([w, _np.complex128(w)]))
    return out


def Z(p, scale=1):
    return complex(p[0] / scale if scale != 1 else p[0], p[1] / scale if scale != 1 else p[1])


def mkseg(s, f=Z):
    k = s[0]
    if k == 'L':
        return Line(f(s[1]), f(s[2]))
    if k == 'Q':
        return QuadraticBezier(f(s[1]), f(s[2]), f(s[3]))
    if k == 'C':
        return CubicBezier(f(s[1]), f(s[2]), f(s[3]), f(s[4]))
    if k == 'A':
        return Arc(f(s[1]), f(s[2]), s[3], bool(s[4]), bool(s[5]), f(s[6]))
    raise ValueError(k)


def mkpath(segs, f=Z):
    return Path(*[mkseg(s, f) for s in segs])


def _ip(z, scale=1):
    x, y = z.real * scale, z.imag * scale
    rx, ry = round(x), round(y)
    if abs(x - rx) > 1e-6 * max(1, abs(x)) or abs(y - ry) > 1e-6 * max(1, abs(y)):
        return ['NONINT', repr(z)]
    return [int(rx), int(ry)]


def proj_seg(seg, scale=1, radius=None, rotkey=None):
    """real segment -> abstract segment (integers).  For arcs the radius *as written* may be
    supplied (the constructor enlarges radii that are too small)."""
    if isinstance(seg, Line):
        return ['L', _ip(seg.start, scale), _ip(seg.end, scale)]
    if isinstance(seg, QuadraticBezier):
        return ['Q', _ip(seg.start, scale), _ip(seg.control, scale), _ip(seg.end, scale)]
    if isinstance(seg, CubicBezier):
        return ['C', _ip(seg.start, scale), _ip(seg.control1, scale), _ip(seg.control2, scale), _ip(seg.end, scale)]
    if isinstance(seg, Arc):
        r = radius if radius is not None else _ip(seg.radius, scale)
        rot = seg.rotation
        rk = rotkey(rot) if rotkey else (int(rot) if float(rot).is_integer() else ['NONINT', repr(rot)])
        return ['A', _ip(seg.start, scale), r, rk, int(bool(seg.large_arc)), int(bool(seg.sweep)), _ip(seg.end, scale)]
    return ['?', repr(seg)]


def wellformed_seg(s):
    """Is an abstract segment type-correct for the TLA+ side (integers everywhere)?"""
    def pt(p):
        return isinstance(p, list) and len(p) == 2 and all(isinstance(v, int) and not isinstance(v, bool) and abs(v) < 2 ** 31 for v in p)
    if not isinstance(s, list) or not s:
        return False
    if s[0] == 'L':
        return len(s) == 3 and pt(s[1]) and pt(s[2])
    if s[0] == 'Q':
        return len(s) == 4 and all(pt(x) for x in s[1:])
    if s[0] == 'C':
        return len(s) == 5 and all(pt(x) for x in s[1:])
    if s[0] == 'A':
        return len(s) == 7 and pt(s[1]) and pt(s[2]) and pt(s[6]) and all(isinstance(v, int) for v in s[3:6])
    return False


EFF = lambda c, first: 'L' if (c.upper() == 'M' and not first) else c.upper()

# ------------------------------------------------------------------ number spellings


def spell_int(v, rnd, style):
    """A spelling of the integer v that the SVG number grammar accepts (no trailing dot)."""
    if style == 'plain':
        return str(v)
    forms = [str(v), '%d.0' % v, '%de0' % v, '%dE+0' % v, '%d0e-1' % v, '%d.00' % v]
    if v > 0:
        forms.append('+%d' % v)
    if v % 10 == 0 and v != 0:
        forms.append('%de1' % (v // 10))
    if v == 0:
        forms += ['-0', '.0', '0.0e5', '+.0']
    sgn = '-' if v < 0 else ''
    a = abs(v)
    forms.append('%s.%de%d' % (sgn, a, len(str(a))))       # .5e1 = 5 ; .12e2 = 12
    forms.append('%s0.%de%d' % (sgn, a, len(str(a))))
    s = rnd.choice(forms)
    assert Fraction(s) == v, (s, v)
    return s


def _needs_sep(prev, nxt):
    """Can `nxt` follow `prev` with no separator and still lex as two tokens?  Only if nxt starts
    with a sign, or with '.' while prev already contains '.' or an exponent."""
    if prev is None:
        return False
    if nxt[0] in '+-':
        return False
    if nxt[0] == '.' and ('.' in prev or 'e' in prev.lower()):
        return False
    return True


def render(groups, rnd=None, style='plain', compact_flags=False, explicit=False):
    """d-string for a program.  style: plain | spaces | minimal | numforms | mixed."""
    out = []
    prev_num = None      # last numeric token text (None right after a letter)
    WSP = [' ', '  ', '\t', '\n', ' \n ', '\r\n']

    def sep():
        if style == 'plain':
            return ' '
        if style == 'spaces':
            return rnd.choice(WSP)
        if style == 'minimal':
            return ','
        return rnd.choice([' ', ',', ' , ', ', ', ' ,', '\t', '  ', ',\n'])

    def put_num(txt, flag=False, after_flag=False):
        nonlocal prev_num
        if prev_num is None:
            if style in ('spaces', 'mixed', 'numforms') and rnd.random() < 0.5:
                out.append(rnd.choice(WSP))
            elif style == 'plain':
                out.append(' ')
        else:
            need = _needs_sep(prev_num, txt) and not after_flag
            if need or style in ('plain',):
                out.append(sep())
            elif style in ('spaces', 'mixed', 'numforms') and rnd.random() < 0.6:
                out.append(sep())
        out.append(txt)
        prev_num = txt

    for g in groups:
        c, first, a = g['c'], g['first'], g['a']
        u = EFF(c, first)
        letter = None
        if first:
            letter = c
        elif explicit:
            letter = ('L' if c.isupper() else 'l') if c.upper() == 'M' else c
        if letter:
            if style == 'plain' and out:
                out.append(' ')
            elif style in ('spaces', 'mixed') and out and rnd.random() < 0.5:
                out.append(rnd.choice(WSP))
            out.append(letter)
            prev_num = None
        num = (lambda v: spell_int(v, rnd, 'forms')) if style in ('numforms', 'mixed') else (lambda v: str(v))
        if u in ('M', 'L', 'T'):
            pts = [a[0]]
        elif u == 'C':
            pts = a[:3]
        elif u in ('S', 'Q'):
            pts = a[:2]
        else:
            pts = []
        if u in ('H', 'V'):
            put_num(num(a[0]))
        elif u == 'A':
            r, rot, fa, fs, e = a
            put_num(num(r[0]))
            put_num(num(r[1]))
            put_num(num(rot))
            if compact_flags:
                # flags are single characters: "0 01 10,10" style spellings are grammatical
                if _needs_sep(prev_num, str(fa)):
                    out.append(sep() if style != 'minimal' else ' ')
                out.append(str(fa))
                k = rnd.random() if rnd else 0
                if k < 0.3:
                    out.append(sep())
                out.append(str(fs))
                if k > 0.7:
                    out.append(sep())
                prev_num = str(fs)
                put_num(num(e[0]), after_flag=True)
                put_num(num(e[1]))
            else:
                put_num(str(fa))
                put_num(str(fs))
                put_num(num(e[0]))
                put_num(num(e[1]))
        else:
            for p in pts:
                put_num(num(p[0]))
                put_num(num(p[1]))
    return ''.join(out).strip(' ') if style == 'plain' else ''.join(out)


# ------------------------------------------------------------------ reference tokenizer (grammar)
WSPCH = ' \t\n\r\x0c'
NARGS = {'M': 2, 'L': 2, 'T': 2, 'H': 1, 'V': 1, 'C': 6, 'S': 4, 'Q': 4, 'A': 7, 'Z': 0}


def lex_number(s, i):
    """Maximal-munch SVG number at s[i:] (intersection of the SVG 1.1 and SVG 2 grammars: no
    trailing dot).  Returns (text, next_index) or None."""
    n = len(s)
    j = i
    if j < n and s[j] in '+-':
        j += 1
    d0 = j
    while j < n and s[j] in '0123456789':
        j += 1
    nint = j - d0
    if j + 1 < n and s[j] == '.' and s[j + 1] in '0123456789':
        j += 1
        while j < n and s[j] in '0123456789':
            j += 1
    elif nint == 0:
        return None
    if j < n and s[j] in 'eE':
        k = j + 1
        if k < n and s[k] in '+-':
            k += 1
        if k < n and s[k] in '0123456789':
            while k < n and s[k] in '0123456789':
                k += 1
            j = k
    return s[i:j], j


def ref_parse_d(d):
    """d-string -> list of groups {c, first, a} with Fraction arguments, following the SVG grammar;
    None if the string is not grammatical (under the no-trailing-dot number grammar)."""
    i, n = 0, len(d)
    groups = []

    def skip_wsp(i):
        while i < n and d[i] in WSPCH:
            i += 1
        return i

    def skip_comma_wsp(i):
        i = skip_wsp(i)
        if i < n and d[i] == ',':
            i = skip_wsp(i + 1)
        return i
    i = skip_wsp(i)
    seen_m = False
    while i < n:
        c = d[i]
        if c not in 'MmZzLlHhVvCcSsQqTtAa':
            return None
        if not seen_m and c not in 'Mm':
            return None
        seen_m = True
        i = skip_wsp(i + 1)
        u = c.upper()
        if u == 'Z':
            groups.append({'c': c, 'first': True, 'a': []})
            continue
        first = True
        while True:
            vals = []
            for k in range(NARGS[u]):
                if k > 0:
                    i = skip_comma_wsp(i)
                if u == 'A' and k in (3, 4):
                    if i < n and d[i] in '01':
                        vals.append(Fraction(int(d[i])))
                        i += 1
                        continue
                    return None
                r = lex_number(d, i)
                if r is None:
                    return None
                vals.append(Fraction(r[0]))
                i = r[1]
            if u in ('M', 'L', 'T'):
                a = [[vals[0], vals[1]]]
            elif u in ('H', 'V'):
                a = [vals[0]]
            elif u == 'C':
                a = [[vals[0], vals[1]], [vals[2], vals[3]], [vals[4], vals[5]]]
            elif u in ('S', 'Q'):
                a = [[vals[0], vals[1]], [vals[2], vals[3]]]
            else:
                a = [[vals[0], vals[1]], vals[2], int(vals[3]), int(vals[4]), [vals[5], vals[6]]]
            groups.append({'c': c, 'first': first, 'a': a})
            first = False
            j = skip_comma_wsp(i)
            if j < n and d[j] in '+-.0123456789':
                if lex_number(d, j) is None:
                    return None
                i = j
                continue
            if ',' in d[i:j]:
                return None          # a comma must be followed by another argument
            i = j
            break
    return groups


def scale_groups(groups, maxabs=2 ** 29):
    """Fractions -> integers by a common power-of-ten scale (coordinates and radii; rotations are
    mapped to an opaque integer key).  Returns (int_groups, scale) or None."""
    vals = []
    for g in groups:
        u = EFF(g['c'], g['first'])
        a = g['a']
        if u in ('H', 'V'):
            vals.append(a[0])
        elif u == 'A':
            vals += [a[0][0], a[0][1], a[4][0], a[4][1]]
        else:
            for p in a:
                vals += [p[0], p[1]]
    scale = 1
    for v in vals:
        while (v * scale).denominator != 1:
            scale *= 10
            if scale > 10 ** 6:
                return None
    if any(abs(v * scale) > maxabs for v in vals):
        return None
    S = lambda v: int(v * scale)
    out = []
    for g in groups:
        u = EFF(g['c'], g['first'])
        a = g['a']
        if u in ('H', 'V'):
            na = [S(a[0])]
        elif u == 'A':
            na = [[S(a[0][0]), S(a[0][1])], rotkey(a[1]), a[2], a[3], [S(a[4][0]), S(a[4][1])]]
        else:
            na = [[S(p[0]), S(p[1])] for p in a]
        out.append({'c': g['c'], 'first': g['first'], 'a': na})
    return out, scale


def rotkey(rot):
    return int(round(float(rot) * 1000))
