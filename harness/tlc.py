"""Run SANY / TLC under a timeout and parse what the harness needs from the output.

Nothing here knows about svgpathtools.  One TLC invocation = one `TLCResult`:
final statistics, per-action coverage, the JSON cases printed through
`PrintT(ToJson(..))`, plain `PrintT(<<..>>)` tuples, and the error (if any).
"""
import json
import os
import re
import shutil
import subprocess
import tempfile
import time

SPEC_DIR = os.path.join(os.path.dirname(os.path.dirname(os.path.abspath(__file__))), 'spec')
JAR = '/opt/veriftools/tla/tla2tools.jar:/opt/veriftools/tla/CommunityModules-deps.jar'

_STATS_RE = re.compile(r'^(\d+) states generated, (\d+) distinct states found, (\d+) states left on queue')
_DEPTH_RE = re.compile(r'The depth of the complete state graph search is (\d+)')
_COV_RE = re.compile(r'^<(\w+) line (\d+), col \d+ to line \d+, col \d+ of module (\w+)>: (\d+):(\d+)')
_INV_RE = re.compile(r'Error: Invariant (\w+) is violated')
_PROP_RE = re.compile(r'Error: (?:Action|Temporal) propert(?:y|ies) (?:(\w+) )?(?:is|were) violated')
_SIM_RE = re.compile(r'The number of states generated: (\d+)')
_SIMTR_RE = re.compile(r'Simulation using seed .* and aril')


class TLCError(Exception):
    """Machinery failure (parse error, crash, timeout) - never a property violation."""


class TLCResult(object):
    def __init__(self):
        self.generated = 0      # states generated (= transitions explored + initial states)
        self.distinct = 0
        self.queue = 0
        self.depth = 0
        self.coverage = {}      # action name -> [distinct, total]
        self.cases = []         # decoded JSON values printed via PrintT(ToJson(v))
        self.tuples = []        # raw text of other PrintT lines beginning with <<
        self.violated = None    # name of violated invariant / property, if any
        self.error_text = ''
        self.trace_text = ''    # TLC's counterexample, raw
        self.wall = 0.0
        self.cmd = ''
        self.stdout = ''
        self.completed = False

    @property
    def ok(self):
        return self.completed and self.violated is None and not self.error_text


def _tmpdir():
    base = os.environ.get('VERIF_TMP')
    if base:
        os.makedirs(base, exist_ok=True)
    return tempfile.mkdtemp(prefix='tlc_', dir=base)


def run_tlc(module, cfg, workers=16, simulate=None, depth=None, seed=None, env=None,
            timeout=900, coverage=True, keep_stdout=False, extra=None, deadlock=False,
            on_case=None, dfs=False, heap=None):
    """Run TLC on spec/<module>.tla with configuration `cfg` (a path relative to spec/, or
    literal cfg text containing a newline).  `simulate` = number of behaviours for
    -simulate.  `on_case(value)` is called for every JSON case as it is printed (streaming);
    otherwise cases are collected in result.cases."""
    res = TLCResult()
    tmp = _tmpdir()
    try:
        if '\n' in cfg or not cfg.endswith('.cfg'):
            cfg_path = os.path.join(tmp, module + '_gen.cfg')
            with open(cfg_path, 'w') as f:
                f.write(cfg)
        else:
            cfg_path = os.path.join(SPEC_DIR, cfg)
        java = ['java', '-XX:+UseParallelGC', '-XX:ParallelGCThreads=4', '-Xms512m', '-Xmx' + (heap or '8g')]
        if dfs:
            java.append('-Dtlc2.tool.queue.IStateQueue=StateDeque')
        cmd = java + ['-cp', JAR, 'tlc2.TLC', '-workers', str(workers), '-metadir',
                      os.path.join(tmp, 'meta'), '-noGenerateSpecTE', '-config', cfg_path]
        if coverage and not simulate:
            cmd += ['-coverage', '1']
        if not deadlock:
            cmd += ['-deadlock']
        if simulate:
            cmd += ['-simulate', 'num=%d' % simulate]
            if depth:
                cmd += ['-depth', str(depth)]
        if seed is not None:
            cmd += ['-seed', str(seed)]
        if extra:
            cmd += list(extra)
        cmd.append(os.path.join(SPEC_DIR, module + '.tla'))
        res.cmd = ' '.join(cmd).replace(tmp, '$TMP')
        e = dict(os.environ)
        e.pop('JAVA_TOOL_OPTIONS', None)
        if env:
            e.update({k: str(v) for k, v in env.items()})
        t0 = time.time()
        proc = subprocess.Popen(cmd, stdout=subprocess.PIPE, stderr=subprocess.STDOUT, env=e,
                                cwd=SPEC_DIR, text=True, errors='replace')
        out_lines = []
        in_error = False
        err_lines = []
        deadline = t0 + timeout
        try:
            for line in proc.stdout:
                if time.time() > deadline:
                    proc.kill()
                    raise TLCError('TLC timeout after %ds: %s' % (timeout, res.cmd))
                line = line.rstrip('\n')
                if line.startswith('"{') or line.startswith('"['):
                    try:
                        v = json.loads(json.loads(line))
                    except ValueError:
                        out_lines.append(line)
                        continue
                    if on_case is not None:
                        on_case(v)
                    else:
                        res.cases.append(v)
                    continue
                if line.startswith('<<'):
                    res.tuples.append(line)
                    continue
                if keep_stdout or len(out_lines) < 4000:
                    out_lines.append(line)
                m = _STATS_RE.match(line)
                if m:
                    res.generated, res.distinct, res.queue = int(m.group(1)), int(m.group(2)), int(m.group(3))
                    continue
                m = _DEPTH_RE.search(line)
                if m:
                    res.depth = int(m.group(1))
                m = _COV_RE.match(line)
                if m:
                    name = m.group(1)
                    c = res.coverage.setdefault(name, [0, 0])
                    c[0] += int(m.group(4))
                    c[1] += int(m.group(5))
                    continue
                m = _INV_RE.search(line)
                if m:
                    res.violated = m.group(1)
                    in_error = True
                m = _PROP_RE.search(line)
                if m:
                    res.violated = m.group(1) or 'property'
                    in_error = True
                m = _SIM_RE.search(line)
                if m:
                    res.generated = int(m.group(1))
                    res.distinct = max(res.distinct, int(m.group(1)))
                if line.startswith('Error:') and res.violated is None:
                    err_lines.append(line)
                    in_error = True
                elif in_error and len(err_lines) < 400:
                    err_lines.append(line)
                if 'Model checking completed' in line or 'Finished in' in line:
                    res.completed = True
        finally:
            proc.stdout.close()
            rc = proc.wait()
        res.wall = time.time() - t0
        res.stdout = '\n'.join(out_lines)
        if res.violated is not None:
            res.trace_text = '\n'.join(err_lines)
        elif err_lines:
            res.error_text = '\n'.join(err_lines[:60])
        if simulate and rc == 0:
            res.completed = True
        if rc not in (0, 12, 13) and not res.error_text and res.violated is None:
            res.error_text = 'TLC exit status %d\n%s' % (rc, '\n'.join(out_lines[-30:]))
        return res
    finally:
        shutil.rmtree(tmp, ignore_errors=True)


def sany(module):
    cmd = ['java', '-cp', JAR, 'tla2sany.SANY', os.path.join(SPEC_DIR, module + '.tla')]
    p = subprocess.run(cmd, stdout=subprocess.PIPE, stderr=subprocess.STDOUT, text=True, cwd=SPEC_DIR, timeout=120)
    ok = p.returncode == 0 and 'Semantic errors' not in p.stdout and 'Parse Error' not in p.stdout \
        and '*** Errors' not in p.stdout and 'Fatal' not in p.stdout
    return ok, p.stdout


def parse_tla_tuple(text):
    """Parse a printed TLA+ tuple of integers/strings, e.g. <<"ACCEPT", 12>> -> ['ACCEPT', 12]."""
    text = text.strip()
    text = text.replace('<<', '[').replace('>>', ']').replace('TRUE', 'true').replace('FALSE', 'false')
    return json.loads(text)
