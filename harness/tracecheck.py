"""Batch trace validation: many recorded traces, one TLC run (A.4 idiom of DESIGN.md).

`validate(ck, module, cfg, cfg_at, traces)` returns (accepted_ids, reach) where reach[tid] is the
number of events matched before the first unmatched one (only for rejected traces).
Every invariant listed in `cfg` is evaluated by TLC on every state of every trace."""
import json
import os
import shutil
import tempfile

from . import tlc as tlcmod


def validate(ck, module, cfg, cfg_at, traces, env=None, chunk=4000, timeout=900):
    accepted = set()
    reach = {}
    tmp = tempfile.mkdtemp(prefix='trace_', dir=os.environ.get('VERIF_TMP'))
    try:
        for base in range(0, len(traces), chunk):
            part = traces[base:base + chunk]
            path = os.path.join(tmp, 't.json')
            with open(path, 'w') as f:
                json.dump(part, f)
            e = {'TRACE_FILE': path}
            if env:
                e.update(env)
            r = ck.tlc(module, cfg, workers=1, env=e, coverage=False, timeout=timeout)
            acc = set()
            for t in r.tuples:
                v = tlcmod.parse_tla_tuple(t)
                if v and v[0] == 'ACCEPT':
                    acc.add(v[1])
            rej = [i for i in range(1, len(part) + 1) if i not in acc]
            accepted.update(base + i - 1 for i in acc)
            if rej and cfg_at:
                sub = [part[i - 1] for i in rej]
                with open(path, 'w') as f:
                    json.dump(sub, f)
                r2 = ck.tlc(module, cfg_at, workers=1, env=e, coverage=False, timeout=timeout)
                best = {}
                for t in r2.tuples:
                    v = tlcmod.parse_tla_tuple(t)
                    if v and v[0] == 'AT':
                        best[v[1]] = max(best.get(v[1], 0), v[2])
                for j, i in enumerate(rej, 1):
                    reach[base + i - 1] = best.get(j, 1) - 1
            elif rej:
                for i in rej:
                    reach[base + i - 1] = -1
        return accepted, reach
    finally:
        shutil.rmtree(tmp, ignore_errors=True)
