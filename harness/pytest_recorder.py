"""pytest plugin (enabled only when SVGPATHTOOLS_VERIF=1): records every mutation made through Path's sequence interface while the
repository's own test-suite runs - including the mutations the library performs internally (cropped, smoothing, arc approximation).
One trace per Path object; segments are projected to opaque integer ids (equal segments -> equal id); after every mutation the recorder
also logs whether length() / start / end answer as a freshly built Path of the current segments would.  The traces are validated by
spec/PathOpaque_Trace.tla (C16).  Nothing in /repo is changed: the wrappers are installed from outside at import time."""
import json
import os

ENABLED = os.environ.get('SVGPATHTOOLS_VERIF') == '1'
TRACES = {}
_IDS = {}
_busy = [False]
_counter = [0]


def _sid(seg):
    return _IDS.setdefault(repr(seg), len(_IDS) + 1)


def _snap(p):
    return [_sid(s) for s in list(p)]


def _install():
    import svgpathtools.path as P
    Path = P.Path

    def tid(p, before):
        t = getattr(p, '_verif_tid', None)
        if t is None:
            _counter[0] += 1
            t = _counter[0]
            try:
                p._verif_tid = t
            except Exception:      # noqa
                return None
            TRACES[t] = [{'op': 'Init', 'after': before, 'i': 0, 'j': 0, 's': 0, 'r': [], 'okLen': True, 'okStart': True, 'okEnd': True}]
        return t

    def fresh_flags(p):
        if len(TRACES) > 4000:
            return True, True, True
        try:
            f = Path(*list(p))
            ok_len = True
            if len(list(p)) and all(isinstance(s, P.Line) for s in list(p)):
                ok_len = abs(p.length() - f.length()) <= 1e-9 * max(1.0, abs(f.length()))
            return bool(ok_len), p.start == f.start, p.end == f.end
        except Exception:      # noqa
            return True, True, True

    def log(p, before, ev):
        if _busy[0]:
            return
        _busy[0] = True
        try:
            t = tid(p, before)
            if t is None or len(TRACES[t]) > 400:
                return
            ev['after'] = _snap(p)
            ev['okLen'], ev['okStart'], ev['okEnd'] = fresh_flags(p)
            for k, d in (('i', 0), ('j', 0), ('s', 0), ('r', [])):
                ev.setdefault(k, d)
            TRACES[t].append(ev)
        finally:
            _busy[0] = False

    o_set, o_del, o_ins = Path.__setitem__, Path.__delitem__, Path.insert

    def norm(idx, n):
        return idx + n if idx < 0 else idx

    def w_set(self, index, value):
        before = _snap(self)
        n = len(before)
        if isinstance(index, slice):
            lo, hi, st = index.indices(n)
            ev = {'op': 'SetSlice', 'i': lo + 1, 'j': max(lo, hi) + 1, 'r': [_sid(v) for v in value]} if st == 1 else None
        else:
            ev = {'op': 'SetItem', 'i': norm(index, n) + 1, 's': _sid(value)}
        o_set(self, index, value)
        if ev is not None:
            log(self, before, ev)

    def w_del(self, index):
        before = _snap(self)
        n = len(before)
        if isinstance(index, slice):
            lo, hi, st = index.indices(n)
            ev = {'op': 'DelSlice', 'i': lo + 1, 'j': max(lo, hi) + 1} if st == 1 else None
        else:
            ev = {'op': 'DelItem', 'i': norm(index, n) + 1}
        o_del(self, index)
        if ev is not None:
            log(self, before, ev)

    def w_ins(self, index, value):
        before = _snap(self)
        n = len(before)
        i = min(max(norm(index, n), 0), n)
        o_ins(self, index, value)
        log(self, before, {'op': 'Insert', 'i': i + 1, 's': _sid(value)})
    Path.__setitem__, Path.__delitem__, Path.insert = w_set, w_del, w_ins
    o_start, o_end = Path.start, Path.end

    def w_start(self, pt):
        before = _snap(self)
        o_start.fset(self, pt)
        if before:
            log(self, before, {'op': 'SetStart', 's': _sid(self[0])})

    def w_end(self, pt):
        before = _snap(self)
        o_end.fset(self, pt)
        if before:
            log(self, before, {'op': 'SetEnd', 's': _sid(self[-1])})
    Path.start = property(o_start.fget, w_start)
    Path.end = property(o_end.fget, w_end)


if ENABLED:
    _install()


def pytest_sessionfinish(session, exitstatus):
    out = os.environ.get('VERIF_TRACE_OUT')
    if ENABLED and out:
        traces = [t for t in TRACES.values() if len(t) > 1]
        with open(out, 'w') as f:
            json.dump(traces, f)
