"""C16 - observations after any mutation history equal those of a freshly built object.

P  PathSeq.tla: CacheCoherent / AnswerFresh / MutInvalidates over all histories to the depth bound;
   SegCache.tla: the per-segment length cache.
G  every behaviour of the small configuration (history variable) and simulated long ones are
   replayed on real Paths - a "warm" object (every query after every operation, so caches are
   always populated before the next mutation) and a "lazy" object (only the queries of the
   history, all queries at the end); after each step the real segment list is compared with the
   model's and every query with a freshly constructed Path.  Both with scipy and without.
V  random long histories on real Paths, recorded as events and validated by PathSeq_Trace.tla.
"""
import json
import random

from .. import pathmodel as pm
from .. import tracecheck

sp = pm.sp
import svgpathtools.path as sppath      # noqa  (after import_repo)

TS = [0, 0.25, 0.5, 0.75, 1, 1 / 3.0]


def mk(s, cubic=False):
    a, b = float(s[0]), float(s[1])
    if cubic and s == [1, 3] or cubic and s == [2, 3]:
        # a genuinely curved cubic between the two lattice points: its length depends on the requested error / min_depth
        return sp.CubicBezier(complex(a), complex(a + (b - a) / 4.0, (b - a) * 1.5), complex(a + (b - a) / 2.0, -(b - a)), complex(b))
    return sp.Line(complex(a), complex(b))


def proj(path):
    return [[int(round(s.start.real)), int(round(s.end.real))] if s.start.imag == 0 and s.end.imag == 0
            and float(s.start.real).is_integer() and float(s.end.real).is_integer() else ['?', repr(s)] for s in path]


def q(f):
    try:
        v = f()
        if isinstance(v, tuple):
            v = tuple(v)
        return ('ok', v)
    except Exception as e:      # noqa
        return ('exc', type(e).__name__)


PROBE = sp.Line(0.5 - 3j, 2.5 + 3j)


def snapshot(p, order=0, extras=False):
    """order: which query comes first (a query may refresh what a later one reads): 0 length, 1 point, 2 T2t, 3 t2T"""
    out = {}
    out['len'] = q(lambda: len(p))
    if order == 1:
        out['point(0.3)'] = q(lambda: p.point(0.3))
    elif order == 2:
        out['T2t(0.3)'] = q(lambda: p.T2t(0.3))
    elif order == 3:
        out['t2T(last,.5)'] = q(lambda: p.t2T(len(p) - 1, 0.5))
    out['length'] = q(p.length)
    out['start'] = q(lambda: p.start)
    out['end'] = q(lambda: p.end)
    for T in TS:
        out['point(%r)' % T] = q(lambda: p.point(T))
        out['T2t(%r)' % T] = q(lambda: p.T2t(T))
    out['length(.25,.75)'] = q(lambda: p.length(0.25, 0.75))
    out['bbox'] = q(p.bbox)
    out['d'] = q(p.d)
    out['d(z)'] = q(lambda: p.d(use_closed_attrib=True))
    out['d(st,z,rel)'] = q(lambda: p.d(useSandT=True, use_closed_attrib=True, rel=True))
    out['iscontinuous'] = q(p.iscontinuous)
    out['t2T(0,.5)'] = q(lambda: p.t2T(0, 0.5))
    for i in range(1, min(len(p), 5)):
        out['t2T(%d,.25)' % i] = q(lambda: p.t2T(i, 0.25))
    if extras:
        # the remaining public queries of Path (an exception - e.g. on an empty or discontinuous path - must be the same exception on both sides)
        out['ilength'] = q(lambda: p.ilength(0.4 * p.length()))
        out['unit_tangent'] = q(lambda: p.unit_tangent(0.3))
        out['normal'] = q(lambda: p.normal(0.3))
        out['derivative'] = q(lambda: p.derivative(0.3))
        out['radialrange'] = q(lambda: tuple(tuple(x) for x in p.radialrange(1 + 2j)))
        out['intersect'] = q(lambda: tuple((round(float(a_[0]), 9), round(float(b_[0]), 9)) for a_, b_ in p.intersect(PROBE)))
        out['cropped'] = q(lambda: p.cropped(0.2, 0.7).length())
        out['reversed'] = q(lambda: p.reversed().point(0.3))
        out['continuous_subpaths'] = q(lambda: tuple(len(x) for x in p.continuous_subpaths()))
        out['isclosed'] = q(p.isclosed)
        out['area'] = q(p.area)
        out['repr'] = q(lambda: repr(p))
    return out


def close(a, b, tol=1e-12):
    if a[0] != b[0]:
        return False
    if a[0] == 'exc':
        return a[1] == b[1]
    x, y = a[1], b[1]
    if isinstance(x, (tuple, list)) and isinstance(y, (tuple, list)):
        return len(x) == len(y) and all(close(('ok', u), ('ok', v), tol) for u, v in zip(x, y))
    if isinstance(x, (int, float, complex)) and isinstance(y, (int, float, complex)) and not isinstance(x, bool):
        return x == y or abs(x - y) <= tol * max(1.0, abs(x), abs(y))       # (equal infinities are equal)
    return x == y


def compare_fresh(ck, p, hist_prefix, mode, cubic, extra_key=''):
    """every query on the mutated object vs a newly constructed Path of the current segments"""
    fresh = sp.Path(*[s for s in p])
    ex_ = len(hist_prefix) % 5 == 0
    a, b = snapshot(p, 0, ex_), snapshot(fresh, 0, ex_)
    bad = [k for k in a if not close(a[k], b[k])]
    try:
        eq = (p == fresh) and not (p != fresh)
        hq = (hash(p) == hash(fresh))
        fresh.length()
        eq = eq and (p == fresh) and (fresh == p) and not (p != fresh)      # equality must not depend on what either side has cached
        # ... nor on the tolerance of the first length request since the last mutation (that request decides what is cached)
        loose = sp.Path(*[type(s)(*s.bpoints()) for s in p])       # new segment objects: the segments of p carry length caches of their own
        if len(loose):
            loose.length(error=1e-2, min_depth=1)
        eq = eq and (loose == fresh) and (fresh == loose) and (p == loose) and not (loose != fresh) and hash(loose) == hash(fresh)
        if cubic and not bad:
            order = 1 + len(hist_prefix) % 3
            b = snapshot(sp.Path(*[type(s)(*s.bpoints()) for s in p]), order)       # (another path is measured in between: tolerance records are per object)
            c = snapshot(loose, order)
            stale = [k for k in c if not close(c[k], b[k])]
            if stale:
                ck.disagree(key='Path.length/first-request-tolerance-sticks' + extra_key, site='svgpathtools/path.py:Path._calc_lengths',
                            what='a Path whose length was first requested with error=1e-2, min_depth=1 answers %s differently from a freshly built Path of the same '
                                 'segments (_calc_lengths returns early whatever accuracy the cached lengths were computed with)' % stale[:6],
                            case={'hist': hist_prefix, 'mode': mode, 'cubic': cubic, 'loose_first': True},
                            expected={k: repr(b[k]) for k in stale}, observed={k: repr(c[k]) for k in stale}, driver='history')
                return False
    except Exception as e:      # noqa
        eq, hq = 'exc ' + type(e).__name__, True
    if eq is not True:
        bad.append('==')
    elif not hq:
        bad.append('hash')
    if bad:
        last = hist_prefix[-1]['op']
        setter = any(h['op'] in ('SetStart', 'SetEnd') for h in hist_prefix)
        if setter and set(bad) <= {'length', 'length(.25,.75)', 'point(0.25)', 'point(0.5)', 'point(0.75)', 'T2t(0.25)', 'T2t(0.5)',
                                   'T2t(0.75)', 'point(0.3333333333333333)', 'T2t(0.3333333333333333)', 't2T(0,.5)', 't2T(1,.25)', 't2T(2,.25)', 't2T(3,.25)', 't2T(4,.25)'}:
            key = 'Path.start-end-setters/stale-length-cache'
        else:
            key = 'Path/%s/differs-from-fresh:%s' % (last, ','.join(sorted(bad)[:3]))
        ck.disagree(key=key + extra_key, site='svgpathtools/path.py:Path (caches _length/_lengths/_start/_end)',
                    what='after %s the queries %s differ from a freshly built Path' % ([h['op'] for h in hist_prefix], bad[:6]),
                    case={'hist': hist_prefix, 'mode': mode, 'cubic': cubic},
                    expected={k: repr(b[k]) for k in bad if k in b}, observed={k: repr(a[k]) for k in bad if k in a}, driver='history')
        return False
    return True


def apply_op(p, h, cubic, rnd):
    op = h['op']
    M = lambda s: mk(s, cubic)
    n = len(p)

    def ix(i, insert=False):
        # Python index spelling of the model's 1-based position: non-negative or the equivalent negative index
        idx = i - 1
        if rnd.random() < 0.4 and idx < n:
            return idx - n if not (insert and idx == 0 and rnd.random() < 0.5) else -n - rnd.choice([0, 3])
        return idx
    if op == 'SetItem':
        p[ix(h['i'])] = M(h['s'])
    elif op == 'SetSlice':
        p[h['i'] - 1:h['j'] - 1] = [M(x) for x in h['r']]
    elif op == 'Insert':
        p.insert(ix(h['i'], True), M(h['s']))
    elif op == 'Append':
        p.append(M(h['s']))
    elif op == 'Extend':
        if rnd.random() < 0.5:
            p.extend([M(x) for x in h['r']])
        else:
            p += [M(x) for x in h['r']]
    elif op == 'DelItem':
        del p[ix(h['i'])]
    elif op == 'DelSlice':
        del p[h['i'] - 1:h['j'] - 1]
    elif op == 'Pop':
        if h['i'] == 1 and len(p) > 1:
            p.pop(rnd.choice([0, -n]))
        else:
            p.pop()
    elif op == 'Remove':
        # the first segment whose projection is the model's segment (after start / end assignments a curved member of the pool is no longer the pool's object)
        tgt = next((sg for sg in p if proj(sp.Path(sg))[0] == h['s']), None)
        p.remove(tgt if tgt is not None else M(h['s']))
    elif op == 'Reverse':
        p.reverse()
    elif op == 'SetStart':
        p.start = complex(h['p'])
    elif op == 'SetEnd':
        p.end = complex(h['p'])
    elif op == 'QLength':
        if rnd.random() < 0.5:
            p.length()
        else:
            p.length(error=rnd.choice([1e-3, 1e-1]), min_depth=rnd.choice([1, 5]))     # the first request after a mutation fixes what Path caches
    elif op == 'QPoint':
        q(lambda: p.point(0.5))
        q(lambda: p.T2t(0.3))
    elif op == 'QStartEnd':
        p.start, p.end
    else:
        raise ValueError(op)


def replay_history(ck, hist, rnd, seen_prefix, cubic=False):
    """hist[0] = Init.  Returns False on the first disagreement."""
    init = hist[0]['after']
    warm = sp.Path(*[mk(s, cubic) for s in init])
    lazy = sp.Path(*[mk(s, cubic) for s in init])
    key = json.dumps(hist[0])
    if key not in seen_prefix:
        seen_prefix.add(key)
        compare_fresh(ck, warm, hist[:1], 'warm', cubic)
    for n, h in enumerate(hist[1:], 1):
        for obj, mode in ((warm, 'warm'), (lazy, 'lazy')):
            try:
                apply_op(obj, h, cubic, rnd)
            except Exception as e:      # noqa
                k = 'Path/%s/raises-%s' % (h['op'], type(e).__name__)
                if h['op'] == 'SetSlice' and h['after'] == [] and isinstance(e, IndexError):
                    k = 'Path.__setitem__/slice-assignment-emptying-path-raises'
                ck.disagree(key=k, site='svgpathtools/path.py:Path.' + h['op'],
                            what='operation %s enabled in PathSeq raised %r on the real Path' % (h, e),
                            case={'hist': hist[:n + 1], 'mode': mode, 'cubic': cubic}, expected=h['after'], observed=repr(e), driver='history')
                return False
        got = proj(warm)
        if not cubic and (got != h['after'] or proj(lazy) != h['after']):
            ck.disagree(key='Path/%s/wrong-segments' % h['op'], site='svgpathtools/path.py:Path.' + h['op'],
                        what='segment list after %s differs from the model' % h, case={'hist': hist[:n + 1], 'mode': 'warm', 'cubic': cubic},
                        expected=h['after'], observed=got, driver='history')
            return False
        key += json.dumps(h)
        # the warm object is queried after every operation so that every cache is populated before the next mutation
        for warmq in (warm.length, lambda: warm.start, lambda: hash(warm), lambda: warm.point(0.5), lambda: warm == lazy):
            try:
                warmq()
            except Exception:      # noqa
                pass
        if key not in seen_prefix:
            seen_prefix.add(key)
            if not compare_fresh(ck, warm, hist[:n + 1], 'warm', cubic):
                return False
            if not cubic and h['after']:
                # the model's own answers (exact integers)
                total = sum(abs(s[1] - s[0]) for s in h['after'])
                st, en = h['after'][0][0], h['after'][-1][1]
                got = (warm.length(), warm.start, warm.end)
                if not (abs(got[0] - total) <= 1e-9) or got[1] != st or got[2] != en:
                    ck.disagree(key='Path/%s/model-answer' % h['op'], site='svgpathtools/path.py:Path',
                                what='length/start/end %r differ from the model %r' % (got, (total, st, en)),
                                case={'hist': hist[:n + 1], 'mode': 'warm', 'cubic': cubic}, expected=[total, st, en], observed=repr(got), driver='history')
                    return False
    return compare_fresh(ck, lazy, hist, 'lazy', cubic)


# ------------------------------------------------------------------ segment-level caches
def segment_level(ck, rnd, n):
    """Control points reassigned / length first requested with other error,min_depth / reversed():
    the answer must be at least as accurate as a fresh segment's answer to the same request.
    Histories come from SegCache.tla."""
    r = ck.tlc('SegCache', 'SegCache_MC.cfg', need_actions=['SetCtrl', 'QLen', 'Rev'])
    dump = 'SPECIFICATION Spec\nCONSTANTS MaxOps = %d\n Variant = "correct"\nINVARIANT Dump\n' % (4 if ck.tier == 'quick' else 5)
    cases = ck.tlc('SegCache', dump, workers=1, coverage=False).cases
    rnd.shuffle(cases)
    # requested error / depth classes (1 = loose / shallow, 2 = tight / deep), chosen so that in the recursive
    # fallback each of the four combinations gives a visibly different accuracy (measured: -0.51, -0.035, -3e-5)
    ERR = {1: 0.5, 2: 1e-2}
    DEP = {1: 1, 2: 10}
    memo = {}

    def fresh_len(cls, bpts, scipy_on, **kw):
        key = (cls.__name__, bpts, scipy_on, tuple(sorted(kw.items())))
        if key not in memo:
            memo[key] = cls(*bpts).length(**kw)
        return memo[key]
    BPS = [{1: (0j, 40 + 100j, 80 - 60j, 100 + 0j), 2: (0j, 10 + 60j, 130 + 40j, 100 + 20j)},
           {1: (0j, 40 + 100j, -1 + 2j, -1 + 2j), 2: (0j, 40 + 100j, -2 + 2j, -2 + 2j)}]      # second set: hash(-1) == hash(-2)
    ARCS = [(0j, 40 + 15j, 30, False, True, 50 + 20j), (10 + 0j, 8 + 30j, -70, True, False, 5 + 5j)]
    done = 0
    for scipy_on in (False, True):
        old = getattr(sppath, '_quad_available', None)     # (the module's scipy switch; None: no such switch any more - one configuration only)
        sppath._quad_available = scipy_on and old
        try:
            for hi_, hist in enumerate(cases[:n]):
                BP = BPS[hi_ % 2]
                ck.case(fp=('seg', scipy_on, json.dumps(hist)), nontrivial=sum(1 for h in hist if h['op'] == 'QLen') >= 2)
                for cls in (sp.CubicBezier, sp.QuadraticBezier, sp.Arc):
                    if cls is sp.Arc:
                        # the defining fields of an Arc are not reassigned (derived parameters are computed by the constructor): request / reverse only
                        if any(h['op'] == 'SetCtrl' for h in hist):
                            continue
                        objs = {1: sp.Arc(*ARCS[hi_ % 2])}
                    else:
                        objs = {1: cls(*BP[1][:4 if cls is sp.CubicBezier else 3])}
                    for h in hist:
                        o = objs.get(h.get('o', 1))
                        if o is None:
                            break
                        if h['op'] == 'SetCtrl':
                            pts = BP[h['bp']]
                            if cls is sp.CubicBezier:
                                o.start, o.control1, o.control2, o.end = pts
                            else:
                                o.start, o.control, o.end = pts[:3]
                        elif h['op'] == 'Rev':
                            objs[2] = o.reversed()
                        elif h['op'] == 'QLen':
                            kw = dict(error=ERR[h['e']], min_depth=DEP[h['d']])
                            got = o.length(**kw)
                            flds = o.bpoints() if cls is not sp.Arc else (o.start, o.radius, o.rotation, o.large_arc, o.sweep, o.end)
                            ref = fresh_len(cls, flds, scipy_on, error=1e-12, min_depth=11)
                            want = fresh_len(cls, flds, scipy_on, **kw)
                            if not (abs(got - ref) <= abs(want - ref) + 1e-9 * abs(ref)):
                                key = '%s.length/cache-reused-for-tighter-error' % cls.__name__ if h['e'] == 2 and h['d'] == 1 else \
                                    '%s.length/stale-or-insufficient-cache' % cls.__name__
                                ck.disagree(key=key, site='svgpathtools/path.py:%s.length/_length_info' % cls.__name__,
                                            what='length(%s) after %s = %r; a fresh segment answers %r (reference %r)' % (
                                                kw, [x['op'] for x in hist], got, want, ref),
                                            case={'hist': hist, 'cls': cls.__name__, 'scipy': scipy_on}, expected=want, observed=got,
                                            driver='segment-cache')
                                break
                    done += 1
        finally:
            sppath._quad_available = old
    ck.count('segment_cache_histories', done)
    if cases:
        ck.sample('segment-cache', cases[0])


def segment_query_sweep(ck):
    """every public query of a Line / QuadraticBezier / CubicBezier: asked on an object that was built with other control points, asked everything once,
    and then had its control points reassigned (also to values that hash like the old ones), it answers what a newly built segment answers - and so do the
    objects derived from it (reversed, split, cropped, translated, scaled)"""
    probe = sp.Line(-20 - 13j, 25 + 17j)

    def queries(sg):
        L = sg.length()
        out = {
            'point': sg.point(0.3), 'derivative1': sg.derivative(0.3), 'derivative2': sg.derivative(0.3, 2) if not isinstance(sg, sp.Line) else 0,
            'unit_tangent': sg.unit_tangent(0.3), 'normal': sg.normal(0.3), 'curvature': sg.curvature(0.3), 'length': L, 'length(.2,.7)': sg.length(0.2, 0.7),
            'ilength': sg.ilength(0.4 * L), 'bbox': tuple(sg.bbox()), 'poly': tuple(complex(c_) for c_ in sg.poly().coeffs), 'bpoints': tuple(sg.bpoints()),
            'radialrange': tuple(tuple(x) for x in sg.radialrange(1 + 2j)), 'intersect': tuple(tuple(x) for x in sg.intersect(probe)),
            'split': tuple(z for part in sg.split(0.4) for z in part.bpoints()), 'cropped': sg.cropped(0.2, 0.6).point(0.5), 'reversed': sg.reversed().point(0.3),
            'reversed.length': sg.reversed().length(), 'translated': sg.translated(3 - 1j).point(0.3), 'scaled': sg.scaled(2).length(), 'rotated': sg.rotated(30).bbox(),
            'repr': repr(sg), 'start/end': (sg.start, sg.end)}
        return out

    def near(a, b):
        if isinstance(a, (tuple, list)) and isinstance(b, (tuple, list)):
            return len(a) == len(b) and all(near(x, y) for x, y in zip(a, b))
        if isinstance(a, str) or isinstance(b, str):
            return a == b
        try:
            return abs(a - b) <= 1e-9 * max(1.0, abs(a), abs(b))
        except TypeError:
            return a == b
    sets = {2: [((0j, -1 + 0j), (0j, -2 + 0j)), ((2 - 1j, 7 + 3j), (2 - 2j, 7 + 3j)), ((1j, 5 + 0j), (complex(1000003, 0), 5 + 0j)), ((0j, 3 + 4j), (1 + 1j, -4 + 3j))],
            3: [((0j, 3 - 1j, 6 + 2j), (0j, 3 - 2j, 6 + 2j)), ((-1 + 0j, 2 + 5j, 8 + 1j), (-2 + 0j, 2 + 5j, 8 + 1j)), ((0j, 2 + 3j, 5 + 0j), (1 - 1j, 6 + 6j, 9 - 4j))],
            4: [((0j, 1 - 1j, 4 + 3j, 6 + 0j), (0j, 1 - 2j, 4 + 3j, 6 + 0j)), ((0j, 2 + 5j, 5 + 5j, 7 - 1j), (0j, 2 + 5j, 5 + 5j, 7 - 2j)),
                ((0j, 1 + 3j, 4 + 3j, 5 + 0j), (2 + 2j, -1 + 6j, 8 + 7j, 9 - 3j))]}
    names = {2: ('start', 'end'), 3: ('start', 'control', 'end'), 4: ('start', 'control1', 'control2', 'end')}
    cls = {2: sp.Line, 3: sp.QuadraticBezier, 4: sp.CubicBezier}
    for n in (2, 3, 4):
        for p1, p2 in sets[n]:
            for how in ('attributes', 'path-setters'):
                ck.case(fp=('query-sweep', n, str(p1), str(p2), how), nontrivial=True)
                try:
                    obj = cls[n](*p1)
                    queries(obj)
                    if how == 'attributes':
                        for nm_, v_ in zip(names[n], p2):
                            setattr(obj, nm_, v_)
                    else:
                        # only the end points can be moved through a Path; the inner control points are assigned directly
                        host = sp.Path(obj)
                        host.length(), host.bbox()
                        for nm_, v_ in zip(names[n][1:-1], p2[1:-1]):
                            setattr(obj, nm_, v_)
                        host.start, host.end = p2[0], p2[-1]
                    got, want = queries(obj), queries(cls[n](*p2))
                except Exception as e:      # noqa
                    ck.disagree(key='%s/query-sweep/raises-%s' % (cls[n].__name__, type(e).__name__), site='svgpathtools/path.py:%s' % cls[n].__name__,
                                what='%s%r queried, control points set to %r via %s: %r' % (cls[n].__name__, p1, p2, how, e), case={'p1': [str(z) for z in p1], 'p2': [str(z) for z in p2], 'how': how},
                                expected='answers', observed=repr(e), driver='query-sweep')
                    continue
                diff = [k_ for k_ in want if not near(got[k_], want[k_])]
                if diff:
                    ck.disagree(key='%s.%s/after-reassigning-control-points' % (cls[n].__name__, diff[0].split('(')[0]), site='svgpathtools/path.py:%s' % cls[n].__name__,
                                what='%s%r queried, control points set to %r via %s: %s answer %r, a newly built segment answers %r' % (
                                    cls[n].__name__, p1, p2, how, diff, [got[k_] for k_ in diff][:3], [want[k_] for k_ in diff][:3]),
                                case={'p1': [str(z) for z in p1], 'p2': [str(z) for z in p2], 'how': how}, expected={k_: repr(want[k_]) for k_ in diff}, observed={k_: repr(got[k_]) for k_ in diff},
                                driver='query-sweep')


def directed_histories(ck):
    """histories that random walks hit too rarely: (1) accurate query, a mutation that brings in an unmeasured curve, a loose length request, default queries;
    (2) paths that come from a d-string with Z and are then opened by a mutation, serialised under every option"""
    import itertools
    old = getattr(sppath, '_quad_available', None)     # (the module's scipy switch; None: no such switch any more - one configuration only)
    for scipy_on in (True, False):
        sppath._quad_available = scipy_on and old
        try:
            curved = lambda a, b: sp.CubicBezier(complex(a), complex(a + (b - a) / 4.0, (b - a) * 1.5), complex(a + (b - a) / 2.0, -(b - a)), complex(b))     # noqa
            for mut in ('append', 'insert', 'setitem', 'slice', 'extend', 'end='):
                p = sp.Path(sp.Line(0j, 1 + 0j), curved(1, 3))
                p.length(), p.point(0.4), p.T2t(0.6)
                new = curved(3, 4)
                if mut == 'append':
                    p.append(new)
                elif mut == 'insert':
                    p.insert(len(p), new)
                elif mut == 'setitem':
                    p[1] = curved(1, 4)
                elif mut == 'slice':
                    p[1:] = [curved(1, 2), curved(2, 5)]
                elif mut == 'extend':
                    p.extend([new])
                else:
                    p.end = 5 + 2j
                p.length(error=0.5, min_depth=1)
                ck.case(fp=('directed', 'accurate-mutate-loose', mut, scipy_on), nontrivial=True)
                fresh = sp.Path(*[type(s_)(*s_.bpoints()) for s_ in p])
                b_, a_ = snapshot(fresh, 1), snapshot(p, 1)
                bad_ = [k_ for k_ in a_ if not close(a_[k_], b_[k_])]
                if bad_:
                    ck.disagree(key='Path.length/loose-request-after-a-mutation-sticks', site='svgpathtools/path.py:Path._calc_lengths',
                                what='[scipy %s] accurate queries; %s; length(error=0.5, min_depth=1); then %s differ from a freshly built Path' % (scipy_on, mut, bad_[:5]),
                                case={'mut': mut, 'scipy': scipy_on}, expected={k_: repr(b_[k_]) for k_ in bad_[:5]}, observed={k_: repr(a_[k_]) for k_ in bad_[:5]}, driver='directed')
        finally:
            sppath._quad_available = old
    # (1b) every in-place operation of the Path API that is not a list method (approximate_arcs_with_cubics / _quads), and paths in which one segment *object*
    #      occurs twice (a setter that moves "the first start" then moves an interior joint too): after any query, the path answers like a freshly built one
    def arc_path():
        return sp.Path(sp.Line(0j, 4 + 0j), sp.Arc(4 + 0j, 3 + 2j, 20, False, True, 8 + 3j), sp.CubicBezier(8 + 3j, 9 + 6j, 5 + 7j, 4 + 5j), sp.Arc(4 + 5j, 2 + 2j, 0, True, False, 0j))
    for opname in ('approximate_arcs_with_cubics', 'approximate_arcs_with_quads'):
        for order in (0, 1, 2, 3):
            for first in ('all queries', 'length only', 'nothing'):
                p = arc_path()
                if not hasattr(p, opname):
                    continue
                if first == 'all queries':
                    snapshot(p, order, False)
                elif first == 'length only':
                    p.length()
                try:
                    getattr(p, opname)()
                except Exception as e:      # noqa
                    ck.disagree(key='Path.%s/raises' % opname, site='svgpathtools/path.py:Path.' + opname, what='%s() raised %r' % (opname, e), case={'op': opname}, expected='None', observed=repr(e), driver='directed')
                    continue
                ck.case(fp=('directed', opname, order, first), nontrivial=True)
                fresh = sp.Path(*[type(s_)(*s_.bpoints()) if not isinstance(s_, sp.Arc) else sp.Arc(s_.start, s_.radius, s_.rotation, s_.large_arc, s_.sweep, s_.end) for s_ in p])
                b_, a_ = snapshot(fresh, order, True), snapshot(p, order, False)
                bad_ = [k_ for k_ in a_ if not close(a_[k_], b_[k_])]
                if bad_:
                    ck.disagree(key='Path.%s/stale-answers-afterwards' % opname, site='svgpathtools/path.py:Path.' + opname, what='%s; %s(); then %s differ from a freshly built Path of the same segments' % (first, opname, bad_[:5]),
                                case={'op': opname, 'first': first, 'order': order}, expected={k_: repr(b_[k_]) for k_ in bad_[:5]}, observed={k_: repr(a_[k_]) for k_ in bad_[:5]}, driver='directed')
    for setter, val in (('start', -3 + 1j), ('end', 7 + 7j)):
        for order in (0, 1, 2):
            a_seg, b_seg, c_seg = sp.Line(0j, 2 + 0j), sp.Line(2 + 0j, 0j), sp.Line(2 + 0j, 5 + 4j)
            p = sp.Path(a_seg, b_seg, a_seg, c_seg) if setter == 'start' else sp.Path(c_seg.reversed(), a_seg, b_seg, a_seg)
            snapshot(p, order, True)
            p.iscontinuous(), p.continuous_subpaths()
            setattr(p, setter, val)
            ck.case(fp=('directed', 'shared-segment-object', setter, order), nontrivial=True)
            fresh = sp.Path(*[sp.Line(s_.start, s_.end) for s_ in p])
            b_, a_ = snapshot(fresh, order, True), snapshot(p, order, True)
            bad_ = [k_ for k_ in a_ if not close(a_[k_], b_[k_])]
            if bad_:
                ck.disagree(key='Path.%s=/segment-object-occurring-twice' % setter, site='svgpathtools/path.py:Path.%s setter' % setter, what='a path holding one Line object twice, queried; path.%s = %r; then %s differ from a freshly built Path of the same segments' % (setter, val, bad_[:5]),
                            case={'setter': setter, 'order': order}, expected={k_: repr(b_[k_]) for k_ in bad_[:5]}, observed={k_: repr(a_[k_]) for k_ in bad_[:5]}, driver='directed')
    opts = [dict(useSandT=u, use_closed_attrib=z, rel=r) for u, z, r in itertools.product((False, True), repeat=3)]
    for text in ('M0,0 L1,0 L1,1 Z', 'M0,0 L4,0 C4,2 2,3 0,0 Z', 'M0,0 L1,0 L1,1 Z M5,5 L6,6', 'M1,1 Q3,4 5,1 L1,1 z'):
        for mut in ('pop', 'del[-1]', 'del[1:]', 'setitem', 'insert', 'append', 'end=', 'start=', 'reverse', 'none'):
            p = sp.parse_path(text)
            try:
                if mut == 'pop':
                    p.pop()
                elif mut == 'del[-1]':
                    del p[-1]
                elif mut == 'del[1:]':
                    del p[1:]
                elif mut == 'setitem':
                    p[-1] = sp.Line(p[-1].start, p[-1].start + (2 + 7j))
                elif mut == 'insert':
                    p.insert(1, sp.Line(9 + 9j, 8 + 8j))
                elif mut == 'append':
                    p.append(sp.Line(p[-1].end, p[-1].end + (3 - 1j)))
                elif mut == 'end=':
                    p.end = p.end + (1 + 1j)
                elif mut == 'start=':
                    p.start = p.start - (1 + 2j)
                elif mut == 'reverse':
                    p.reverse()
            except Exception as e:      # noqa
                continue
            for o in opts:
                ck.case(fp=('directed', 'parsed-then-mutated', text, mut, str(o)), nontrivial=True)
                try:
                    got, want = p.d(**o), sp.Path(*list(p)).d(**o)
                    back = sp.parse_path(got)
                except Exception as e:      # noqa
                    got, want, back = e, None, None
                # a path from a d-string carries the parser's closed flag; what it writes must still mean the current segments
                if isinstance(got, Exception) or list(back) != list(sp.parse_path(want)):
                    ck.disagree(key='Path.d/after-mutating-a-parsed-path', site='svgpathtools/path.py:Path.d',
                                what='parse_path(%r); %s; d(%s) = %r, a newly built Path of the same segments writes %r' % (text, mut, o, got, want),
                                case={'text': text, 'mut': mut, 'opts': o}, expected=repr(want), observed=repr(got), driver='directed')
                    break


def hash_eq(ck):
    """objects that compare equal have equal hashes"""
    pairs = []
    for d in ('M0,0 L1,1 L2,0 Z', 'M0,0 L1,1 L0,0 Z', 'M1,1 C1,2 2,2 2,1 Z'):
        a = sp.parse_path(d)
        pairs.append((d, a, sp.Path(*list(a))))
    segs = [sp.Line(0j, 1 + 1j), sp.QuadraticBezier(0j, 1j, 2 + 0j), sp.CubicBezier(0j, 1j, 1 + 1j, 1 + 0j), sp.Arc(0j, 1 + 1j, 0, False, True, 2 + 0j)]
    for s in segs:
        cp = type(s)(*[getattr(s, n) for n in (('start', 'end') if isinstance(s, sp.Line) else ('start', 'control', 'end') if isinstance(s, sp.QuadraticBezier)
                                                 else ('start', 'control1', 'control2', 'end') if isinstance(s, sp.CubicBezier)
                                                 else ('start', 'radius', 'rotation', 'large_arc', 'sweep', 'end'))])
        pairs.append((repr(s), s, cp))
        pairs.append(('Path(%r)' % s, sp.Path(s), sp.Path(cp)))
    # arcs whose defining fields are spelled differently (rotation a full turn apart, int / float): whatever == says, equal objects hash equally
    for r1, r2 in ((-30, 330), (0, 360.0), (45, 45.0), (720, 0)):
        a1, a2 = sp.Arc(0j, 2 + 1j, r1, False, True, 2 + 1j), sp.Arc(0j, 2 + 1j, r2, False, True, 2 + 1j)
        pairs.append(('Arc rotation %r / %r' % (r1, r2), a1, a2))
        pairs.append(('Path(Arc) rotation %r / %r' % (r1, r2), sp.Path(sp.Line(-1, 0j), a1), sp.Path(sp.Line(-1, 0j), a2)))
    for z1, z2 in ((1, 1.0), (1 + 0j, 1), (0j, -0.0)):
        pairs.append(('Line end %r / %r' % (z1, z2), sp.Line(3j, z1), sp.Line(3j, z2)))
    for name, a, b in pairs:
        ck.case(fp=('hash', name), nontrivial=True)
        if a == b and hash(a) != hash(b):
            key = 'Path.__hash__/_closed-flag-not-in-__eq__' if isinstance(a, sp.Path) and a._closed != b._closed else 'hash/equal-objects-differ'
            ck.disagree(key=key, site='svgpathtools/path.py:Path.__hash__/__eq__',
                        what='%s == Path(*segments) but the hashes differ' % name, case={'d': name}, expected='equal hashes',
                        observed=[hash(a), hash(b)], driver='hash')


# ------------------------------------------------------------------ V
def record_random(rnd, nops):
    pool = [[0, 1], [1, 3], [3, 3], [4, 0]]
    segs = [rnd.choice(pool) for _ in range(rnd.randint(0, 2))]
    p = sp.Path(*[mk(s) for s in segs])
    ev = [{'op': 'Init', 'after': proj(p)}]
    for _ in range(nops):
        n = len(p)
        ops = ['QLength', 'QStartEnd', 'Append', 'Insert']
        if n:
            ops += ['SetItem', 'DelItem', 'Pop', 'SetStart', 'SetEnd', 'QPoint', 'SetSlice', 'Remove']
        if n >= 2:
            ops += ['Reverse', 'DelSlice']
        if n > 4:
            ops = [o for o in ops if o not in ('Append', 'Insert')] + ['DelItem', 'Pop']
        op = rnd.choice(ops)
        h = {'op': op}
        if op in ('SetItem', 'DelItem'):
            h['i'] = rnd.randint(1, n)
        if op in ('SetItem', 'Insert', 'Append'):
            h['s'] = rnd.choice(pool)
        if op == 'Insert':
            h['i'] = rnd.randint(1, n + 1)
        if op == 'Pop':
            h['i'] = rnd.choice([1, n])
        if op == 'Remove':
            h['s'] = proj(p)[rnd.randrange(n)]
        if op in ('SetStart', 'SetEnd'):
            h['p'] = rnd.choice([0, 2, 5])
        if op == 'SetSlice':
            h['i'] = rnd.randint(1, n + 1)
            h['j'] = rnd.randint(h['i'], n + 1)
            h['r'] = [rnd.choice(pool) for _ in range(rnd.randint(0, 2))]
            if n - (h['j'] - h['i']) + len(h['r']) == 0:
                h['r'] = [rnd.choice(pool)]
        if op == 'DelSlice':
            h['i'] = rnd.randint(1, n - 1)
            h['j'] = rnd.randint(h['i'] + 2, n + 1)
        try:
            apply_op(p, h, False, rnd)
        except Exception as e:      # noqa
            h['after'] = [[-999, -999]]
            ev.append(h)
            break
        h['after'] = proj(p)
        # observed answers (integers on this lattice)
        L = p.length()
        h['len'] = int(round(L)) if abs(L - round(L)) < 1e-9 else -999
        h['start'] = int(p.start.real) if len(p) and p.start is not None and p.start.imag == 0 else -1
        h['end'] = int(p.end.real) if len(p) and p.end is not None and p.end.imag == 0 else -1
        ev.append(h)
    return ev


def norm_event(h):
    e = {'op': h['op'], 'after': h['after'], 'i': h.get('i', 0), 'j': h.get('j', 0), 's': h.get('s', [0, 0]), 'p': h.get('p', 0),
         'r': h.get('r', []), 'len': h.get('len', 0), 'start': h.get('start', -1), 'end': h.get('end', -1)}
    return e


def run(ck):
    rnd = random.Random(ck.seed)
    quick = ck.tier == 'quick'
    ck.rules.append('G: one case = one behaviour of PathSeq.tla (Init + operations with arguments) replayed on a warm and a lazy real '
                    'Path, compared after every step with the model and with a fresh Path; distinct by the history; non-trivial = '
                    'contains a mutator preceded by a cache-filling query (warm mode: always). V: random 60-operation histories '
                    'validated by PathSeq_Trace.tla')
    ck.assumptions += ['segments of the history model are axis-parallel Lines with integer end points (one concretisation swaps one '
                       'pool segment for a collinear CubicBezier so that scipy / no-scipy matters)',
                       'mutation of a segment object that is inside a Path is not a mutation through the Path interface (not generated)']
    acts = ['SetItem', 'SetSlice', 'Insert', 'AppendOp', 'Extend', 'DelItem', 'DelSlice', 'Pop', 'Remove', 'Reverse', 'SetStart',
            'SetEnd', 'QLength', 'QPoint', 'QStartEnd']
    mc = open(pm.__file__.rsplit('/', 2)[0] + '/spec/PathSeq_MC.cfg').read()
    ck.tlc('PathSeq', mc.replace('MaxOps = 5', 'MaxOps = %d' % (4 if quick else 6)), need_actions=acts, timeout=3000)
    seen = set()
    state = {'n': 0}

    def on_case(hist, cubic=False):
        state['n'] += 1
        warmable = any(h['op'] in ('SetStart', 'SetEnd', 'SetItem', 'SetSlice', 'Insert', 'DelItem', 'Reverse') for h in hist[1:])
        ck.case(fp=json.dumps(hist) + str(cubic), nontrivial=warmable)
        ck.sample('history/%d' % len(hist), hist)
        replay_history(ck, hist, rnd, seen, cubic)

    def cfg(ops, pool, maxlen=3):
        return ('SPECIFICATION Spec\nCONSTANTS MaxLen = %d\n MaxOps = %d\n Pool <- %s\n Pts <- Pts2\n Variant = "correct"\nINVARIANT Dump\n'
                % (maxlen, ops, pool))
    old = getattr(sppath, '_quad_available', None)     # (the module's scipy switch; None: no such switch any more - one configuration only)
    try:
        # exhaustive small configuration
        ck.tlc('PathSeq', cfg(2, 'Pool2'), workers=1, coverage=False, on_case=on_case, timeout=3000)
        if not quick:
            ck.tlc('PathSeq', cfg(2, 'Pool3'), workers=1, coverage=False, on_case=on_case, timeout=6000)
        # long behaviours by simulation (TLC prints every terminal successor of the last state)
        for depth, num in ((5, 12), (9, 10), (16, 6)) if quick else ((5, 100), (9, 100), (16, 60), (25, 40)):
            ck.tlc('PathSeq', cfg(depth - 1, 'Pool4', 4), workers=1, coverage=False, simulate=num, depth=depth, on_case=on_case, timeout=3000)
        # no-scipy configuration + a real cubic in the pool
        for scipy_on in (True, False):
            sppath._quad_available = scipy_on and old
            seen.clear()
            ck.tlc('PathSeq', cfg(7, 'Pool3', 4), workers=1, coverage=False, simulate=6 if quick else 60, depth=8,
                   on_case=lambda h: on_case(h, cubic=True), timeout=3000)
            ck.count('cubic_pool_scipy_%s' % scipy_on)
    finally:
        sppath._quad_available = old
    ck.count('histories_replayed', state['n'])
    segment_level(ck, rnd, 400 if quick else 4000)
    hash_eq(ck)
    segment_query_sweep(ck)
    directed_histories(ck)
    # V
    suite_traces(ck)
    traces = [[norm_event(h) for h in record_random(rnd, 60)] for _ in range(150 if quick else 1500)]
    acc, reach = tracecheck.validate(ck, 'PathSeq_Trace', 'PathSeq_Trace.cfg', 'PathSeq_TraceAt.cfg', traces, timeout=3000)
    ck.trace_ok(len(acc))
    ck.count('trace_events', sum(len(t) for t in traces))
    for i, t in enumerate(traces):
        ck.case(fp=('trace', i, json.dumps(t[-1])), nontrivial=True)
        if i in acc:
            continue
        at = reach.get(i, 0)
        ev = t[min(at, len(t) - 1)]
        setter = any(h['op'] in ('SetStart', 'SetEnd') for h in t[:at + 1])
        key = 'Path.start-end-setters/stale-length-cache' if setter and ev['after'] != [[-999, -999]] else 'Path/%s/trace-rejected' % ev['op']
        ck.disagree(key=key, site='svgpathtools/path.py:Path', what='recorded history rejected by PathSeq_Trace at event %d: %s' % (at + 1, ev),
                    case={'hist': t[:at + 1], 'mode': 'trace', 'cubic': False}, expected='event explained by a PathSeq action with '
                    'answers = those of a fresh object', observed=ev, driver='trace')


def suite_traces(ck):
    """V on the repository's own tests: every Path mutation performed while the suite runs (also inside the library) is recorded by the
    pytest plugin harness/pytest_recorder.py (enabled by SVGPATHTOOLS_VERIF=1) and validated by PathOpaque_Trace.tla."""
    import json as _json
    import os
    import subprocess
    import tempfile
    from ..core import REPO, VERIF
    fd, out = tempfile.mkstemp(prefix='suite_traces_', suffix='.json')
    os.close(fd)
    try:
        env = dict(os.environ, SVGPATHTOOLS_VERIF='1', PYTHONPATH=VERIF, VERIF_TRACE_OUT=out, PYTHONHASHSEED='0')
        pr = subprocess.run(['/venv/bin/python', '-m', 'pytest', '-q', '-x', '-p', 'no:cacheprovider', '-p', 'harness.pytest_recorder', '--timeout=900',
                             'test/test_path.py', 'test/test_parsing.py', 'test/test_generation.py', 'test/test_groups.py', 'test/test_svg2paths.py'],
                            cwd=REPO, env=env, stdout=subprocess.PIPE, stderr=subprocess.STDOUT, text=True, timeout=1200)
        try:
            traces = _json.load(open(out))
        except Exception:      # noqa
            traces = []
    finally:
        try:
            os.remove(out)
        except OSError:
            pass
    if not traces:
        ck.machinery_errors.append('the pytest recorder produced no traces:\n' + pr.stdout[-800:])
        return
    acc, reach = tracecheck.validate(ck, 'PathOpaque_Trace', 'PathOpaque_Trace.cfg', 'PathOpaque_TraceAt.cfg', traces)
    ck.trace_ok(len(acc))
    ck.count('suite_traces', len(traces))
    ck.count('suite_trace_events', sum(len(t) for t in traces))
    ck.sample('suite-trace', traces[0][:3])
    for i, t in enumerate(traces):
        ck.case(fp=('suite', i, len(t)), nontrivial=len(t) > 2)
        if i in acc:
            continue
        at = reach.get(i, 0)
        ev = t[min(at, len(t) - 1)]
        stale = not (ev.get('okLen', True) and ev.get('okStart', True) and ev.get('okEnd', True))
        ck.disagree(key='Path/%s/%s-in-test-suite-trace' % (ev['op'], 'answers-differ-from-fresh' if stale else 'sequence-semantics'),
                    site='svgpathtools/path.py:Path', what='a Path mutation recorded while the repository tests ran is rejected by PathOpaque_Trace at event %d: %s' % (at + 1, ev),
                    case={'hist': t[:at + 1], 'mode': 'suite-trace'}, expected='sequence semantics + fresh answers', observed=ev, driver='suite-trace')


def replay(rec):
    case = rec['case']
    hist = case['hist']
    rnd = random.Random(1)
    if 'cls' in case or case.get('mode') == 'suite-trace':
        print('history:', hist)
        return 1
    p = sp.Path(*[mk(s, case.get('cubic', False)) for s in hist[0]['after']])
    print('Init', p)
    warm = case.get('mode') != 'lazy'
    for h in hist[1:]:
        if warm:
            snapshot(p)
        apply_op(p, {k: v for k, v in h.items()}, case.get('cubic', False), rnd)
        print(h['op'], {k: v for k, v in h.items() if k not in ('op', 'after', 'len', 'start', 'end')}, '->', list(p))
    fresh = sp.Path(*list(p))
    a, b = snapshot(p), snapshot(fresh)
    bad = {k: (a[k], b[k]) for k in a if not close(a[k], b[k])}
    print('queries differing from a fresh Path:', bad)
    return 1 if bad else 0
