"""C10 - translated / rotated / scaled / transform commute with point evaluation.

P  Affine.tla (list = product, associativity, determinant, rotate-about-centre, affine invariance
   of Bezier evaluation); Rejoin.tla (JointsKept incl. the closing joint); ArcLattice (mirror flips
   the sweep, rotation keeps the flags).
G  every matrix Affine.tla builds (all lists of <= 2 operations) applied with transform() to lattice
   Beziers (exact) and lattice arcs (1e-6): transform(seg, M).point(t) = M(point(t));
   translated / rotated (default and explicit origins) / scaled (uniform, negative, <1, non-uniform
   on Beziers, refusal on arcs); every joint pattern of Rejoin.tla realised as a real path and
   mapped with rounding-prone factors: joints that coincided, incl. the closing joint, must
   coincide exactly afterwards.
"""
import cmath
import math
import random

import numpy as np

from .. import arcmodel as am

sp = am.sp
TS = [0.0, 0.25, 0.5, 0.75, 1.0, 0.3]


def beziers():
    return [sp.Line(0j, 3 + 4j), sp.Line(2 - 1j, -3 + 0j),
            sp.QuadraticBezier(0j, 2 + 3j, 5 + 0j), sp.QuadraticBezier(1 + 1j, 1 + 1j, 4 - 2j),
            sp.CubicBezier(1 + 1j, 4j, 4 + 4j, 5 - 1j), sp.CubicBezier(0j, 3 + 0j, 3 + 0j, 0 + 3j),
            # straight but not uniformly parameterised: handles retracted onto the end points / unevenly spaced on the chord; a quadratic with its control on an end
            sp.CubicBezier(1 + 1j, 1 + 1j, 5 - 2j, 5 - 2j), sp.CubicBezier(0j, 1 + 1j, 4 + 4j, 6 + 6j), sp.QuadraticBezier(2 + 0j, 2 + 0j, 5 + 4j)]


def arcs():
    out = []
    for A in ({'r': [5, 5], 'phi': 0, 'th': 2, 'dl': 7, 'c': [3, -2]}, {'r': [5, 3], 'phi': 2, 'th': -5, 'dl': -17, 'c': [0, 0]},
              {'r': [2, 7], 'phi': 3, 'th': 9, 'dl': 13, 'c': [1, 1]}, {'r': [5, 3], 'phi': 6, 'th': 0, 'dl': -4, 'c': [-2, 4]},
              {'r': [13, 13], 'phi': 26, 'th': 11, 'dl': 23, 'c': [0, 1]}):
        out.append(am.concretise(A))
    # arcs on the boundary of validity: chord = diameter (semicircle, rotated semi-ellipse), and radii too small for the chord (enlarged by the constructor)
    out.append(sp.Arc(0j, 5 + 5j, 0, False, True, 10 + 0j))
    out.append(sp.Arc(1 + 1j, 4 + 2j, 30, False, False, 1 + 1j + 8 * cmath.exp(1j * math.radians(30))))
    out.append(sp.Arc(1 + 1j, 1 + 1j, 15, False, True, 11 + 4j))
    out.append(sp.Arc(-3 + 2j, 10 + 7j, 15, True, True, 40 - 9j))
    return out


def mat(M):
    return np.array([[M[0], M[2], M[4]], [M[1], M[3], M[5]], [0, 0, 1]], dtype=float)


def app(M, z):
    return complex(M[0] * z.real + M[2] * z.imag + M[4], M[1] * z.real + M[3] * z.imag + M[5])


def commute(ck, seg, new, f, what, case, tol, key):
    """new.point(t) == f(seg.point(t)) on the grid"""
    size = max(abs(f(seg.point(t))) for t in TS) + 1
    for t in TS:
        exp = f(seg.point(t))
        try:
            got = new.point(t)
        except Exception as e:      # noqa
            got = e
        if isinstance(got, Exception) or not (abs(got - exp) <= tol * size):
            ck.disagree(key=key, site='svgpathtools/path.py:' + key.split('/')[0],
                        what='%s: image.point(%r) = %r, mapped point = %r (segment %r)' % (what, t, got, exp, seg),
                        case=case, expected=repr(exp), observed=repr(got), driver='commute')
            return False
    if type(new) is not type(seg) and not (isinstance(seg, sp.Arc) and isinstance(new, sp.Line)):
        ck.disagree(key=key + '/type-changed', site='svgpathtools/path.py', what='%s turned %s into %s' % (what, type(seg).__name__, type(new).__name__),
                    case=case, expected=type(seg).__name__, observed=type(new).__name__, driver='commute')
        return False
    return True


def seg_ops(ck, rnd, matrices, quick):
    segs = [(s, True) for s in beziers()] + [(a, False) for a in arcs()]
    for si, (seg, isbez) in enumerate(segs):
        name = type(seg).__name__
        tolx = 1e-12 if isbez else 1e-6
        # translated
        for z in (3 - 2j, -7 + 0.5j, 1e6 + 1e-3j, 0.1 + 0.2j, 1 / 3.0 - 1j / 7.0, 1e-3 + 7j, 123.456 - 78.9j, -0.7 - 1e-9j):
            ck.case(fp=('translated', si, z), nontrivial=True)
            try:
                new = seg.translated(z)
            except Exception as e:      # noqa
                ck.disagree(key='translate/raises', site='svgpathtools/path.py:translate', what='translated(%r) raised %r on %r' % (z, e, seg),
                            case={'seg': repr(seg), 'z': str(z)}, expected='segment', observed=repr(e), driver='ops')
                continue
            commute(ck, seg, new, lambda p: p + z, 'translated(%r)' % z, {'seg': repr(seg), 'op': 'translated', 'z': str(z)}, tolx, 'translate/' + name)
        # rotated
        for deg in (90, 180, 270, 15, 30, 45, -60, 123.4, 390):
            for origin in (None, 1 + 2j, 0j):
                ck.case(fp=('rotated', si, deg, origin), nontrivial=True)
                o = origin if origin is not None else (seg.center if isinstance(seg, sp.Arc) else seg.point(0.5))
                w = cmath.exp(1j * math.radians(deg))
                try:
                    new = seg.rotated(deg, origin) if origin is not None else seg.rotated(deg)
                except Exception as e:      # noqa
                    ck.disagree(key='rotate/raises', site='svgpathtools/path.py:rotate', what='rotated(%r, %r) raised %r on %r' % (deg, origin, e, seg),
                                case={'seg': repr(seg), 'deg': deg}, expected='segment', observed=repr(e), driver='ops')
                    continue
                commute(ck, seg, new, lambda p: w * (p - o) + o, 'rotated(%r, origin=%r)' % (deg, origin),
                        {'seg': repr(seg), 'op': 'rotated', 'deg': deg, 'origin': str(origin)}, max(tolx, 1e-9), 'rotate/' + name)
        # scaled
        for s in (2, 0.5, -1, -3, 1 / 3.0):
            for origin in (0j, 1 + 2j):
                ck.case(fp=('scaled', si, s, origin), nontrivial=True)
                try:
                    new = seg.scaled(s, origin=origin)
                except Exception as e:      # noqa
                    ck.disagree(key='scale/raises', site='svgpathtools/path.py:scale', what='scaled(%r) raised %r on %r' % (s, e, seg),
                                case={'seg': repr(seg), 's': s}, expected='segment', observed=repr(e), driver='ops')
                    continue
                commute(ck, seg, new, lambda p: s * (p - origin) + origin, 'scaled(%r, origin=%r)' % (s, origin),
                        {'seg': repr(seg), 'op': 'scaled', 's': s, 'origin': str(origin)}, max(tolx, 1e-9), 'scale/' + name)
        for sx, sy in ((2, 3), (-1, 1), (0.5, -2)):
            ck.case(fp=('scaled2', si, sx, sy), nontrivial=True)
            origin = 1 - 1j
            try:
                new = seg.scaled(sx, sy, origin=origin)
                refused = False
            except Exception as e:      # noqa
                new, refused = e, True
            if isbez:
                if refused:
                    ck.disagree(key='scale/raises', site='svgpathtools/path.py:scale', what='scaled(%r,%r) raised %r on %r' % (sx, sy, new, seg),
                                case={'seg': repr(seg)}, expected='segment', observed=repr(new), driver='ops')
                else:
                    commute(ck, seg, new, lambda p: complex(sx * (p.real - origin.real) + origin.real, sy * (p.imag - origin.imag) + origin.imag),
                            'scaled(%r, %r)' % (sx, sy), {'seg': repr(seg), 'op': 'scaled2', 'sx': sx, 'sy': sy}, 1e-9, 'scale/' + name)
            elif not refused:
                # non-uniform scaling of an arc must be refused, never silently wrong: if it is accepted it must be right
                commute(ck, seg, new, lambda p: complex(sx * (p.real - origin.real) + origin.real, sy * (p.imag - origin.imag) + origin.imag),
                        'scaled(%r, %r) accepted on an Arc' % (sx, sy), {'seg': repr(seg), 'op': 'scaled2', 'sx': sx, 'sy': sy}, 1e-6, 'scale/Arc-nonuniform')
        # matrices that are *almost* the identity (no shortcut may swallow them) and tiny / huge ones
        for Mx in ([1.000009, 0, 0, 0.999992, 0, 0], [1, 0, 0, 1, 1e-9, -1e-9], [1, 1e-7, 0, 1, 0, 0], [1e-6, 0, 0, 1e-6, 0, 0], [0, 1e5, -1e5, 0, 3, 4]):
            ck.case(fp=('transform-special', si, tuple(Mx)), nontrivial=True)
            try:
                new = sp.path.transform(seg, mat(Mx))
            except Exception as e:      # noqa
                ck.disagree(key='transform/%s/raises-%s' % (name, type(e).__name__), site='svgpathtools/path.py:transform', what='transform(%r, %s) raised %r' % (seg, Mx, e),
                            case={'seg': repr(seg), 'M': Mx}, expected='segment', observed=repr(e), driver='transform')
                continue
            # compare the displacement image - original, so that a relative 1e-5 change is visible against coordinates of size 10
            size = max(abs(app(Mx, seg.point(t))) for t in TS) + 1e-300
            for t in TS:
                exp = app(Mx, seg.point(t))
                if not (abs(new.point(t) - exp) <= (1e-13 if isbez else 1e-7) * size + 1e-15):
                    ck.disagree(key='transform/%s/near-identity-or-extreme-matrix' % name, site='svgpathtools/path.py:transform',
                                what='transform(%r, %s).point(%r) = %r, M(point) = %r' % (seg, Mx, t, new.point(t), exp), case={'seg': repr(seg), 'M': Mx},
                                expected=repr(exp), observed=repr(new.point(t)), driver='transform')
                    break
        # the matrix given with an integer dtype (a quarter turn, a mirror, a shear written without decimal points) - the segments here have non-integer
        # points on them: nothing may be truncated
        halves = type(seg)(*[w + (0.5 + 0.25j) for w in seg.bpoints()]) if isbez else seg
        for Mi in ([0, 1, -1, 0, 0, 0], [-1, 0, 0, 1, 3, 0], [1, 0, 2, 1, 0, -1], [2, 0, 0, 2, 1, 1]):
            ck.case(fp=('transform-int-dtype', si, tuple(Mi)), nontrivial=True)
            Mint = np.array([[Mi[0], Mi[2], Mi[4]], [Mi[1], Mi[3], Mi[5]], [0, 0, 1]])        # dtype int64
            try:
                new = sp.path.transform(halves, Mint)
                okm = all(abs(new.point(t) - app(Mi, halves.point(t))) <= (1e-12 if isbez else 1e-6) * 60 for t in TS)
            except Exception as e:      # noqa
                okm, new = False, e
            if not okm:
                ck.disagree(key='transform/%s/integer-dtype-matrix' % name, site='svgpathtools/path.py:transform', what='transform(%r, integer matrix %s) = %r' % (halves, Mi, new),
                            case={'seg': repr(halves), 'M': Mi}, expected='M applied to the points', observed=repr(new), driver='transform')
        # transform by every model matrix
        for mi, c in enumerate(matrices):
            if not isbez and quick and mi % 3:
                continue
            M = c['M']
            ck.case(fp=('transform', si, tuple(M)), nontrivial=c['det'] != 1 or M[1] != 0 or M[2] != 0)
            try:
                new = sp.path.transform(seg, mat(M))
            except Exception as e:      # noqa
                ck.disagree(key='transform/%s/raises-%s' % (name, type(e).__name__), site='svgpathtools/path.py:transform',
                            what='transform(%r, %s) raised %r' % (seg, M, e), case={'seg': repr(seg), 'M': M, 'ops': c['ops']},
                            expected='segment', observed=repr(e), driver='transform')
                continue
            cls = 'similarity' if (M[0] == M[3] and M[1] == -M[2]) or (M[0] == -M[3] and M[1] == M[2]) else 'general'
            commute(ck, seg, new, lambda p: app(M, p), 'transform by %s (ops %s)' % (M, [o['k'] for o in c['ops']]),
                    {'seg': repr(seg), 'op': 'transform', 'M': M}, tolx, 'transform/%s/%s%s' % (name, cls, '-reflection' if c['det'] < 0 else ''))


def build_path(joined, rnd, kinds):
    """a real path whose joint k (between segment k and k+1; the last one is the closing joint) coincides iff joined[k]"""
    n = len(joined)
    starts, ends = [], []
    pos = 0.25 + 0.5j
    DIR = [3 + 1j, 1 + 4j, -2 + 3j, -4 - 1j]
    for k in range(n):
        starts.append(pos)
        e = pos + DIR[k % 4] * rnd.choice([0.7, 1.0, 1 / 3.0])
        ends.append(e)
        pos = e if joined[k] else e + (0.1 - 0.3j)
    if joined[-1]:
        ends[-1] = starts[0]
    if n == 1 and joined[0]:
        # a one-segment closed path: a Bezier loop whose end is its start (its closing joint is the segment's own ends)
        a = starts[0]
        if kinds[0] == 'Q':
            return sp.Path(sp.QuadraticBezier(a, a + (2.5 + 1 / 3.0 * 1j), a))
        return sp.Path(sp.CubicBezier(a, a + (3 + 1j) / 3.0, a + (-1 + 2.2j), a))
    segs = []
    for k in range(n):
        a, b = starts[k], ends[k]
        d = b - a
        kd = kinds[k % len(kinds)]
        if kd == 'L':
            segs.append(sp.Line(a, b))
        elif kd == 'Q':
            segs.append(sp.QuadraticBezier(a, a + d / 2 + 1j * d / 3, b))
        elif kd == 'C':
            segs.append(sp.CubicBezier(a, a + d / 3 - 1j * d / 2, a + 2 * d / 3 + 1j * d / 4, b))
        else:
            segs.append(sp.Arc(a, complex(abs(d), abs(d) * 0.75), 30, False, True, b))
    return sp.Path(*segs)


def joints_kept(ck, joined, path, new, what):
    n = len(joined)
    for k in range(n):
        nx = (k + 1) % n
        if joined[k] and path[k].end == path[nx].start:
            if new[k].end != new[nx].start:
                key = 'transform_segments_together/closing-joint-opened' if k == n - 1 else 'transform_segments_together/joint-opened'
                ck.disagree(key=key, site='svgpathtools/path.py:transform_segments_together',
                            what='%s: joint %d of %d coincided before (%r) but not after: %r vs %r' % (what, k + 1, n, path[k].end, new[k].end, new[nx].start),
                            case={'joined': joined, 'op': what, 'path': repr(path)}, expected='equal', observed=[repr(new[k].end), repr(new[nx].start)],
                            driver='joints')
                return False
    if all(joined) and path.iscontinuous() and path.isclosed():
        if not (new.iscontinuous() and new.isclosed()):
            ck.disagree(key='transform_segments_together/closing-joint-opened', site='svgpathtools/path.py:transform_segments_together',
                        what='%s: a closed path is no longer closed' % what, case={'joined': joined, 'op': what, 'path': repr(path)},
                        expected='closed', observed='open', driver='joints')
            return False
    return True


def path_ops(ck, rnd, quick):
    Mf = np.array([[0.3, -1.1, 0.7], [0.9, 0.2, -0.1], [0, 0, 1]])
    ops = [('translated(0.1+0.7j)', lambda p: p.translated(0.1 + 0.7j)), ('rotated(17)', lambda p: p.rotated(17)),
           ('rotated(90, origin=1+1j)', lambda p: p.rotated(90, 1 + 1j)), ('scaled(1/3)', lambda p: p.scaled(1 / 3.0)),
           ('scaled(-0.7, origin=2j)', lambda p: p.scaled(-0.7, origin=2j)),
           ('transform(M)', lambda p: sp.path.transform(p, Mf))]
    bez_only = [('scaled(1/3, 0.7)', lambda p: p.scaled(1 / 3.0, 0.7))]
    r = ck.tlc('Rejoin', 'Rejoin_MC.cfg', need_actions=['Step', 'Done'])
    r = ck.tlc('Rejoin', open(am.__file__.rsplit('/', 2)[0] + '/spec/Rejoin_MC.cfg').read().replace('N = 3', 'N = 4'))
    pats = [[bool(b >> k & 1) for k in range(n)] for n in (1, 2, 3, 4) for b in range(2 ** n)]
    for joined in pats:
        for kinds in (['L'], ['L', 'C', 'Q'], ['C', 'A', 'L', 'Q']) if not (len(joined) == 1 and joined[0]) else (['C'], ['Q']):
            for rep in range(1 if quick else 4):
                path = build_path(joined, rnd, kinds)
                if rep % 2 == 0:
                    path.length()           # a source path that has been measured before it is transformed
                    path.point(0.3)
                has_arc = any(isinstance(s, sp.Arc) for s in path)
                for what, f in ops + ([] if has_arc else bez_only):
                    ck.case(fp=('path', tuple(joined), tuple(kinds), what, rep), nontrivial=any(joined))
                    try:
                        new = f(path)
                    except Exception as e:      # noqa
                        ck.disagree(key='path-op/raises-%s' % type(e).__name__, site='svgpathtools/path.py', what='%s raised %r on %r' % (what, e, path),
                                    case={'joined': joined, 'op': what}, expected='path', observed=repr(e), driver='joints')
                        continue
                    # the result must answer like a Path freshly built from its own segments (nothing cached on the source may leak into it)
                    try:
                        fr_ = sp.Path(*list(new))
                        lf = fr_.length()
                        okc = abs(new.length() - lf) <= 1e-9 * max(1.0, lf) and new.start == fr_.start and new.end == fr_.end
                        for T in (0.2, 0.5, 0.83):
                            okc = okc and abs(new.point(T) - fr_.point(T)) <= 1e-9 * (abs(fr_.point(T)) + 1) and new.T2t(T)[0] == fr_.T2t(T)[0]
                    except Exception as e:      # noqa
                        okc = False
                    if not okc:
                        ck.disagree(key='path-op/result-differs-from-fresh-path', site='svgpathtools/path.py', what='%s: the returned path does not answer like Path(*its segments)' % what,
                                    case={'joined': joined, 'op': what, 'path': repr(path)}, expected='fresh answers', observed='differs', driver='joints')
                        continue
                    if len(new) != len(path):
                        ck.disagree(key='path-op/segment-count', site='svgpathtools/path.py', what='%s changed the number of segments' % what,
                                    case={'joined': joined, 'op': what}, expected=len(path), observed=len(new), driver='joints')
                        continue
                    joints_kept(ck, joined, path, new, what)
                    # every point commutes with the operation; for rotated() without an origin the documented default is path.point(0.5)
                    import cmath
                    o17 = path.point(0.5)
                    pmap = {'translated(0.1+0.7j)': lambda z: z + (0.1 + 0.7j), 'rotated(17)': lambda z: cmath.exp(1j * math.radians(17)) * (z - o17) + o17,
                            'rotated(90, origin=1+1j)': lambda z: 1j * (z - (1 + 1j)) + (1 + 1j), 'scaled(1/3)': lambda z: z / 3.0, 'scaled(-0.7, origin=2j)': lambda z: -0.7 * (z - 2j) + 2j}.get(what)
                    if pmap is not None:
                        for si_, (a_, b_) in enumerate(zip(new, path)):
                            if any(not (abs(a_.point(t_) - pmap(b_.point(t_))) <= 1e-7 * (1 + abs(b_.point(t_)))) for t_ in (0, 0.3, 0.5, 1)):
                                ck.disagree(key='path-op/points-do-not-commute/%s' % what.split('(')[0], site='svgpathtools/path.py:rotate / scale / translate', what='%s of %r: member %d is %r' % (what, path, si_, a_),
                                            case={'joined': joined, 'op': what, 'path': repr(path)}, expected='every point of the member mapped', observed=repr(a_), driver='joints')
                                break
    # paths with point-like members (a repeated vertex, a zero-length closing line, a point-like cubic) and with curves of lower true degree (a degree-elevated
    # line / quadratic): every operation returns a path, members keep their kind, points commute
    odd = [sp.Path(sp.Line(0j, 3 + 0j), sp.Line(3 + 0j, 3 + 0j), sp.Line(3 + 0j, 3 + 4j), sp.Line(3 + 4j, 0j), sp.Line(0j, 0j)),
           sp.Path(sp.CubicBezier(1 + 1j, 1 + 1j, 1 + 1j, 1 + 1j), sp.QuadraticBezier(1 + 1j, 3 + 5j, 6 + 1j)),
           sp.Path(sp.CubicBezier(0j, 1 + 1j, 2 + 2j, 3 + 3j), sp.CubicBezier(3 + 3j, 5 + 5j, 7 + 3j, 9 - 1j), sp.QuadraticBezier(9 - 1j, 10 + 0j, 11 + 1j))]
    maps = {'translated(0.1+0.7j)': lambda z: z + (0.1 + 0.7j), 'rotated(90, origin=1+1j)': lambda z: 1j * (z - (1 + 1j)) + (1 + 1j), 'scaled(1/3)': lambda z: z / 3.0,
            'scaled(-0.7, origin=2j)': lambda z: -0.7 * (z - 2j) + 2j}
    for pi_, path in enumerate(odd):
        for what, f in ops + bez_only:
            ck.case(fp=('odd-path', pi_, what), nontrivial=True)
            try:
                new = f(path)
                ok = len(new) == len(path)          # (a member may legitimately come back as a lower-degree segment tracing the same points at the same parameters)
                if ok and what in maps:
                    ok = all(abs(a_.point(t) - maps[what](b_.point(t))) <= 1e-9 * 12 for a_, b_ in zip(new, path) for t in (0, 0.3, 1))
            except Exception as e:      # noqa
                ok, new = False, e
            if not ok:
                ck.disagree(key='path-op/point-like-or-degree-elevated-members', site='svgpathtools/path.py:scale / rotate / translate / transform',
                            what='%s of %r = %r' % (what, path, new), case={'path': repr(path), 'op': what}, expected='the same number of segments, every point mapped', observed=repr(new), driver='joints')
    ck.sample('joint-pattern', {'joined': [True, False, True], 'ops': [o[0] for o in ops]})


def run(ck):
    rnd = random.Random(ck.seed)
    quick = ck.tier == 'quick'
    ck.rules.append('segment cases = (lattice segment, operation with arguments); matrices = every product of <= 2 (quick) / 3 (thorough) '
                    'operations of Affine.tla; path cases = (joint pattern of Rejoin.tla, segment kinds, operation); non-trivial = not a pure '
                    'translation / at least one coinciding joint')
    ck.assumptions += ['Beziers with integer data compared to 1e-12, arcs to 1e-6 relative; singular matrices are not generated',
                       'arcs mapped by non-similarities are compared through M(point(t)) (the eccentric angle of an affine image is an affine '
                       'function of the original one, so the parameterisation is preserved)']
    ck.tlc('Affine', 'Affine_MC.cfg', need_actions=['Push'])
    # the algebra for ALL integer matrices / points (Apalache, unbounded): composition, associativity, det, evaluation commutes, area scales by det
    ck.apalache('MC_Affine', 'Inv')
    ck.apalache('MC_Affine', 'Wrong', expect_error=True)
    r = ck.tlc('Affine', 'SPECIFICATION Spec\nCONSTANTS MaxOps = %d\nINVARIANT DumpM\n' % (2 if quick else 3), workers=1, coverage=False)
    seen, matrices = set(), []
    for c in r.cases:
        if tuple(c['M']) not in seen and c['det'] != 0:
            seen.add(tuple(c['M']))
            matrices.append(c)
    if not quick:
        rnd.shuffle(matrices)
        matrices = matrices[:700]
    ck.count('matrices', len(matrices))
    ck.sample('matrix', matrices[len(matrices) // 2])
    seg_ops(ck, rnd, matrices, quick)
    path_ops(ck, rnd, quick)


def replay(rec):
    print(rec['what'])
    print('expected', rec['expected'], 'observed', rec['observed'])
    return 1
