"""C19 - generic n-th order Bezier and polynomial helpers are exact and lose no roots.

P  Bezier.tla (degrees 0..8: Bernstein = de Casteljau = Horner, basis change round trip, split
   re-parameterisation), Roots.tla (SimpleOnce for every set partition x kind vector),
   RatLimit.tla (L'Hopital recursion = orders of vanishing).
G  the helpers accept Fractions, so every TLC case is replayed in *exact* arithmetic:
   bezier_point, bezier2polynomial, polynomial2bezier, split_bezier, halve_bezier;
   polyroots/polyroots01 with numpy.roots replaced by a proxy that returns exactly the ordered
   root list of each TLC case; rational_limit on every (f, g, t0) of RatLimit.
V  real polynomials with prescribed root sets: the order numpy actually produced is recorded,
   abstracted, and validated by Roots_Trace.tla (every simple root must survive).
"""
import random
from fractions import Fraction as F

import numpy

from .. import pathmodel as pm
from .. import tracecheck

sp = pm.sp
import svgpathtools.bezier as bz          # noqa
import svgpathtools.polytools as pt       # noqa


def fr(v, den):
    return F(v, den)


def identities(ck, c):
    P, a, D = c['P'], c['a'], c['D']
    n = len(P) - 1
    t = F(a, D)
    p = [F(x) for x in P]
    ck.case(fp=('id', tuple(P), a, D), nontrivial=n >= 1 and a not in (0, D))
    site = 'svgpathtools/bezier.py'

    def bad(fn, exp, obs):
        ck.disagree(key='bezier/%s/degree-%d' % (fn, n), site=site + ':' + fn,
                    what='%s on control points %s at t=%s: got %s, exact value %s' % (fn, P, t, obs, exp),
                    case={'P': P, 'a': a, 'D': D, 'fn': fn}, expected=str(exp), observed=str(obs), driver='identities')
    exp_pt = F(c['pt'], D ** n)
    try:
        got = bz.bezier_point(p, t)
        if got != exp_pt:
            bad('bezier_point', exp_pt, got)
        # float evaluation as well (dyadic => exact for small degree; tolerance otherwise)
        gf = bz.bezier_point([float(x) for x in P], float(t))
        if not (abs(gf - float(exp_pt)) <= 1e-9 * max(1.0, abs(float(exp_pt)))):
            bad('bezier_point(float)', float(exp_pt), gf)
        co = list(bz.bezier2polynomial(p))
        if [F(x) for x in co] != [F(x) for x in c['coeffs']]:
            bad('bezier2polynomial', c['coeffs'], co)
        co2 = list(bz.bezier2polynomial(p, numpy_ordering=False))
        if [F(x) for x in co2] != [F(x) for x in c['coeffs']][::-1]:
            bad('bezier2polynomial(numpy_ordering=False)', c['coeffs'][::-1], co2)
        if 1 <= n <= 3:
            back = list(bz.polynomial2bezier([F(x) for x in c['coeffs']]))
            if back != p:
                bad('polynomial2bezier', P, back)
        if n >= 1 or True:
            L, R = bz.split_bezier(p, t)
            eL = [F(x, D ** n) for x in c['L']]
            eR = [F(x, D ** n) for x in c['R']]
            if list(L) != eL or list(R) != eR:
                bad('split_bezier', (eL, eR), (L, R))
            if 2 * a == D:
                hL, hR = bz.halve_bezier(p)
                if list(hL) != eL or list(hR) != eR:
                    bad('halve_bezier', (eL, eR), (hL, hR))
            # the same control points as plain Python ints, floats, complex numbers and numpy scalars (the helpers take "any numeric sequence"): float arithmetic is exact
            # here when the parameter is dyadic and the degree small; otherwise a 1e-12 relative tolerance
            for spell, conv in (('int', int), ('float', float), ('complex', complex), ('numpy.int64', numpy.int64), ('numpy.float64', numpy.float64)):
                ps = [conv(x) for x in P]
                Ls, Rs = bz.split_bezier(ps, float(t))
                tol_ = 1e-12 * (max(abs(x) for x in P) + 1)
                if len(Ls) != len(eL) or len(Rs) != len(eR) or any(not (abs(complex(g_) - complex(float(e_))) <= tol_) for g_, e_ in zip(list(Ls) + list(Rs), eL + eR)):
                    bad('split_bezier(%s control points)' % spell, (eL, eR), (list(Ls), list(Rs)))
                    break
                if ps != [conv(x) for x in P]:
                    bad('split_bezier(%s control points) changed its argument' % spell, P, ps)
                    break
                if 1 <= n <= 3:
                    co_ = list(bz.bezier2polynomial(ps))
                    if any(not (abs(complex(g_) - complex(float(F(e_)))) <= tol_ * 8) for g_, e_ in zip(co_, c['coeffs'])):
                        bad('bezier2polynomial(%s control points)' % spell, c['coeffs'], co_)
                        break
                    back_ = list(bz.polynomial2bezier([conv(x) for x in c['coeffs']]))
                    if len(back_) != len(P) or any(not (abs(complex(g_) - complex(e_)) <= tol_ * 8) for g_, e_ in zip(back_, P)):
                        bad('polynomial2bezier(%s coefficients)' % spell, P, back_)
                        break
            # genuinely complex control points (real part P, imaginary part P reversed): every helper is linear over the reals, so the answer is the real answer
            # plus i times the answer for the reversed vector - for every degree, the general-degree branches included
            if n >= 1:
                pc = [complex(P[k], P[n - k]) for k in range(n + 1)]
                tol_ = 1e-12 * (max(abs(x) for x in P) + 1) * 4 ** n
                for cont_name, cont in (('list', list), ('tuple', tuple), ('array', numpy.array)):
                    cr = [complex(float(F(e_))) for e_ in bz.bezier2polynomial([F(x) for x in P])]
                    ci = [complex(float(F(e_))) for e_ in bz.bezier2polynomial([F(x) for x in P[::-1]])]
                    got_c = list(bz.bezier2polynomial(cont(pc)))
                    if len(got_c) != n + 1 or any(not (abs(complex(g_) - (r_ + 1j * i_)) <= tol_) for g_, r_, i_ in zip(got_c, cr, ci)):
                        bad('bezier2polynomial(complex control points, %s)' % cont_name, [r_ + 1j * i_ for r_, i_ in zip(cr, ci)], got_c)
                        break
                    gp = bz.bezier_point(cont(pc), float(t))
                    ep = complex(float(bz.bezier_point([F(x) for x in P], t)), float(bz.bezier_point([F(x) for x in P[::-1]], t)))
                    if not (abs(complex(gp) - ep) <= tol_):
                        bad('bezier_point(complex control points, %s)' % cont_name, ep, gp)
                        break
    except Exception as e:      # noqa
        bad('raises-' + type(e).__name__, 'a value', repr(e))


class NpProxy(object):
    """numpy with `roots` replaced by a prescribed answer"""
    def __init__(self):
        self.answer = None
        self.calls = 0

    def roots(self, p):
        self.calls += 1
        return numpy.array(self.answer)

    def __getattr__(self, name):
        return getattr(numpy, name)


BASES = [0.08, 0.2, 0.35, 0.5, 0.65, 0.8, 0.93]


def concretise_roots(roots):
    """cluster -> nearly equal values.  A cluster that mixes admissible ("in") and inadmissible real ("out") roots is placed
    on the boundary of the condition 0 <= r <= 1, so that the admissible members have a *close* inadmissible neighbour
    (the filters must run before the de-duplication); only two such clusters fit (at 1 and at 0)."""
    kinds = {}
    for r in roots:
        kinds.setdefault(r['c'], set()).add(r['k'])
    mixed = [c for c in sorted(kinds) if {'in', 'out'} <= kinds[c]]
    boundary = {}
    if mixed:
        boundary[mixed[0]] = 1.0
    if len(mixed) > 1:
        boundary[mixed[1]] = 0.0
    seen = {}
    vals = []
    for r in roots:
        m = seen.get(r['c'], 0)
        seen[r['c']] = m + 1
        if r['c'] in boundary and r['k'] != 'cx':
            b = boundary[r['c']]
            inward = -1 if b == 1.0 else 1
            vals.append(b + inward * (m + 1) * 1e-9 if r['k'] == 'in' else b - inward * (m + 1) * 1e-9)
            continue
        base = BASES[r['c'] - 1] + m * 1e-8
        if r['k'] == 'in':
            vals.append(base)
        elif r['k'] == 'out':
            vals.append(base + 1.0 if r['c'] % 2 else -base)
        else:
            vals.append(complex(base, 0.3))
    return vals


def check_roots_output(ck, roots, vals, out, how, case, site='svgpathtools/polytools.py:polyroots'):
    kept = [(r, v) for r, v in zip(roots, vals) if r['k'] == 'in']
    ok = True
    for idx, (r, v) in enumerate(kept):
        simple = all(r2['c'] != r['c'] for j, (r2, _) in enumerate(kept) if j != idx)
        if simple:
            cnt = sum(1 for o in out if abs(o - v) < 1e-7)
            if cnt != 1:
                ck.disagree(key='polyroots/simple-root-%s' % ('lost' if cnt == 0 else 'duplicated'), site=site,
                            what='%s: simple root %r (position %d of the filtered list %s) returned %d times; output %s' % (
                                how, v, idx, [x for _, x in kept], cnt, list(out)),
                            case=case, expected='exactly once', observed=[complex(o) if isinstance(o, complex) else float(o) for o in out],
                            driver='polyroots')
                ok = False
                break
    for o in out:
        if not any(abs(o - v) < 1e-7 for _, v in kept):
            ck.disagree(key='polyroots/foreign-root', site=site, what='%s: output %r is not one of the admissible roots' % (how, o),
                        case=case, expected=[v for _, v in kept], observed=repr(list(out)), driver='polyroots')
            ok = False
            break
    return ok


def roots_replay(ck, c, proxy):
    roots = c['roots']
    vals = concretise_roots(roots)
    proxy.answer = vals
    kept = [r for r in roots if r['k'] == 'in']
    nontriv = len(kept) >= 3 and len(set(r['c'] for r in kept)) < len(kept)
    ck.case(fp=('roots', str(roots)), nontrivial=nontriv)
    coeffs = [1.0] * (len(roots) + 1)
    calls0 = proxy.calls
    try:
        out1 = pt.polyroots01(coeffs)
        if proxy.calls == calls0:
            # the prescribed answer is injected through the module's `np.roots`: a polyroots that finds its roots in another way never sees it (and solves the
            # dummy polynomial instead) - the replay of Roots.tla's orders says nothing then; the real polynomials below still decide the property
            ck.drift('polyroots/root-order-injection-no-longer-fits', 'polyroots01 did not call np.roots of svgpathtools.polytools for %d roots: prescribed root orders cannot be replayed' % len(roots))
            # ... but the root *content* can: the real polynomial with these roots (when they are closed under conjugation) through the unpatched entry point
            cvals = [complex(v) for v in vals]
            if all(abs(v.imag) == 0 or any(abs(w - v.conjugate()) <= 1e-12 for w in cvals) for v in cvals):
                co = numpy.real(numpy.poly(cvals))
                out_r = pt.polyroots01(co)
                clustered = set(r['c'] for r in roots if sum(1 for q_ in roots if q_['c'] == r['c']) > 1)
                for r, v in zip(roots, cvals):
                    if r['k'] == 'in' and r['c'] not in clustered and 1e-6 < v.real < 1 - 1e-6:
                        cnt = sum(1 for o in out_r if abs(o - v.real) <= 1e-6)
                        if cnt != 1:
                            ck.disagree(key='polyroots/simple-root-%s' % ('lost' if cnt == 0 else 'duplicated'), site='svgpathtools/polytools.py:polyroots',
                                        what='real polynomial with the roots %s: simple root %r returned %d times: %s' % ([str(x) for x in cvals], v.real, cnt, list(out_r)),
                                        case={'roots': roots, 'vals': [str(x) for x in vals]}, expected='once', observed=[float(numpy.real(o)) for o in out_r], driver='polyroots')
                            break
            return
        out2 = pt.polyroots(coeffs, realroots=True, condition=lambda r: 0 <= r <= 1)
    except Exception as e:      # noqa
        ck.disagree(key='polyroots/raises-' + type(e).__name__, site='svgpathtools/polytools.py:polyroots',
                    what='polyroots raised %r for the root list %s (%s)' % (e, [str(v) for v in vals], roots), case={'roots': roots, 'vals': [str(v) for v in vals]},
                    expected='the admissible roots, one per cluster', observed=repr(e), driver='polyroots')
        return
    check_roots_output(ck, roots, vals, out1, 'polyroots01', {'roots': roots, 'vals': [str(v) for v in vals]})
    if list(out2) != list(out1):
        ck.disagree(key='polyroots/polyroots01-differs-from-polyroots', site='svgpathtools/polytools.py',
                    what='polyroots01 != polyroots(realroots, 0<=r<=1)', case={'roots': roots}, expected=list(out2), observed=list(out1), driver='polyroots')


def real_polynomials(ck, rnd, n):
    """V: prescribed root sets through the real numpy.roots; record the order numpy produced"""
    traces, meta = [], []
    orig_roots = numpy.roots
    for it in range(n):
        k = rnd.randint(2, 6)
        simple = sorted(rnd.sample([0.1, 0.22, 0.37, 0.5, 0.63, 0.78, 0.9], k - 1))
        rts = list(simple)
        kinds = rnd.choice(['dup', 'conj', 'out', 'dup+conj', 'plain'])
        if 'dup' in kinds:
            d = rnd.choice(simple)
            rts += [d + 3e-7]       # nearly coincident pair (numerically a genuinely close pair of roots)
        if 'conj' in kinds:
            rts += [complex(0.45, 0.2), complex(0.45, -0.2)]
        if 'out' in kinds:
            rts += [1.7, -0.4]
        coeffs = numpy.real(numpy.poly(rts))
        raw = list(orig_roots(coeffs))
        out = pt.polyroots01(coeffs)
        # abstract the order numpy produced
        clusters, abs_roots = [], []
        for r in raw:
            if not (abs(r.imag) <= 1e-3):
                kd = 'cx'
            elif 0 <= r.real <= 1:
                kd = 'in'
            else:
                kd = 'out'
            cid = None
            for ci, cv in enumerate(clusters):
                if abs(cv - r) < 1e-4:
                    cid = ci + 1
            if cid is None:
                clusters.append(r)
                cid = len(clusters)
            abs_roots.append({'c': cid, 'k': kd})
        kept = [(a, r) for a, r in zip(abs_roots, raw) if a['k'] == 'in']
        outmask = []
        for a, r in kept:
            outmask.append(1 if any(abs(o - r.real) < 1e-9 for o in out) else 0)
        traces.append([{'roots': abs_roots, 'out': outmask}])
        meta.append({'roots': [str(x) for x in rts], 'numpy_order': [str(x) for x in raw], 'out': [float(o) for o in out]})
        ck.case(fp=('realpoly', it, str(rts)), nontrivial=True)
        # direct check on values too: each prescribed simple root (not the duplicated one) once within 1e-6
        for s in simple:
            if 'dup' in kinds and abs(s - d) < 1e-9:
                continue
            cnt = sum(1 for o in out if abs(o - s) < 1e-5)
            if cnt != 1:
                ck.disagree(key='polyroots/simple-root-%s' % ('lost' if cnt == 0 else 'duplicated'), site='svgpathtools/polytools.py:polyroots',
                            what='polynomial with roots %s: simple root %r returned %d times: %s (numpy order %s)' % (rts, s, cnt, list(out), raw),
                            case=meta[-1], expected='once', observed=[float(o) for o in out], driver='real-polynomials')
                break
    acc, reach = tracecheck.validate(ck, 'Roots_Trace', 'Roots_Trace.cfg', None, traces)
    ck.trace_ok(len(acc))
    ck.sample('roots-trace', {'trace': traces[0], 'meta': meta[0]})
    for i in range(len(traces)):
        if i not in acc:
            ck.disagree(key='polyroots/simple-root-lost', site='svgpathtools/polytools.py:polyroots',
                        what='recorded numpy order %s: survivors %s rejected by Roots_Trace (a simple root is missing)' % (
                            meta[i]['numpy_order'], meta[i]['out']), case=meta[i], expected='every simple admissible root survives',
                        observed=traces[i][0]['out'], driver='roots-trace')


def end_roots_and_dtypes(ck):
    """simple roots exactly on the ends of [0, 1] whose partners lie in the left / right half-plane (all non-constant coefficients of one sign), and the
    same real polynomials handed over as complex arrays, poly1d objects and integer lists: the admissible simple roots come back once each"""
    site = 'svgpathtools/polytools.py:polyroots / polyroots01'
    fams = [([1.0], 'end'), ([1.0, -2.0, -3.0], 'end'), ([1.0, complex(-2, 3), complex(-2, -3)], 'end'), ([0.0, 2.0, 3.0], 'end'), ([0.0, -1.5], 'end'),
            ([0.0, 1.0, -2.0], 'end'), ([1.0, -0.5, -4.0, complex(-1, 1), complex(-1, -1)], 'end'),
            ([0.25, 0.5, 0.75, complex(-1, 2), complex(-1, -2)], 'in'), ([0.125, 0.625, complex(0.5, 0.5), complex(0.5, -0.5)], 'in'), ([0.5, 3.0, -2.0], 'in'),
            # low degrees (closed forms are tempting there): linear, quadratics with a vanishing middle coefficient, with a root at 0, with two admissible roots
            ([0.625], 'in'), ([0.5, -0.5], 'in'), ([0.25, -0.25], 'in'), ([0.25, 0.75], 'in'), ([0.375, 4.0], 'in'), ([0.5, complex(0.0, 1.0), complex(0.0, -1.0)], 'in'),
            ([0.75, -0.75, 0.5], 'in')]
    for rts, kind in fams:
        want = sorted(r.real for r in rts if abs(complex(r).imag) == 0 and 0 <= complex(r).real <= 1)
        base = numpy.real(numpy.poly(rts))
        for lead in (1.0, -3.0, 0.5):
            co = base * lead
            spellings = [('float array', co), ('list', [float(v) for v in co]), ('complex array', numpy.array(co, dtype=complex)), ('poly1d', numpy.poly1d(co)),
                         ('padded with a zero leading coefficient', [0.0] + [float(v) for v in co]), ('padded twice', numpy.array([0.0, 0.0] + [float(v) for v in co]))]
            if all(float(v).is_integer() for v in co):
                spellings.append(('int list', [int(v) for v in co]))
            for how, arg in spellings:
                ck.case(fp=('end-roots', str(rts), lead, how), nontrivial=True)
                try:
                    out = sorted(float(numpy.real(v)) for v in pt.polyroots01(arg))
                    out2 = sorted(float(numpy.real(v)) for v in pt.polyroots(arg, realroots=True, condition=lambda r: 0 <= r <= 1))
                except Exception as e:      # noqa
                    out = out2 = e
                for nm, o in (('polyroots01', out), ('polyroots', out2)):
                    # numpy may return an end root as 1 + 2e-16 / -1e-17 (outside the closed interval by rounding): an end root may then be dropped by the
                    # condition itself - only exactly representable cases are demanded: degree-1 factors with the root computed exactly (t - 1, t)
                    exact_end = kind == 'end' and len(rts) == 1
                    zero_exact = kind == 'end' and 0.0 in rts and co[-1] == 0      # (a vanishing constant term: t = 0 is a root exactly, whatever the solver)
                    need = want if (kind == 'in' or exact_end) else [w for w in want if 0 < w < 1 or (zero_exact and w == 0.0)]
                    ok = not isinstance(o, Exception) and all(sum(1 for v in o if abs(v - w) <= 1e-6) == 1 for w in need) and all(any(abs(v - w) <= 1e-6 for w in want) for v in o)
                    if not ok:
                        ck.disagree(key='polyroots/%s-roots-%s' % (kind, how.replace(' ', '-')), site=site,
                                    what='%s(%s as %s) = %r; roots %s, admissible %s' % (nm, list(co), how, o, rts, want), case={'roots': [str(r) for r in rts], 'how': how, 'lead': lead},
                                    expected=want, observed=repr(o), driver='end-roots')
                        break


def ratlimit(ck, c, sf=1.0, sg=1.0):
    """sf, sg: exact (power of two) factors on numerator / denominator: zeros, orders of vanishing and the existence of the limit do not depend on the unit"""
    f, g, t0 = [v * sf for v in c['f']], [v * sg for v in c['g']], c['t0']
    ck.case(fp=('rl', tuple(f), tuple(g), t0), nontrivial=c['pc'] == 'raise' or (numpy.polyval(g, t0) == 0))
    try:
        got = pt.rational_limit(numpy.poly1d(f), numpy.poly1d(g), t0)
        res = ('return', got)
    except ValueError:
        res = ('raise', None)
    except Exception as e:      # noqa
        res = ('exc ' + type(e).__name__, None)
    ok = res[0] == c['pc']
    if ok and c['pc'] == 'return':
        exp = c['res'][0] / float(c['res'][1]) * sf / sg
        ok = abs(res[1] - exp) <= 1e-12 * max(sf / sg, abs(exp))
    if not ok:
        ck.disagree(key='rational_limit/%s-expected-%s' % (res[0], c['pc']), site='svgpathtools/polytools.py:rational_limit',
                    what='rational_limit(%s, %s, %s) -> %s; expected %s %s' % (f, g, t0, res, c['pc'], c['res']),
                    case=dict(c, sf=sf, sg=sg), expected=[c['pc'], c['res']], observed=str(res), driver='rational_limit')


def run(ck):
    rnd = random.Random(ck.seed)
    quick = ck.tier == 'quick'
    ck.rules.append('identities: case = (control vector, t) from Bezier.tla, degrees 0..8, replayed with Fractions (exact); '
                    'roots: case = ordered abstract root list (every set partition x kind vector up to MaxN); non-trivial = >= 3 admissible '
                    'roots with at least one cluster; rational_limit: every (f,g,t0); real polynomials as traces')
    ck.assumptions += ['closeness of roots is an equivalence (clusters); chains a~b~c with a !~ c are not generated',
                       'identities are linear in the control points: unit vectors x >= n+1 parameter values are unisolvent']
    ck.tlc('Bezier', 'Bezier_MC.cfg', need_actions=['Step'])
    # the degree <= 3 identities over unbounded integers (symbolic), and a perturbed one refuted (non-vacuity)
    ck.apalache('MC_Ident', 'Inv')
    ck.apalache('MC_Ident', 'Wrong', expect_error=True)
    ck.tlc('Bezier', 'Bezier_MC_hi.cfg', need_actions=['Step'])
    rm = open(pm.__file__.rsplit('/', 2)[0] + '/spec/Roots_MC.cfg').read()
    ck.tlc('Roots', rm if quick else rm.replace('MaxN = 5', 'MaxN = 6'), need_actions=['Compare', 'Done'], timeout=3000)
    ck.tlc('RatLimit', 'RatLimit_MC.cfg', need_actions=['Quotient', 'LHopital', 'Raise'])
    dump = 'SPECIFICATION Spec\nCONSTANTS D = %d\n AMin <- %s\n AMax = %d\n MaxDeg = %d\n Dense <- %s\nINVARIANT Dump\n'
    ck.tlc('Bezier', dump % (8, 'MinusTwo', 10, 3, 'Dense3' if quick else 'Dense4'), workers=1, coverage=False, on_case=lambda c: identities(ck, c))
    ck.tlc('Bezier', dump % (3, 'MinusOne', 4, 3, 'Dense3'), workers=1, coverage=False, on_case=lambda c: identities(ck, c))
    ck.tlc('Bezier', dump % (2, 'MinusThree', 5, 8, 'Dense3'), workers=1, coverage=False, on_case=lambda c: identities(ck, c))
    ck.sample('identity', {'P': [0, 0, 1, 0, 0], 'a': 1, 'D': 2})
    # polyroots with the numpy proxy
    proxy = NpProxy()
    old = pt.np
    pt.np = proxy
    try:
        r = ck.tlc('Roots', 'SPECIFICATION Spec\nCONSTANTS MaxN = %d\n Variant = "correct"\nINVARIANT Dump\n' % (5 if quick else 6),
                   workers=1, coverage=False, on_case=lambda c: roots_replay(ck, c, proxy), timeout=3000)
    finally:
        pt.np = old
    ck.sample('roots', {'roots': [{'c': 1, 'k': 'in'}, {'c': 2, 'k': 'in'}, {'c': 1, 'k': 'in'}, {'c': 3, 'k': 'in'}], 'values': '0.08, 0.2, 0.08+1e-8, 0.35'})
    ck.tlc('RatLimit', 'SPECIFICATION Spec\nCONSTANTS CoefSet <- Coefs\n MaxLen = 3\n T0Set <- T0s\nINVARIANT Dump\n', workers=1, coverage=False,
           on_case=lambda c: (ratlimit(ck, c), ratlimit(ck, c, 2.0 ** -40, 2.0 ** -40), ratlimit(ck, c, 1.0, 2.0 ** -36), ratlimit(ck, c, 2.0 ** 30, 2.0 ** -20)))
    real_polynomials(ck, rnd, 300 if quick else 3000)
    end_roots_and_dtypes(ck)


def replay(rec):
    print(rec['what'])
    print('expected:', rec['expected'])
    print('observed:', rec['observed'])
    c = rec['case']
    if 'roots' in c and 'vals' in c:
        proxy = NpProxy()
        proxy.answer = concretise_roots(c['roots'])
        old = pt.np
        pt.np = proxy
        try:
            print('now:', pt.polyroots01([1.0] * (len(c['roots']) + 1)))
        finally:
            pt.np = old
    return 1
