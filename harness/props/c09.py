"""C09 - reversed / split / cropped trace the same curve under the documented parameter map.

P  Bezier.tla: SplitReparam, SplitMeets, RevIdentity (bi-degree grid => decision);
   ArcLattice.tla: ReverseOK, CropOK; TParam.tla: RoundTripT / InOccupancy (path parameters).
G  Bezier segments: the model's split control points (exact, dyadic t) vs split(); reversed() vs
   point(1-t); cropped(t0,t1) for all dyadic t0 < t1 incl. fold-back collinear and self-crossing
   curves.  Arcs: every lattice arc reversed, split and cropped at lattice steps (new large_arc
   on both sides of 180 degrees).  Paths: chains, closed polygons (wrap-around crops), crop points
   on joints, and paths that traverse an equal segment twice.
"""
import cmath
import math
import random
from fractions import Fraction as F

from .. import arcmodel as am
from .. import pathmodel as pm

sp = pm.sp
U = [0.0, 0.25, 0.5, 0.75, 1.0]


def make(z):
    z = pm.typed(z)
    return {2: sp.Line, 3: sp.QuadraticBezier, 4: sp.CubicBezier}[len(z)](*z)


def bez_case(ck, c1, c2, grid, scale=1.0, off=0j):
    P1, P2, a, D = c1['P'], c2['P'], c1['a'], c1['D']
    n = len(P1) - 1
    z = [complex(x, y) * scale + off for x, y in zip(P1, P2)]
    if len(set(z)) == 1:
        return
    seg = make(z)
    t = a / D
    name = type(seg).__name__
    size = max(abs(w) for w in z) + 1
    ck.case(fp=('bez', tuple(P1), tuple(P2), a, scale, off), nontrivial=0 < a < D)
    site = 'svgpathtools/path.py:%s' % name

    def bad(fn, what, exp, obs, extra=None):
        cs = {'P1': P1, 'P2': P2, 'a': a, 'D': D, 'fn': fn}
        cs.update(extra or {})
        ck.disagree(key='%s.%s' % (name, fn), site=site + '.' + fn, what='%s: %s (control points %s)' % (fn, what, z), case=cs,
                    expected=repr(exp), observed=repr(obs), driver='bezier')
        return False
    try:
        if 0 < a < D:
            L, R = seg.split(t)
            eL = [complex(x / float(D ** n), y / float(D ** n)) * scale + off for x, y in zip(c1['L'], c2['L'])]
            eR = [complex(x / float(D ** n), y / float(D ** n)) * scale + off for x, y in zip(c1['R'], c2['R'])]
            if list(L.bpoints()) != eL or list(R.bpoints()) != eR:
                return bad('split', 'split(%r) control points' % t, (eL, eR), (L.bpoints(), R.bpoints()))
            if L.end != R.start or L.end != seg.point(t) or L.start != seg.start or R.end != seg.end:
                return bad('split', 'pieces do not meet at point(t)', seg.point(t), (L.end, R.start))
        rv = seg.reversed()
        if list(rv.bpoints()) != z[::-1]:
            return bad('reversed', 'control points', z[::-1], rv.bpoints())
        for u in grid:
            if not (abs(rv.point(u) - seg.point(1 - u)) <= 1e-12 * size):
                return bad('reversed', 'reversed().point(%r)' % u, seg.point(1 - u), rv.point(u))
        # cropped for every dyadic pair t0 < t1 (from this t on)
        if 0 <= a <= D:
            for b in range(a + 1, D + 1):
                t0, t1 = a / D, b / D
                cr = seg.cropped(t0, t1)
                for u in U:
                    exp = seg.point(t0 + u * (t1 - t0))
                    if not (abs(cr.point(u) - exp) <= 1e-9 * size):
                        kind = 'fold-back/self-crossing' if len(set(P1)) < len(P1) or P1 == P2 else 'generic'
                        return bad('cropped', 'cropped(%r, %r).point(%r) = %r' % (t0, t1, u, cr.point(u)), exp, cr.point(u), {'t0': t0, 't1': t1})
                if type(cr) is not type(seg):
                    return bad('cropped', 'kind changed to %s' % type(cr).__name__, name, type(cr).__name__)
    except Exception as e:      # noqa
        return bad('raises-' + type(e).__name__, 'raised %r' % e, 'value', repr(e))
    return True


def arc_case(ck, c, rnd, full):
    A = c['arc']
    n = abs(A['dl'])
    arc = am.concretise(A)
    size = max(A['r']) + abs(complex(*A['c'])) + 1
    ck.case(fp=('arc', tuple(A['r']), A['phi'], A['th'], A['dl']), nontrivial=True)
    site = 'svgpathtools/path.py:Arc'

    def bad(fn, what, exp, obs):
        ck.disagree(key='Arc.%s' % fn, site=site + '.' + fn.split('/')[0], what='%s for lattice arc %s' % (what, A), case={'arc': A, 'fn': fn},
                    expected=repr(exp), observed=repr(obs), driver='arc')
        return False
    try:
        rv = arc.reversed()
        if bool(rv.sweep) == bool(arc.sweep) or bool(rv.large_arc) != bool(arc.large_arc):
            return bad('reversed/flags', 'flags of reversed()', (arc.large_arc, not arc.sweep), (rv.large_arc, rv.sweep))
        for u in U:
            if not (abs(rv.point(u) - arc.point(1 - u)) <= 1e-6 * size):
                return bad('reversed', 'reversed().point(%r)' % u, arc.point(1 - u), rv.point(u))
        pairs = [(i0, i1) for i0 in range(n) for i1 in range(i0 + 1, n + 1)]
        if not full:
            pairs = rnd.sample(pairs, min(len(pairs), 8)) + [(0, n)] + ([(1, 13)] if n >= 13 else []) + ([(0, 12)] if n >= 12 else [])
        for i0, i1 in pairs:
            t0, t1 = i0 / float(n), i1 / float(n)
            cr = arc.cropped(t0, t1)
            for u in U:
                exp = arc.point(t0 + u * (t1 - t0))
                if not (abs(cr.point(u) - exp) <= 1e-6 * size):
                    side = 'over-180' if i1 - i0 > 12 else ('exactly-180' if i1 - i0 == 12 else 'under-180')
                    return bad('cropped/' + side, 'cropped(%d/%d, %d/%d).point(%r) = %r' % (i0, n, i1, n, u, cr.point(u)), exp, cr.point(u))
            if i1 - i0 != 12 and bool(cr.large_arc) != (i1 - i0 > 12):
                return bad('cropped/large_arc', 'large_arc of a %d-degree crop' % (15 * (i1 - i0)), i1 - i0 > 12, cr.large_arc)
        if n >= 2:
            i = n // 2
            L, R = arc.split(i / float(n))
            if not (abs(L.end - R.start) <= 1e-9 * size) or not (abs(L.end - arc.point(i / float(n))) <= 1e-9 * size):
                return bad('split', 'pieces do not meet at point(t)', arc.point(i / float(n)), (L.end, R.start))
            for u in U:
                if not (abs(L.point(u) - arc.point(u * i / float(n))) <= 1e-6 * size) or not (abs(R.point(u) - arc.point(i / float(n) + u * (1 - i / float(n)))) <= 1e-6 * size):
                    return bad('split', 'split pieces are not the sub-arcs', 'sub-arcs', (L, R))
    except Exception as e:      # noqa
        return bad('raises-' + type(e).__name__, 'raised %r' % e, 'value', repr(e))
    return True


def path_families():
    Ln = sp.Line
    fam = []
    fam.append(('open-chain', sp.Path(Ln(0j, 4 + 0j), Ln(4 + 0j, 4 + 2j), Ln(4 + 2j, 8 + 2j), Ln(8 + 2j, 8 + 10j)), False))
    fam.append(('rectangle', sp.Path(Ln(0j, 6 + 0j), Ln(6 + 0j, 6 + 2j), Ln(6 + 2j, 2j), Ln(2j, 0j)), True))
    fam.append(('there-and-back', sp.Path(Ln(0j, 4 + 0j), Ln(4 + 0j, 0j), Ln(0j, 4 + 0j), Ln(4 + 0j, 4 + 4j)), False))
    fam.append(('rectangle-twice', sp.Path(Ln(0j, 6 + 0j), Ln(6 + 0j, 6 + 2j), Ln(6 + 2j, 2j), Ln(2j, 0j),
                                            Ln(0j, 6 + 0j), Ln(6 + 0j, 6 + 2j), Ln(6 + 2j, 2j), Ln(2j, 0j)), True))
    fam.append(('mixed-closed', sp.Path(Ln(0j, 4 + 0j), sp.CubicBezier(4 + 0j, 6 + 0j, 6 + 4j, 4 + 4j), sp.Arc(4 + 4j, 2 + 2j, 0, False, True, 0 + 4j),
                                         sp.QuadraticBezier(4j, -2 + 2j, 0j)), True))
    fam.append(('two-equal-cubics', sp.Path(sp.CubicBezier(0j, 1 + 2j, 3 + 2j, 4 + 0j), Ln(4 + 0j, 0j), sp.CubicBezier(0j, 1 + 2j, 3 + 2j, 4 + 0j)), False))
    return fam


def path_case(ck, name, p, closed, T0, T1):
    ck.case(fp=('path', name, T0, T1), nontrivial=True)
    L = p.length()
    size = 12.0

    def bad(key, what, exp, obs):
        ck.disagree(key='Path.cropped/' + key, site='svgpathtools/path.py:Path.cropped', what='%s: cropped(%r, %r): %s' % (name, T0, T1, what),
                    case={'family': name, 'T0': T0, 'T1': T1}, expected=repr(exp), observed=repr(obs), driver='path')
        return False
    try:
        cr = p.cropped(T0, T1)
    except Exception as e:      # noqa
        return bad('raises-' + type(e).__name__, 'raised %r' % e, 'path', repr(e))
    if len(cr) == 0:
        return bad('empty', 'returned an empty path', 'pieces', cr)
    # at a pen-up jump of the input one T stands for two points (the end of one sub-path, the start of the next): either is a correct end of the crop
    jumps = [(x.end, y.start) for x, y in zip(p, list(p)[1:]) if x.end != y.start]
    starts = [p.point(T0)] + [s_ for e_, s_ in jumps if abs(p.point(T0) - e_) <= 1e-9 * size]
    ends = [p.point(T1)] + [e_ for e_, s_ in jumps if abs(p.point(T1) - s_) <= 1e-9 * size]
    if not any(abs(cr.start - z_) <= 1e-9 * size for z_ in starts) or not any(abs(cr.end - z_) <= 1e-9 * size for z_ in ends):
        rep = 'repeated-segment' if name in ('there-and-back', 'rectangle-twice', 'two-equal-cubics') else 'endpoints'
        return bad(rep, 'starts at %r / ends at %r' % (cr.start, cr.end), (p.point(T0), p.point(T1)), (cr.start, cr.end))
    breaks = [(x.end, y.start) for x, y in zip(p, list(p)[1:]) if x.end != y.start]      # pen-up jumps of the input: they stay where they are
    for a, b in zip(cr, list(cr)[1:]):
        if not (abs(a.end - b.start) <= 1e-9 * size) and not any(abs(a.end - e_) <= 1e-9 * size and abs(b.start - s_) <= 1e-9 * size for e_, s_ in breaks):
            return bad('pieces-not-joined', 'consecutive pieces %r / %r' % (a, b), 'joined (or one of the jumps %s of the input)' % breaks, (a.end, b.start))
    try:
        want = p.length(T0, T1) if T0 < T1 else p.length(T0, 1) + p.length(0, T1)
    except Exception as e:      # noqa
        return bad('raises-' + type(e).__name__, 'Path.length(T0, T1) raised %r' % e, 'a length', repr(e))
    frac = (T1 - T0) if T0 < T1 else (1 - T0 + T1)
    lines_only = all(isinstance(s, sp.Line) for s in p)
    rep = 'repeated-segment' if name in ('there-and-back', 'rectangle-twice', 'two-equal-cubics') else 'length'
    if not (abs(cr.length() - want) <= 1e-7 * L):
        return bad(rep, 'length %r, length(T0,T1) = %r' % (cr.length(), want), want, cr.length())
    if lines_only:
        # on polylines T is the arc-length fraction, so everything is known in closed form
        if not (abs(want - frac * L) <= 1e-9 * L):
            return bad(rep, 'length(T0,T1) = %r, arc-length fraction gives %r' % (want, frac * L), frac * L, want)
        for u in (0.25, 0.5, 0.75):
            T = (T0 + u * frac) % 1.0
            if not (abs(cr.point(u) - p.point(T)) <= 1e-6 * size):
                return bad('points', 'cropped.point(%r) = %r, path.point(%r) = %r' % (u, cr.point(u), T, p.point(T)), p.point(T), cr.point(u))
    return True


def realise_lengths(lens, closed):
    """a polyline with the given side lengths: a zig-zag when open, the cyclic polygon (all vertices on one circle) when closed; None if no closed polygon exists"""
    n = len(lens)
    if not closed:
        pts, d = [0j], 1 + 0j
        for k, L in enumerate(lens):
            pts.append(pts[-1] + L * d)
            d *= cmath.exp(1j * math.radians(50 if k % 2 == 0 else -35))
        return pts
    if n == 1:
        return None
    if n == 2:
        return [0j, complex(lens[0], 0), 0j] if lens[0] == lens[1] else None
    if not (max(lens) < sum(lens) - max(lens)):
        return None
    # radius of the circumscribed circle: sum of the central angles = 2 pi (centre inside: every side subtends 2 asin(L / 2R)); else the longest side subtends the reflex rest
    def total(R, flip):
        a = [2 * math.asin(min(1.0, L / (2 * R))) for L in lens]
        if flip:
            m = a.index(max(a))
            a[m] = 2 * math.pi - a[m]
        return sum(a), a
    lo = max(lens) / 2.0
    flip = total(lo, False)[0] < 2 * math.pi
    hi = lo * 1e4
    for _ in range(200):
        mid = (lo + hi) / 2
        t = total(mid, flip)[0]
        if (t > 2 * math.pi) != flip:
            lo = mid
        else:
            hi = mid
    R = (lo + hi) / 2
    ang = total(R, flip)[1]
    pts, a = [complex(R, 0)], 0.0
    for x in ang[:-1]:
        a += x
        pts.append(R * cmath.exp(1j * a))
    pts.append(pts[0])
    return pts


def crop_model_case(ck, c):
    lens, closed, D = c['lens'], c['closed'], c['D']
    pts = realise_lengths(lens, closed)
    if pts is None:
        ck.count('crop_model_cases_without_a_polygon')
        return
    segs = [sp.Line(pts[k], pts[k + 1]) for k in range(len(lens))]
    if any(not (abs(sg.length() - L) <= 1e-9 * sum(lens)) for sg, L in zip(segs, lens)):
        ck.count('crop_model_cases_without_a_polygon')
        return
    p = sp.Path(*segs)
    T0, T1 = c['T0'] / float(D), c['T1'] / float(D)
    exp = c['expected']
    ck.case(fp=('crop-model', str(lens), closed, c['T0'], c['T1']), nontrivial=len(exp) > 1)
    tot = float(sum(lens))
    fr = lambda q: q[0] / float(q[1])      # noqa

    def bad(key, what, obs):
        ck.disagree(key='Path.cropped/' + key, site='svgpathtools/path.py:Path.cropped',
                    what='segment lengths %s (%s), cropped(%d/%d, %d/%d): %s; Crop.tla expects the pieces %s' % (lens, 'closed' if closed else 'open', c['T0'], D, c['T1'], D, what,
                                                                                                            [(e['k'], fr(e['a']), fr(e['b'])) for e in exp]),
                    case={'lens': lens, 'closed': closed, 'T0': c['T0'], 'T1': c['T1'], 'D': D}, expected=[(e['k'], fr(e['a']), fr(e['b'])) for e in exp], observed=obs, driver='crop-model')
    try:
        cr = p.cropped(T0, T1)
    except Exception as e:      # noqa
        return bad('raises-' + type(e).__name__, 'raised %r' % e, repr(e))
    got = [(sg.start, sg.end) for sg in cr]
    want = [(segs[e['k']].point(fr(e['a'])), segs[e['k']].point(fr(e['b']))) for e in exp]
    if len(got) != len(want) or any(not (abs(g[0] - w[0]) <= 1e-9 * tot and abs(g[1] - w[1]) <= 1e-9 * tot) for g, w in zip(got, want)):
        # other pieces can trace the same crop: the clauses of the property decide (start, end, consecutive pieces joined or separated by a jump of the input, length,
        # points along the way - on a polyline T is the arc-length fraction); only the piece list of Crop.tla is implementation-shaped
        frac = (T1 - T0) if T0 < T1 else (1 - T0 + T1)
        jumps = [(x.end, y.start) for x, y in zip(p, list(p)[1:]) if x.end != y.start]
        sem = abs(cr.length() - frac * tot) <= 1e-9 * tot and abs(cr.start - want[0][0]) <= 1e-9 * tot and abs(cr.end - want[-1][1]) <= 1e-9 * tot
        sem = sem and all(abs(a_.end - b_.start) <= 1e-9 * tot or any(abs(a_.end - e_) <= 1e-9 * tot and abs(b_.start - s_) <= 1e-9 * tot for e_, s_ in jumps) for a_, b_ in zip(cr, list(cr)[1:]))
        if sem and not jumps:
            sem = all(abs(cr.point(u) - p.point((T0 + u * frac) % 1.0 if (T0 + u * frac) != 1.0 else 1.0)) <= 1e-6 * tot for u in (0.25, 0.5, 0.75))
        if sem:
            ck.drift('Path.cropped/pieces-differ-from-Crop.tla', 'segment lengths %s, cropped(%d/%d, %d/%d): other pieces than the model, same crop: %s' % (lens, c['T0'], D, c['T1'], D, got))
            return
        key = 'wrap-around-ending-at-T1=0' if c['T1'] == 0 else 'pieces-differ-from-Crop.tla'
        bad(key, '%d pieces %s' % (len(got), [(str(a_), str(b_)) for a_, b_ in got][:6]), [(str(a_), str(b_)) for a_, b_ in got])


def histories_and_near_ends(ck):
    site = 'svgpathtools/path.py'
    # (1) a segment that was measured, had a control point reassigned, and is reversed / split / cropped *before* anything else is asked of it
    for cls, z1, z2 in ((sp.QuadraticBezier, (0j, 40 + 100j, 100 + 0j), (0j, 10 + 20j, 100 + 0j)), (sp.CubicBezier, (0j, 40 + 100j, 80 - 60j, 100 + 0j), (0j, 10 + 60j, 80 - 60j, 100 + 0j)),
                        (sp.QuadraticBezier, (-1 + 0j, 3 + 4j, 6 + 0j), (-2 + 0j, 3 + 4j, 6 + 0j)), (sp.Line, (0j, 3 + 4j), (0j, 30 + 40j))):
        names = {2: ('start', 'end'), 3: ('start', 'control', 'end'), 4: ('start', 'control1', 'control2', 'end')}[len(z1)]
        for first in ('reversed', 'split', 'cropped', 'path.reversed'):
            sg = cls(*z1)
            sg.length(), sg.point(0.5), sg.bbox(), sg.bpoints(), sg.split(0.5)
            for nm_, w in zip(names, z2):
                if getattr(sg, nm_) != w:           # (only what changes is assigned: assigning start / end as well could refresh what a handle assignment forgot)
                    setattr(sg, nm_, w)
            fresh = cls(*z2)
            ck.case(fp=('seg-history', cls.__name__, str(z1), first), nontrivial=True)
            try:
                if first == 'reversed':
                    got, want = sg.reversed(), fresh.reversed()
                elif first == 'split':
                    got, want = sg.split(0.4)[1], fresh.split(0.4)[1]
                elif first == 'cropped':
                    got, want = sg.cropped(0.2, 0.7), fresh.cropped(0.2, 0.7)
                else:
                    got, want = sp.Path(sp.Line(-5 - 5j, z2[0]), sg).reversed(), sp.Path(sp.Line(-5 - 5j, z2[0]), fresh).reversed()
                ok = abs(got.length() - want.length()) <= 1e-9 * want.length() and all(abs(got.point(u) - want.point(u)) <= 1e-9 * 150 for u in (0, 0.3, 0.5, 0.8, 1))
            except Exception as e:      # noqa
                ok, got = False, e
            if not ok:
                ck.disagree(key='%s.%s/after-reassigning-a-control-point' % (cls.__name__, first), site=site + ':reversed/split/cropped',
                            what='%s%r measured, control points set to %r, then %s first: %r (length %s), a newly built segment gives %r (length %r)' % (
                                cls.__name__, z1, z2, first, got, getattr(got, 'length', lambda: '?')() if not isinstance(got, Exception) else '?', want, want.length()),
                            case={'cls': cls.__name__, 'z1': [str(w) for w in z1], 'z2': [str(w) for w in z2], 'first': first}, expected=repr(want), observed=repr(got), driver='history')
    # (2) a path that was queried, edited through the list interface, and cropped before anything else is asked of it
    def base():
        return sp.Path(sp.Line(0j, 4 + 0j), sp.Line(4 + 0j, 4 + 2j), sp.CubicBezier(4 + 2j, 6 + 2j, 6 + 6j, 4 + 6j), sp.Line(4 + 6j, 0 + 6j))
    edits = (('append', lambda p: p.append(sp.Line(0 + 6j, -8 + 6j))), ('setitem', lambda p: p.__setitem__(1, sp.Line(4 + 0j, 4 + 2j)) or p.__setitem__(0, sp.Line(-20 + 0j, 4 + 0j))),
             ('insert', lambda p: p.insert(0, sp.Line(-9 - 9j, 0j))), ('delitem', lambda p: p.__delitem__(3)), ('end=', lambda p: setattr(p, 'end', -12 + 6j)),
             ('extend', lambda p: p.extend([sp.Line(0 + 6j, 0 + 20j)])), ('pop', lambda p: p.pop()))
    for ename, edit in edits:
        for T0, T1 in ((0.1, 0.55), (0.3, 0.9), (0.45, 1.0)):
            p = base()
            p.length(), p.point(0.3), p.T2t(0.6), p.cropped(0.2, 0.4)
            edit(p)
            ck.case(fp=('path-history', ename, T0, T1), nontrivial=True)
            fresh = sp.Path(*[type(s_)(*s_.bpoints()) for s_ in p])
            try:
                got, want = p.cropped(T0, T1), fresh.cropped(T0, T1)
                ok = len(got) == len(want) and abs(got.length() - want.length()) <= 1e-9 * want.length() and abs(got.start - want.start) <= 1e-9 * 30 and abs(got.end - want.end) <= 1e-9 * 30
            except Exception as e:      # noqa
                ok, got, want = False, e, None
            if not ok:
                ck.disagree(key='Path.cropped/first-query-after-%s' % ename, site=site + ':Path.cropped / T2t',
                            what='path queried, %s, then cropped(%r, %r) first: %r; a newly built path of the same segments gives %r' % (ename, T0, T1, got, want),
                            case={'edit': ename, 'T0': T0, 'T1': T1}, expected=repr(want), observed=repr(got), driver='history')
                break
    # (2b) members that return to their own start are curves, not points: reversing keeps them
    loop, pin = sp.CubicBezier(1 + 0j, 3 + 2j, 3 - 2j, 1 + 0j), sp.QuadraticBezier(4 + 0j, 4 + 3j, 4 + 0j)
    for tag_, pth in (('line, loop, line', sp.Path(sp.Line(0j, 1 + 0j), loop, sp.Line(1 + 0j, 4 + 0j), pin, sp.Line(4 + 0j, 6 + 1j))), ('loop alone', sp.Path(loop)), ('hair-pin alone', sp.Path(pin))):
        ck.case(fp=('loop-member-reversed', tag_), nontrivial=True)
        try:
            rv = pth.reversed()
            ok = len(rv) == len(pth) and abs(rv.length() - pth.length()) <= 1e-9 * pth.length() and all(abs(rv.point(T_) - pth.point(1 - T_)) <= 1e-6 for T_ in (0, 0.2, 0.37, 0.5, 0.81, 1))
        except Exception as e:      # noqa
            ok, rv = False, e
        if not ok:
            ck.disagree(key='Path.reversed/member-returning-to-its-start', site=site + ':Path.reversed', what='%s: reversed() = %r of %r' % (tag_, rv, pth), case={'path': tag_}, expected='the same members backwards',
                        observed=repr(rv), driver='history')
    # (2c) crops of a path far from the origin, ends a few units / a hair away from the joints: where the ends fall does not depend on where the drawing is
    for off_ in (0j, 1e6 + 2e6j, -4e6 + 5e5j):
        pth = base().translated(off_) if off_ else base()
        L_ = pth.length()
        cum = [0.0]
        for sg_ in pth:
            cum.append(cum[-1] + sg_.length())
        for j_ in (1, 2, 3):
            for d0, d1 in ((-0.9, 1.3), (0.6, 2.2), (-1.7, -0.4), (1e-3, 0.8), (-0.8, -1e-3)):
                T0, T1 = (cum[j_] + d0) / L_, (cum[j_] + d1) / L_
                ck.case(fp=('far-crop', str(off_), j_, d0, d1), nontrivial=True)
                try:
                    cr = pth.cropped(T0, T1)
                    tol_ = 1e-7 + 1e-9 * abs(off_)
                    ok = abs(cr.start - pth.point(T0)) <= tol_ and abs(cr.end - pth.point(T1)) <= tol_ and abs(cr.length() - pth.length(T0, T1)) <= tol_
                    got = (cr.start - off_, cr.end - off_, cr.length())
                except Exception as e:      # noqa
                    ok, got = False, repr(e)
                if not ok:
                    ck.disagree(key='Path.cropped/ends-near-a-joint-far-from-the-origin', site=site + ':Path.cropped', what='path at offset %r: cropped from %g to %g units around joint %d: start, end (minus offset), length = %r; expected %r %r %r' % (
                        off_, d0, d1, j_, got, pth.point(T0) - off_, pth.point(T1) - off_, d1 - d0), case={'off': str(off_), 'joint': j_, 'd0': d0, 'd1': d1}, expected=d1 - d0, observed=repr(got), driver='history')
                    break
    # (2d) T1 < T0 is a wrap-around crop and exists for closed paths only: an open path refuses it (also for T1 = 0 exactly, T0 = 1 exactly)
    for T0, T1 in ((0.3, 0.0), (0.7, 0.0), (0.5, 0.25), (0.9, 0.1), (1.0, 0.5) if False else (0.6, 0.59)):
        pth = base()
        ck.case(fp=('open-path-wrap-around', T0, T1), nontrivial=True)
        try:
            got = pth.cropped(T0, T1)
        except Exception as e:      # noqa
            got = e
        if not isinstance(got, Exception):
            ck.disagree(key='Path.cropped/wrap-around-on-an-open-path', site=site + ':Path.cropped', what='open path: cropped(%r, %r) returned %r (from %r to %r)' % (T0, T1, got, got.start if len(got) else None, got.end if len(got) else None),
                        case={'T0': T0, 'T1': T1}, expected='an exception (the crop would have to pass through a closing joint that does not exist)', observed=repr(got), driver='history')
    # (3) crops that end (start) a hair before (after) the end (start) of a Bezier: no snapping beyond rounding
    for z in ([0j, 40 + 100j, 100 + 0j], [0j, 40 + 100j, 80 - 60j, 100 + 0j], [3 + 1j, 3 + 1j, 9 + 9j, 12 - 3j]):
        sg = make(z)
        n = len(z) - 1
        for t0, t1 in ((0.25, 1 - 2.0 ** -17), (0.5, 1 - 2.0 ** -20), (0.1, 1 - 1e-6), (2.0 ** -30, 0.5), (1e-9, 0.75), (0.25, 1 - 1e-9)):
            cr = sg.cropped(t0, t1)
            ck.case(fp=('near-end-crop', str(z), t0, t1), nontrivial=True)
            for u in (0.0, 0.5, 1.0):
                tq = F(t0) + F(u) * (F(t1) - F(t0))
                ex = sum(F(math.comb(n, i)) * (1 - tq) ** (n - i) * tq ** i * F(int(w.real)) for i, w in enumerate(z))
                ey = sum(F(math.comb(n, i)) * (1 - tq) ** (n - i) * tq ** i * F(int(w.imag)) for i, w in enumerate(z))
                exp = complex(float(ex), float(ey))
                if not (abs(cr.point(u) - exp) <= 1e-11 * 150):
                    ck.disagree(key='%s.cropped/near-the-ends' % type(sg).__name__, site=site + ':crop_bezier',
                                what='%r.cropped(%r, %r).point(%r) = %r, point(t0 + u (t1 - t0)) = %r' % (sg, t0, t1, u, cr.point(u), exp),
                                case={'z': [str(w) for w in z], 't0': t0, 't1': t1}, expected=repr(exp), observed=repr(cr.point(u)), driver='near-ends')
                    break


def run(ck):
    rnd = random.Random(ck.seed)
    quick = ck.tier == 'quick'
    ck.rules.append('Bezier case = (paired control vectors of Bezier.tla, t) with split/reversed and every dyadic crop [t, t1]; arc case = lattice arc '
                    'with crops at lattice steps; path case = (family, T0, T1) on the grid of joints and mid points incl. wrap-around')
    ck.assumptions += ['Bezier split control points compared exactly (integer control points, t = k/8); crops by points (1e-9); arcs 1e-6']
    ck.tlc('Bezier', 'Bezier_MC.cfg', need_actions=['Step'])
    # the degree <= 3 identities over unbounded integers (symbolic), and a perturbed one refuted (non-vacuity)
    ck.apalache('MC_Ident', 'Inv')
    ck.apalache('MC_Ident', 'Wrong', expect_error=True)
    mc = open(pm.__file__.rsplit('/', 2)[0] + '/spec/ArcLattice_MC.cfg').read()
    ck.tlc('ArcLattice', mc.replace('DlsAll', 'DlsSome').replace('PhisA', 'PhisB').replace('CHECK_DEADLOCK', 'INVARIANT CropOK\nCHECK_DEADLOCK'), timeout=3000)
    ck.tlc('TParam', 'TParam_MC.cfg', need_actions=['Advance'])
    dump = 'SPECIFICATION Spec\nCONSTANTS D = 8\n AMin <- Zero\n AMax = 8\n MaxDeg = 3\n Dense <- %s\nINVARIANT Dump\n' % ('Dense3' if quick else 'Dense4')
    r = ck.tlc('Bezier', dump, workers=1, coverage=False)
    groups = {}
    for c in r.cases:
        if len(c['P']) >= 2:
            groups.setdefault((len(c['P']), c['a']), []).append(c)
    for key, lst in sorted(groups.items()):
        m = len(lst)
        for i, c1 in enumerate(lst):
            bez_case(ck, c1, lst[(i * 7 + 3) % m], U)
            if i % 5 == 0:      # exact similarity images: power-of-two scales and integer offsets keep every value dyadic
                bez_case(ck, c1, lst[(i * 3 + 1) % m], U, 2.0 ** -20, 0j)
                bez_case(ck, c1, lst[(i * 3 + 2) % m], U, 2.0 ** 12, complex(2 ** 14, -2 ** 13))
            if i % 2 == 0:
                bez_case(ck, c1, c1, U)           # collinear along the diagonal: fold-backs
    ck.sample('bezier', {'P1': [0, 4, -3, 1], 'P2': [0, 4, -3, 1], 't': '1/8..1'})
    st = {'n': 0}

    def on_arc(c):
        if c['arc']['kind'] == 'fit':
            st['n'] += 1
            if st['n'] % (9 if quick else 2) == 0:
                arc_case(ck, c, rnd, full=not quick and st['n'] % 8 == 0)
    d = ('SPECIFICATION Spec\nCONSTANTS Radii <- RadiiA\n Phis <- PhisB\n Ths <- ThsAll\n Dls <- %s\n Centers <- CentersB\n SmallH <- SmallA\n SmallR <- SmallRA\n'
         'CONSTRAINT AtStart\nINVARIANT Dump\n') % ('DlsSome' if quick else 'DlsAll')
    ck.tlc('ArcLattice', d, workers=1, coverage=False, on_case=on_arc, timeout=3000)
    ck.sample('arc', {'arc': {'r': [5, 3], 'phi': 3, 'th': -4, 'dl': 17}, 'crops': 'all lattice step pairs'})
    disc = [('two-subpaths', sp.Path(sp.Line(0j, 4 + 0j), sp.Line(4 + 0j, 4 + 3j), sp.Line(10 + 1j, 12 + 1j), sp.QuadraticBezier(12 + 1j, 14 + 3j, 12 + 6j)), False),
            ('three-subpaths', sp.Path(sp.CubicBezier(0j, 1 + 2j, 3 + 2j, 4 + 0j), sp.Line(5 + 5j, 5 + 9j), sp.Line(-3 + 0j, -3 - 2j), sp.Line(-3 - 2j, -7 - 2j)), False)]
    for name, p, closed in path_families() + disc:
        # reversed(): same points in opposite order, equal length - on a fresh object and on one whose caches are populated
        for warm in (False, True):
            q = sp.Path(*list(p))
            if warm:
                q.length()
                q.point(0.3)
                q.T2t(0.7)
            rv = q.reversed()
            ck.case(fp=('path-reversed', name, warm), nontrivial=True)
            okr = abs(rv.length() - q.length()) <= 1e-9 * q.length() and rv.reversed() == q
            for T in [0, 0.1, 0.25, 1 / 3.0, 0.5, 0.77, 1]:
                if not (abs(rv.point(T) - q.point(1 - T)) <= 1e-6 * 12):
                    okr = False
            if not okr:
                ck.disagree(key='Path.reversed/%s' % ('after-queries' if warm else 'fresh'), site='svgpathtools/path.py:Path.reversed',
                            what='%s: reversed()%s does not traverse the same points in opposite order with equal length' % (name, ' after length()/point()' if warm else ''),
                            case={'family': name, 'warm': warm}, expected='point(T) = original.point(1-T)', observed=[str(rv.point(0.25)), str(q.point(0.75))], driver='path')
        lens = [s.length() for s in p]
        tot = sum(lens)
        cum = [sum(lens[:i]) / tot for i in range(len(lens) + 1)]
        grid = sorted(set(cum + [(a + b) / 2 for a, b in zip(cum, cum[1:])] + [0.1, 0.9]))
        pairs = [(a, b) for a in grid for b in grid if a < b and not (a == 0 and b == 1)]
        if closed:
            pairs += [(b, a) for a in grid for b in grid if a < b and a > 0 and b < 1]
        if quick:
            pairs = rnd.sample(pairs, min(len(pairs), 60))
        for T0, T1 in pairs:
            path_case(ck, name, p, closed, T0, T1)
    ck.sample('path', {'family': 'rectangle-twice', 'T0': 0.75, 'T1': 0.3})
    # Crop.tla: the piece list of Path.cropped for every path of <= MaxN segments, every T0, T1 on the half-length grid, open and closed
    ck.tlc('Crop', 'Crop_MC.cfg', need_actions=['Locate', 'OnePiece', 'First', 'MiddleCorrect', 'Last'], timeout=3000)
    dcfg = 'SPECIFICATION Spec\nCONSTANTS MaxN = %d\n LenSet <- %s\n Variant = "correct"\nINVARIANT Dump\nCHECK_DEADLOCK FALSE\n'
    stc = {'n': 0}

    def on_crop(c):
        stc['n'] += 1
        if not quick or stc['n'] % 3 == 0:
            crop_model_case(ck, c)
    ck.tlc('Crop', dcfg % (4, 'LenA'), workers=1, coverage=False, on_case=on_crop, timeout=3000)
    if not quick:
        ck.tlc('Crop', dcfg % (4, 'LenB'), workers=1, coverage=False, on_case=on_crop, timeout=3000)
        ck.tlc('Crop', dcfg % (5, 'LenC'), workers=1, coverage=False, on_case=on_crop, timeout=3000)
    ck.count('crop_model_cases', stc['n'])
    histories_and_near_ends(ck)
    # crops shorter than the 1e-8 tolerance of np.isclose that start on a joint: the two normalisations of Path.cropped move the ends past each other
    rect = sp.Path(sp.Line(0j, 6 + 0j), sp.Line(6 + 0j, 6 + 2j), sp.Line(6 + 2j, 2j), sp.Line(2j, 0j))
    for T0, T1, tag in ((0.375, 0.375 + 1e-12, 'from a joint'), (0.5, 1e-12, 'wrap-around ending just after T = 0')):
        ck.case(fp=('crop-sub-tolerance', T0, T1), nontrivial=True)
        want = rect.length(T0, T1) if T0 < T1 else rect.length(T0, 1) + rect.length(0, T1)
        try:
            got = rect.cropped(T0, T1).length()
        except Exception as e:      # noqa
            got = e
        if isinstance(got, Exception) or not (abs(got - want) <= 1e-7 * 16):
            ck.disagree(key='Path.cropped/end-within-1e-8-of-a-joint-crosses-the-other-end', site='svgpathtools/path.py:Path.cropped',
                        what='closed 6x2 rectangle, cropped(%r, %r) (%s): length %r, length(T0, T1) = %r' % (T0, T1, tag, got, want),
                        case={'T0': T0, 'T1': T1}, expected=want, observed=repr(got), driver='path')


def replay(rec):
    print(rec['what'])
    print('expected', rec['expected'], 'observed', rec['observed'])
    return 1
