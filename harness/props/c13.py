"""C13 - radialrange / closest / farthest point return the global extremes of distance.

P  RadialRange.tla: LineMinIsMin / LineMaxAtEnd (closed form for lines), WitnessBounds along the walk
   over the witnesses; Roots.tla SimpleOnce (the critical points come from polyroots01).
G  every (segment, query point) of the model - far, near, on the curve, at the centre of curvature
   of a parabola (clustered critical points), beyond either end - and scaled / translated copies:
   tmin, tmax in [0,1], d = |point(t) - z|, no witness closer than dmin or farther than dmax, exact
   values on lines, 0 for points on the curve; paths: the extreme over all segments with the index
   of the segment attaining it (closest_point_in_path / farthest_point_in_path).
"""
import math
import random

from .. import pathmodel as pm

sp = pm.sp


def make(P, f=lambda w: w):
    z = [f(complex(p[0], p[1])) for p in P]
    z = pm.typed(z)
    return {2: sp.Line, 3: sp.QuadraticBezier, 4: sp.CubicBezier}[len(z)](*z)


def seg_case(ck, c, f=None, tag='plain', scale=1.0, reassigned_from=None):
    f = f or (lambda w: w)
    z = f(complex(*c['z']))
    if reassigned_from is None:
        seg = make(c['seg'], f)
    else:
        # an object that answered a query with other control points and was then edited in place must answer like a fresh one
        seg = make(reassigned_from, f)
        try:
            seg.radialrange(z)
            seg.bbox()
            seg.length()
        except Exception:      # noqa
            pass
        names = {2: ('start', 'end'), 3: ('start', 'control', 'end'), 4: ('start', 'control1', 'control2', 'end')}[len(c['seg'])]
        for nm, w in zip(names, c['seg']):
            setattr(seg, nm, f(complex(w[0], w[1])))
    W, n = c['W'], len(c['seg']) - 1
    wit = [math.sqrt(v / float(c['scale2'])) * scale for v in c['d2']]
    name = type(seg).__name__
    ck.case(fp=('seg', str(c['seg']), str(c['z']), tag), nontrivial=n > 1 or 0 < c['linet'][0] < c['linet'][1])
    size = max(wit) + scale

    def bad(key, what, exp, obs):
        ck.disagree(key='%s.radialrange/%s' % (name, key), site='svgpathtools/path.py:bezier_radialrange/Line.radialrange',
                    what='[%s] radialrange(%r) of %r: %s' % (tag, z, seg, what), case={'seg': c['seg'], 'z': c['z'], 'tag': tag}, expected=repr(exp), observed=repr(obs), driver='segment')
        return False
    try:
        (dmin, tmin), (dmax, tmax) = seg.radialrange(z)
    except Exception as e:      # noqa
        return bad('raises-' + type(e).__name__, 'raised %r' % e, 'extremes', repr(e))
    if not (0 <= tmin <= 1 and 0 <= tmax <= 1):
        return bad('parameter-out-of-range', 't = %r, %r' % (tmin, tmax), '[0,1]', (tmin, tmax))
    if not (abs(abs(seg.point(tmin) - z) - dmin) <= 1e-9 * size) or not (abs(abs(seg.point(tmax) - z) - dmax) <= 1e-9 * size):
        return bad('distance-not-at-parameter', 'd != |point(t) - z|: %r vs %r, %r vs %r' % (dmin, abs(seg.point(tmin) - z), dmax, abs(seg.point(tmax) - z)),
                   (abs(seg.point(tmin) - z), abs(seg.point(tmax) - z)), (dmin, dmax))
    if not (dmin <= min(wit) + 1e-7 * size):
        return bad('closer-witness-exists', 'dmin = %r at t = %r but the witness t = %d/%d is at distance %r' % (dmin, tmin, wit.index(min(wit)), W, min(wit)), min(wit), dmin)
    if not (dmax >= max(wit) - 1e-7 * size):
        return bad('farther-witness-exists', 'dmax = %r at t = %r but the witness t = %d/%d is at distance %r' % (dmax, tmax, wit.index(max(wit)), W, max(wit)), max(wit), dmax)
    if n == 1:
        et = c['linet'][0] / float(c['linet'][1])
        ed = math.sqrt(c['lined2'][0] / float(c['lined2'][1])) * scale
        if not (abs(tmin - et) <= 1e-9) or not (abs(dmin - ed) <= 1e-9 * size):
            return bad('line-projection', '(dmin, tmin) = (%r, %r), projection gives (%r, %r)' % (dmin, tmin, ed, et), (ed, et), (dmin, tmin))
        if not (abs(dmax - max(wit[0], wit[-1])) <= 1e-9 * size) or tmax not in (0, 1):
            return bad('line-farthest', 'dmax = %r at %r, farthest end point is at %r' % (dmax, tmax, max(wit[0], wit[-1])), max(wit[0], wit[-1]), dmax)
    if c['oncurve'] and dmin > 1e-6 * size:
        return bad('on-curve-point', 'z = point(%s/%d) lies on the curve but dmin = %r' % (c['oncurve'], W, dmin), 0, dmin)
    return True


def path_cases(ck, cases, rnd, n):
    by_z = {}
    for c in cases:
        by_z.setdefault(tuple(c['z']), []).append(c)
    zs = sorted(by_z)
    for it in range(n):
        zc = rnd.choice(zs)
        chosen = rnd.sample(by_z[zc], rnd.randint(2, 5))
        segs = [make(c['seg']) for c in chosen]
        z = complex(*zc)
        p = sp.Path(*segs)
        ck.case(fp=('path', str([c['seg'] for c in chosen]), zc), nontrivial=True)
        per = [s.radialrange(z) for s in segs]
        emin = min(r[0][0] for r in per)
        emax = max(r[1][0] for r in per)
        try:
            (dmin, tmin, imin), (dmax, tmax, imax) = p.radialrange(z)
            cp = sp.closest_point_in_path(z, p)
            fp_ = sp.farthest_point_in_path(z, p)
        except Exception as e:      # noqa
            ck.disagree(key='Path.radialrange/raises-' + type(e).__name__, site='svgpathtools/path.py:Path.radialrange', what='raised %r' % e,
                        case={'segs': [c['seg'] for c in chosen], 'z': zc}, expected='extremes', observed=repr(e), driver='path')
            continue
        ok = abs(dmin - emin) <= 1e-9 * (emax + 1) and abs(dmax - emax) <= 1e-9 * (emax + 1)
        ok = ok and abs(abs(segs[imin].point(tmin) - z) - dmin) <= 1e-9 * (emax + 1) and abs(abs(segs[imax].point(tmax) - z) - dmax) <= 1e-9 * (emax + 1)
        ok = ok and tuple(cp) == (dmin, tmin, imin) and tuple(fp_) == (dmax, tmax, imax)
        if not ok:
            ck.disagree(key='Path.radialrange/not-the-extreme-over-segments', site='svgpathtools/path.py:Path.radialrange',
                        what='Path.radialrange(%r) = %r; per-segment extremes %r / %r' % (z, ((dmin, tmin, imin), (dmax, tmax, imax)), emin, emax),
                        case={'segs': [c['seg'] for c in chosen], 'z': zc}, expected=[emin, emax], observed=[dmin, dmax], driver='path')


def line_paths_and_near_misses(ck, cases):
    """(a) every ordered pair of the model's lines (either direction) as a two-piece path that is not connected: the extremes are the extremes over the pieces, wherever on
    a piece they lie (also at the *start* of the second piece); (b) query points next to, but not on, a line: d is the distance, not 0"""
    lines = []
    for c in cases:
        if len(c['seg']) == 2 and c['seg'] not in [l for l in lines]:
            lines.append(c['seg'])
    segs = [make(l) for l in lines] + [make(l[::-1]) for l in lines]
    zs = sorted(set(tuple(c['z']) for c in cases))
    for zc in zs:
        z = complex(*zc)
        for i, a in enumerate(segs):
            for j, b in enumerate(segs):
                if i == j:
                    continue
                p = sp.Path(a, b)
                ck.case(fp=('line-pair-path', i, j, zc), nontrivial=True)
                per = [x.radialrange(z) for x in (a, b)]
                emin, emax = min(r[0][0] for r in per), max(r[1][0] for r in per)
                try:
                    rr, cp, fp_ = p.radialrange(z), sp.closest_point_in_path(z, p), sp.farthest_point_in_path(z, p)
                    ok = abs(rr[0][0] - emin) <= 1e-12 * (emax + 1) and abs(rr[1][0] - emax) <= 1e-12 * (emax + 1) and abs(cp[0] - emin) <= 1e-12 * (emax + 1) and \
                        abs(fp_[0] - emax) <= 1e-12 * (emax + 1) and abs(abs(p[fp_[2]].point(fp_[1]) - z) - emax) <= 1e-9 * (emax + 1) and abs(abs(p[cp[2]].point(cp[1]) - z) - emin) <= 1e-9 * (emax + 1)
                except Exception as e:      # noqa
                    ok, rr, cp, fp_ = False, e, None, None
                if not ok:
                    ck.disagree(key='Path.radialrange/two-disconnected-lines', site='svgpathtools/path.py:Path.radialrange / closest_point_in_path / farthest_point_in_path',
                                what='%r from %r: radialrange %r, closest %r, farthest %r; the pieces give %r / %r' % (p, z, rr, cp, fp_, emin, emax),
                                case={'a': repr(a), 'b': repr(b), 'z': zc}, expected=[emin, emax], observed=repr((cp, fp_)), driver='path')
                    return
    for (a, b, z, dexp, texp) in ((0j, 2e6 + 0j, 1e6 + 0.01j, 0.01, 0.5), (0j, 2e6 + 0j, 5e5 - 0.004j, 0.004, 0.25), (0j, 1e-5 + 0j, 5e-6 + 3e-7j, 3e-7, 0.5),
                                  (0j, 10 + 0j, 10.0000005 + 0j, 5e-7, 1.0), (0j, 10 + 0j, -3e-7j, 3e-7, 0.0), (1 + 1j, 4 + 5j, 1 + 1j + 0.5 * (3 + 4j) + 2e-9 * (4 - 3j), 1e-8, 0.5)):
        ln = sp.Line(a, b)
        ck.case(fp=('line-near-miss', str(a), str(b), str(z)), nontrivial=True)
        try:
            (dmin, tmin), _ = ln.radialrange(z)
            cp = sp.closest_point_in_path(z, sp.Path(sp.Line(a + 9j, b + 9j), ln))
        except Exception as e:      # noqa
            dmin, tmin, cp = e, None, None
        if isinstance(dmin, Exception) or not (abs(dmin - dexp) <= 1e-3 * dexp) or not (abs(tmin - texp) <= 1e-6) or cp[2] != 1 or not (abs(cp[0] - dexp) <= 1e-3 * dexp):
            ck.disagree(key='Line.radialrange/point-next-to-the-line', site='svgpathtools/path.py:Line.radialrange',
                        what='%r, point %r: radialrange min (%r, %r), closest_point_in_path %r; the distance is %r at t = %r' % (ln, z, dmin, tmin, cp, dexp, texp),
                        case={'a': str(a), 'b': str(b), 'z': str(z)}, expected=[dexp, texp], observed=repr((dmin, tmin)), driver='line')

    # (c) a small curve seen from far away: dmin / dmax are the extremes over the curve (an interior extreme beats the end points by less than 1e-5 of the distance),
    #     at the parameters where they are attained; the same through a path (segment index)
    import math
    curves = [sp.QuadraticBezier(0j, 1.5 + 2j, 3 + 0j), sp.CubicBezier(0j, 1 + 2j, 2 + 2j, 3 + 0j), sp.CubicBezier(0j, 1 - 1.5j, 2 + 1.5j, 3 + 0.5j), sp.QuadraticBezier(0j, 2 + 0.3j, 1 + 3j)]
    for cv in curves:
        for dist in (40.0, 5e3, 5e5, 3e7):
            for ang in (90, -90, 35, 200):
                z = cv.point(0.5) + dist * complex(math.cos(math.radians(ang)), math.sin(math.radians(ang)))
                ck.case(fp=('far-query', repr(cv), dist, ang), nontrivial=True)
                ts = [j_ / 4096.0 for j_ in range(4097)]
                ds = [abs(cv.point(t_) - z) for t_ in ts]
                emin, emax = min(ds), max(ds)
                try:
                    (dmin, tmin), (dmax, tmax) = cv.radialrange(z)
                    pth = sp.Path(sp.Line(cv.start - 2 - 1j, cv.start), cv)
                    cp_, fp_ = sp.closest_point_in_path(z, pth), sp.farthest_point_in_path(z, pth)
                    tol_ = 1e-6 + 4e-15 * dist * 64
                    ok = dmin <= emin + tol_ and dmax >= emax - tol_ and abs(abs(cv.point(tmin) - z) - dmin) <= tol_ and abs(abs(cv.point(tmax) - z) - dmax) <= tol_ and \
                        abs(abs(pth[cp_[2]].point(cp_[1]) - z) - cp_[0]) <= tol_ and abs(abs(pth[fp_[2]].point(fp_[1]) - z) - fp_[0]) <= tol_ and \
                        cp_[0] <= min(emin, abs(pth[0].start - z)) + tol_ and fp_[0] >= max(emax, abs(pth[0].start - z)) - tol_
                    got = ((dmin, tmin), (dmax, tmax), cp_, fp_)
                except Exception as e:      # noqa
                    ok, got = False, repr(e)
                if not ok:
                    ck.disagree(key='%s.radialrange/small-curve-seen-from-far-away' % type(cv).__name__, site='svgpathtools/path.py:bezier_radialrange', what='%r from %r (distance %g): %r; 4097 witnesses span [%r, %r]' % (cv, z, dist, got, emin, emax),
                                case={'curve': repr(cv), 'dist': dist, 'ang': ang}, expected=[emin, emax], observed=repr(got), driver='far')
                    break


def run(ck):
    rnd = random.Random(ck.seed)
    quick = ck.tier == 'quick'
    ck.rules.append('case = (lattice segment, lattice query point) of RadialRange.tla, plain and under a similarity; path case = 2-5 model segments '
                    'with a common query point; non-trivial = curved segment, or a projection falling inside a line')
    ck.assumptions += ['optimality between the witnesses t = j/8 (j/10 thorough: the exact squared distances must stay below 2^31) is not decided for curves; lines are exact']
    mc = open(pm.__file__.rsplit('/', 2)[0] + '/spec/RadialRange_MC.cfg').read()
    ck.tlc('RadialRange', mc, need_actions=['Step'])
    ck.tlc('Roots', 'Roots_MC.cfg', need_actions=['Compare', 'Done'])
    r = ck.tlc('RadialRange', 'SPECIFICATION Spec\nCONSTANTS W = %d\n Segs <- SegsA\n Pts <- PtsA\nCONSTRAINT AtStart\nINVARIANT Dump\n' % (8 if quick else 10),
               workers=1, coverage=False)
    import cmath
    w = cmath.exp(1j * math.radians(30))
    bydeg = {}
    for c in r.cases:
        bydeg.setdefault(len(c['seg']), [])
        if c['seg'] not in bydeg[len(c['seg'])]:
            bydeg[len(c['seg'])].append(c['seg'])
    for c in r.cases:
        seg_case(ck, c)
        others = [sg for sg in bydeg[len(c['seg'])] if sg != c['seg']]
        if others:
            seg_case(ck, c, None, 'reassigned control points', 1.0, reassigned_from=others[(c['z'][0] + c['z'][1]) % len(others)])
        seg_case(ck, c, lambda v: 1e-3 * v + (2 - 5j), 'scaled 1e-3 + offset', 1e-3)
        seg_case(ck, c, lambda v: 1e4 * w * v, 'rotated 30 deg, scaled 1e4', 1e4)
    ck.sample('segment', r.cases[len(r.cases) // 2])
    path_cases(ck, r.cases, rnd, 80 if quick else 600)
    line_paths_and_near_misses(ck, r.cases)


def replay(rec):
    print(rec['what'])
    print('expected', rec['expected'], 'observed', rec['observed'])
    return 1
