"""C17 - SVG flattening applies shape conversion and nested transforms per the SVG spec.

P  SvgDoc.tla: StackEqualsRecursive / PartialOK (the explicit-stack traversal = the recursive product
   of ancestor transforms, outermost first), TreeOK, ShapesClosed; Affine.tla: list = product.
G  every document tree of SvgDoc.tla (all shape kinds, 10 transform lists, groups nested to the
   bound; deeper ones by simulation) is rendered to SVG text with ids and read by Document.paths(),
   paths_from_group (every group; recursive and not; by element and by nested id names), svg2paths
   (no transforms, by design) and SaxDocument.flatten_all_paths(); each returned path is compared,
   by element id, with the model's shape geometry mapped by the model's matrix.
"""
import math
import os
import random
import shutil
import tempfile

from .. import svgmodel as sm

sp = sm.sp


def check_doc(ck, case, rnd, tmp, do_sax=True):
    nodes = case['nodes']
    n = len(nodes)
    shapes = [k for k in range(1, n + 1) if nodes[k - 1]['kind'] != 'g']
    if not shapes:
        return
    # attribute values: small integers, or the same shapes scaled and moved to coordinates that need many significant digits
    G = None if rnd.random() < 0.6 else rnd.choice([(12.0625, 350218.4375), (1e-3, 0.000123456789), (3.0, -77.7), (1.0, 3000000.25)])
    text = sm.render(case, rnd, G=G)
    fn = os.path.join(tmp, 'doc.svg')
    with open(fn, 'w') as f:
        f.write(text)
    depth = {1: 0}
    for k in range(2, n + 1):
        depth[k] = depth[nodes[k - 1]['parent']] + 1
    nested_tf = sum(1 for k in range(1, n + 1) if case['lists'][k - 1])
    ck.case(fp=text, nontrivial=nested_tf >= 1)
    ck.sample('doc/%d' % n, {'svg': text})
    refs = {k: sm.ref_segments(nodes[k - 1]['kind'], case['attrs'][k - 1], case['geom'][k - 1]) for k in shapes}
    ID = [1, 0, 0, 1, 0, 0]

    def withG(M, k):
        # shape(attrs scaled by G) = G(shape(attrs)); <path> elements keep their d-string
        if G is None or nodes[k - 1]['kind'] == 'path':
            return M
        sc, off = G
        return [M[0] * sc, M[1] * sc, M[2] * sc, M[3] * sc, M[0] * off + M[2] * off + M[4], M[1] * off + M[3] * off + M[5]]

    def bad(api, key, what, exp=None, obs=None):
        ck.disagree(key='%s/%s' % (api, key), site='svgpathtools/' + {'Document': 'document.py', 'svg2paths': 'svg_to_paths.py', 'SaxDocument': 'svg_io_sax.py'}[api.split('.')[0]],
                    what='%s: %s\n%s' % (api, what, text), case={'case': case, 'svg': text, 'api': api}, expected=exp, observed=obs, driver='flatten')

    def kinds_of(k):
        nd = nodes[k - 1]
        tfs = [o['k'] for j in chain(k) for o in case['lists'][j - 1]]
        has_arc = nd['kind'] in ('rrect', 'circle', 'ellipse') or (nd['kind'] == 'path' and case['attrs'][k - 1]['d'] == 1)
        return nd['kind'], has_arc, bool(tfs)

    def chain(k):
        out = []
        while k:
            out.append(k)
            k = nodes[k - 1]['parent']
        return out[::-1]

    def compare_all(api, got, expect_M, ids_expected):
        """got: dict id -> path"""
        if set(got) != set('n%d' % k for k in ids_expected):
            bad(api, 'wrong-element-set', 'returned elements %s, expected %s' % (sorted(got), sorted('n%d' % k for k in ids_expected)),
                sorted('n%d' % k for k in ids_expected), sorted(got))
            return
        for k in ids_expected:
            M = withG(expect_M(k), k)
            diff = sm.compare_path(list(got['n%d' % k]), refs[k], M, tol=1e-6 if G is None else 1e-9 * 4e5)
            if diff:
                kind, has_arc, has_tf = kinds_of(k)
                if kind == 'rrect' and len(got['n%d' % k]) == 4:
                    key = 'rounded-rect-returned-as-plain-rect'
                else:
                    key = 'geometry/%s%s%s' % (kind, '/arc' if has_arc else '', '/transformed' if has_tf and M != ID else '')
                bad(api, key, 'element n%d (%s): %s' % (k, kind, diff), 'model geometry mapped by %s' % M, diff)
                return
    # ---- Document
    try:
        doc = sp.Document(fn)
        paths = doc.paths()
        got = {}
        for p in paths:
            got[p.element.get('id')] = p
        if len(paths) != len(got):
            bad('Document.paths', 'duplicate-elements', 'an element was returned twice', len(got), len(paths))
        compare_all('Document.paths', got, lambda k: case['flat'][k - 1], shapes)
        # paths_from_group for every group
        for g in range(2, n + 1):
            if nodes[g - 1]['kind'] != 'g':
                continue
            names = ['n%d' % j for j in chain(g)[1:]]
            for recursive in (True, False):
                under = [k for k in shapes if (g in chain(k)[:-1] if recursive else nodes[k - 1]['parent'] == g)]
                for how in ('names', 'element'):
                    grp = list(names) if how == 'names' else doc.get_group(list(names))
                    try:
                        ps = doc.paths_from_group(grp, recursive=recursive)
                    except Exception as e:      # noqa
                        bad('Document.paths_from_group', 'raises-' + type(e).__name__, 'group %s recursive=%s raised %r' % (names, recursive, e))
                        continue
                    compare_all('Document.paths_from_group', {p.element.get('id'): p for p in ps}, lambda k: case['flat'][k - 1], under)
        # a history on the same Document: query (above), edit a transform attribute through the ElementTree API the class hands out, query again
        kx = rnd.choice(shapes)
        el = next(e_ for e_ in doc.tree.getroot().iter() if e_.get('id') == 'n%d' % kx)
        el.set('transform', ((el.get('transform') or '') + ' translate(7,-3)').strip())
        def edited(q):
            M = case['flat'][q - 1]
            return M if q != kx else [M[0], M[1], M[2], M[3], M[0] * 7 - M[2] * 3 + M[4], M[1] * 7 - M[3] * 3 + M[5]]
        compare_all('Document.paths', {p_.element.get('id'): p_ for p_ in doc.paths()}, edited, shapes)
        par = nodes[kx - 1]['parent']
        if par and par != 1:
            ps = doc.paths_from_group(['n%d' % j for j in chain(par)[1:]], recursive=False)
            compare_all('Document.paths_from_group', {p_.element.get('id'): p_ for p_ in ps}, edited, [q for q in shapes if nodes[q - 1]['parent'] == par])
    except Exception as e:      # noqa
        import traceback
        kd = sorted(set(nodes[k - 1]['kind'] for k in shapes))
        tfd = any(case['flat'][k - 1] != ID for k in shapes)
        bad('Document.paths', 'raises-%s%s' % (type(e).__name__, '/arc-under-transform' if tfd and any(kinds_of(k)[1] for k in shapes) else ''),
            'raised %r (%s)' % (e, traceback.format_exc().splitlines()[-3].strip()), 'paths', repr(e))
    # ---- svg2paths: transforms ignored by design
    try:
        paths, attrs = sp.svg2paths(fn)
        got = {a.get('id'): p for p, a in zip(paths, attrs)}
        compare_all('svg2paths', got, lambda k: ID, shapes)
    except Exception as e:      # noqa
        bad('svg2paths', 'raises-' + type(e).__name__, 'raised %r' % e, 'paths', repr(e))
    # ---- SaxDocument
    if do_sax:
        try:
            sax = sp.SaxDocument(fn)
            flat = sax.flatten_all_paths()
            got = {v.get('id'): p for v, p in zip(sax.tree, flat)}
            compare_all('SaxDocument.flatten_all_paths', got, lambda k: case['flat'][k - 1], shapes)
        except Exception as e:      # noqa
            has_line = any(nodes[k - 1]['kind'] == 'line' for k in shapes)
            bad('SaxDocument.flatten_all_paths', 'raises-%s%s' % (type(e).__name__, '/line-element' if has_line and isinstance(e, AttributeError) else ''),
                'raised %r' % e, 'paths', repr(e))


def mirror_hidden_in_the_product(ck, tmp):
    """arcs under transform chains whose mirror-ness does not show on the diagonal of the product (an axis swap, skews around a reflection, rotate . skew):
    whether the image of an arc runs the other way round is decided by the determinant"""
    import numpy as np
    T = lambda a, b, c, d, e, f: np.array([[a, c, e], [b, d, f], [0, 0, 1.0]])      # noqa
    t60 = math.tan(math.radians(60))
    c60, s60 = math.cos(math.radians(60)), math.sin(math.radians(60))
    chains = [[('matrix(0 1 1 0 0 0)', T(0, 1, 1, 0, 0, 0))],
              [('skewX(60)', T(1, 0, t60, 1, 0, 0)), ('scale(-1,1)', T(-1, 0, 0, 1, 0, 0)), ('skewY(60)', T(1, t60, 0, 1, 0, 0))],
              [('rotate(60) skewX(-70)', T(c60, s60, -s60, c60, 0, 0).dot(T(1, 0, math.tan(math.radians(-70)), 1, 0, 0)))],
              [('translate(3,1)', T(1, 0, 0, 1, 3, 1)), ('matrix(0 2 1 0 5 -2)', T(0, 2, 1, 0, 5, -2))],
              [('scale(1,-1)', T(1, 0, 0, -1, 0, 0)), ('rotate(90)', T(0, 1, -1, 0, 0, 0))]]
    # rotate(a, cx, cy) = translate(cx, cy) rotate(a) translate(-cx, -cy), also when the centre lies on a coordinate axis
    def R(a, cx, cy):
        c_, s_ = math.cos(math.radians(a)), math.sin(math.radians(a))
        return T(1, 0, 0, 1, cx, cy).dot(T(c_, s_, -s_, c_, 0, 0)).dot(T(1, 0, 0, 1, -cx, -cy))
    # transforms that differ from the identity in the sixth digit are transforms
    chains += [[('scale(1.000005)', T(1.000005, 0, 0, 1.000005, 0, 0))], [('scale(1.000004)', T(1.000004, 0, 0, 1.000004, 0, 0)), ('scale(0.999997)', T(0.999997, 0, 0, 0.999997, 0, 0))],
               [('translate(0.00002,0)', T(1, 0, 0, 1, 0.00002, 0))], [('matrix(1 0.000006 0 1 0 0)', T(1, 0.000006, 0, 1, 0, 0))]]
    chains += [[('rotate(90 4 0)', R(90, 4, 0))], [('rotate(-30, 0, 5)', R(-30, 0, 5))], [('rotate(45 3 2)', R(45, 3, 2))], [('rotate(120,0,0)', R(120, 0, 0))],
               [('translate(2,0)', T(1, 0, 0, 1, 2, 0)), ('rotate(60 0 -7)', R(60, 0, -7))], [('rotate(10 6 0) scale(2)', R(10, 6, 0).dot(T(2, 0, 0, 2, 0, 0)))]]
    ref = list(sp.parse_path(sm.PATH_D[1]))
    for ci, chain_ in enumerate(chains):
        M = np.eye(3)
        for _, m_ in chain_:
            M = M.dot(m_)
        M6 = [M[0, 0], M[1, 0], M[0, 1], M[1, 1], M[0, 2], M[1, 2]]
        body = '<path id="p" d="%s"/>' % sm.PATH_D[1]
        for txt, _ in reversed(chain_):
            body = '<g transform="%s">%s</g>' % (txt, body)
        text = '<svg xmlns="%s" version="1.1">%s</svg>' % (sm.NS, body)
        fn = os.path.join(tmp, 'mirror%d.svg' % ci)
        with open(fn, 'w') as f:
            f.write(text)
        for who, f_ in (('Document.paths', lambda: sp.Document(fn).paths()), ('SaxDocument.flatten_all_paths', lambda: sp.SaxDocument(fn).flatten_all_paths())):
            ck.case(fp=('mirror-hidden', ci, who), nontrivial=True)
            try:
                got = f_()
                diff = sm.compare_path(list(got[0]), ref, M6, tol=1e-6) if len(got) == 1 else 'returned %d paths' % len(got)
            except Exception as e:      # noqa
                diff = 'raised %r' % e
            if diff:
                ck.disagree(key='%s/geometry/path/arc/mirror-hidden-in-the-product' % who, site='svgpathtools/path.py:transform (Arc)',
                            what='%s of %s: %s' % (who, text, diff), case={'svg': text}, expected='the arc path mapped by %s' % M6, observed=diff, driver='flatten')


def string_entry_point_flags(ck):
    """svgstr2paths is svg2paths on a string: the conversion flags mean the same elements"""
    text = ('<svg xmlns="%s" version="1.1"><polyline id="pl" points="0,0 4,0 4,3"/><polygon id="pg" points="10,0 14,0 12,3"/><line id="ln" x1="0" y1="9" x2="5" y2="9"/>'
            '<rect id="r" x="1" y="1" width="2" height="2"/><circle id="c" cx="20" cy="20" r="2"/><ellipse id="e" cx="30" cy="20" rx="3" ry="1"/><path id="p" d="M0,20 L5,25"/></svg>') % sm.NS
    flags = ['convert_circles_to_paths', 'convert_ellipses_to_paths', 'convert_lines_to_paths', 'convert_polylines_to_paths', 'convert_polygons_to_paths', 'convert_rectangles_to_paths']
    starts = {'convert_polylines_to_paths': 0j, 'convert_polygons_to_paths': 10 + 0j, 'convert_lines_to_paths': 9j, 'convert_rectangles_to_paths': 1 + 1j}
    import itertools, tempfile
    fn = os.path.join(tempfile.mkdtemp(prefix='c17s_'), 'flags.svg')
    with open(fn, 'w') as f:
        f.write(text)
    try:
        for off in [()] + [(f_,) for f_ in flags] + [('convert_polylines_to_paths', 'convert_lines_to_paths'), ('convert_polygons_to_paths', 'convert_circles_to_paths')]:
            kw = {f_: (f_ not in off) for f_ in flags}
            ck.case(fp=('svgstr2paths-flags', off), nontrivial=True)
            try:
                a_ = sp.svgstr2paths(text, **kw)[0]
                b_ = sp.svg2paths(fn, **kw)[0]
                key_ = lambda L_: sorted((len(p_), round(p_[0].start.real, 6), round(p_[0].start.imag, 6)) for p_ in L_)      # noqa
                ok = key_(a_) == key_(b_) and len(a_) == 7 - len(off) and all(not any(abs(p_[0].start - starts[f_]) <= 1e-9 for p_ in a_) for f_ in off if f_ in starts)
            except Exception as e:      # noqa
                ok, a_, b_ = False, e, None
            if not ok:
                ck.disagree(key='svgstr2paths/conversion-flags', site='svgpathtools/svg_to_paths.py:svgstr2paths', what='flags off %s: svgstr2paths gives %r, svg2paths on the same text as a file %r' % (off, a_, b_), case={'off': list(off)},
                            expected='the same paths, the switched-off kinds missing', observed=repr(a_), driver='flatten')
    finally:
        shutil.rmtree(os.path.dirname(fn), ignore_errors=True)


def foreign_namespace_elements(ck, tmp):
    """elements of another namespace whose local names are those of SVG shapes (editor payloads, metadata) are not SVG shapes: every reader returns the SVG
    elements only, in place, with the transforms of their ancestors"""
    text = ('<svg xmlns="%s" xmlns:ed="http://example.org/editor" version="1.1">'
            '<metadata><ed:rect x="1" y="1" width="3" height="3"/><ed:path d="M0,0 L9,9"/></metadata>'
            '<g transform="translate(10,0)"><ed:line x1="0" y1="0" x2="5" y2="5"/><path id="a" d="M0,0 L4,0 L4,3"/><ed:circle cx="1" cy="1" r="1"/></g>'
            '<ed:polygon points="0,0 1,1 2,0"/><line id="b" x1="1" y1="2" x2="3" y2="4"/><ed:polyline points="0,0 1,1"/><ed:ellipse cx="0" cy="0" rx="2" ry="1"/></svg>') % sm.NS
    fn = os.path.join(tmp, 'foreign.svg')
    with open(fn, 'w') as f:
        f.write(text)
    want = [sp.parse_path('M10,0 L14,0 L14,3'), sp.parse_path('M1,2 L3,4')]
    readers = [('Document.paths', lambda: sp.Document(fn).paths()), ('SaxDocument.flatten_all_paths', lambda: sp.SaxDocument(fn).flatten_all_paths()),
               ('svg2paths', lambda: sp.svg2paths(fn)[0])]
    for who, f_ in readers:
        ck.case(fp=('foreign-namespace', who), nontrivial=True)
        try:
            got = list(f_())
            if who == 'svg2paths':
                want_ = [sp.parse_path('M0,0 L4,0 L4,3'), sp.parse_path('M1,2 L3,4')]       # svg2paths does not flatten
            else:
                want_ = want
            same = lambda g_, w_: len(g_) == len(w_) and all(abs(a_.start - b_.start) <= 1e-9 and abs(a_.end - b_.end) <= 1e-9 for a_, b_ in zip(g_, w_))      # noqa
            ok = len(got) == len(want_) and all(any(same(g_, w_) for g_ in got) for w_ in want_)      # (the order of the returned list is not part of the claim)
        except Exception as e:      # noqa
            ok, got = False, repr(e)
        if not ok:
            ck.disagree(key='%s/elements-of-a-foreign-namespace' % who, site='svgpathtools/svg_io_sax.py / document.py / svg_to_paths.py', what='%s of a document with foreign-namespace elements named like shapes: %r' % (who, got),
                        case={'svg': text}, expected=[repr(w_) for w_ in want], observed=repr(got), driver='flatten')


def run(ck):
    rnd = random.Random(ck.seed)
    quick = ck.tier == 'quick'
    ck.rules.append('case = one document tree of SvgDoc.tla rendered to SVG text; distinct by the text; non-trivial = at least one transform '
                    'attribute; each case is read through 4 APIs (Document.paths, paths_from_group x groups x recursive x addressing, svg2paths, SaxDocument)')
    ck.assumptions += ['shape attributes are small integers; transform lists are the 10 of SvgDoc!TfLists (invertible matrices only)',
                       'circle/ellipse are compared as a closed outline of arcs on the mapped ellipse through its four quadrant points (the start point is not prescribed)',
                       'rect radii: absent / present / larger than half the side (clamped); negative and percentage values are not generated']
    ck.tlc('SvgDoc', 'SvgDoc_MC.cfg', need_actions=['AddNode', 'StartFlat', 'PopGroup', 'Finish'])
    ck.tlc('Affine', 'Affine_MC.cfg', need_actions=['Push'])
    # the algebra for ALL integer matrices / points (Apalache, unbounded): composition, associativity, det, evaluation commutes, area scales by det
    ck.apalache('MC_Affine', 'Inv')
    ck.apalache('MC_Affine', 'Wrong', expect_error=True)
    tmp = tempfile.mkdtemp(prefix='c17_')
    try:
        allk = '{"path", "line", "polyline", "polygon", "rect", "rrect", "circle", "ellipse"}'
        d = 'SPECIFICATION Spec\nCONSTANTS MaxNodes = %d\n ShapeKinds = %s\n TfCount = %d\n RootTfs = {1}\nINVARIANT Dump\n'
        st = {'n': 0}

        def on_case(c, every=1):
            st['n'] += 1
            if st['n'] % every == 0:
                check_doc(ck, c, rnd, tmp)
        # exhaustive: root + 2 nodes (every kind x every transform list x both nestings)
        ck.tlc('SvgDoc', d % (3, allk, 10), workers=1, coverage=False, on_case=lambda c: on_case(c, 3 if quick else 1), timeout=3000)
        # a transform on the root <svg> element itself (an ancestor like any other)
        ck.tlc('SvgDoc', (d % (3, '{"line", "circle", "rrect"}', 5)).replace('RootTfs = {1}', 'RootTfs = {2, 3, 5}'), workers=1, coverage=False,
               on_case=lambda c: on_case(c, 4 if quick else 1), timeout=3000)
        # deeper / wider trees by simulation
        # all nestings of root + 3 nodes (grandchild groups) for a reduced alphabet
        ck.tlc('SvgDoc', d % (4, '{"line", "circle"}', 3), workers=1, coverage=False, on_case=lambda c: on_case(c, 2 if quick else 1), timeout=3000)
        # chains of three and four nested groups (root + 4 / + 5 nodes), lines only: what is below a requested group at depth >= 2
        def deep_first(c):
            # every tree with a shape under three groups, a third of those with a shape under two (plus the root: two transformed ancestors of a requested group), a sample of the rest
            nd_ = c['nodes']
            dep = {1: 0}
            for k_ in range(2, len(nd_) + 1):
                dep[k_] = dep[nd_[k_ - 1]['parent']] + 1
            md = max([dep[k_] for k_ in dep if nd_[k_ - 1]['kind'] != 'g'], default=-1)
            st['deep'] = st.get('deep', 0) + 1
            if md >= 4 or (md == 3 and (not quick or st['deep'] % 3 == 0)):
                st['n'] += 1
                check_doc(ck, c, rnd, tmp)
            else:
                on_case(c, 17 if quick else 2)
        ck.tlc('SvgDoc', d % (5, '{"line"}', 3), workers=1, coverage=False, on_case=deep_first, timeout=3000)      # translate / scale: do not commute
        ck.tlc('SvgDoc', d % (6, '{"line"}', 1), workers=1, coverage=False, on_case=lambda c: on_case(c, 5 if quick else 1), timeout=3000)
        for nn, num in ((5, 6), (7, 3)) if quick else ((5, 60), (7, 40), (9, 10)):
            ck.tlc('SvgDoc', d % (nn, allk, 10), workers=1, coverage=False, simulate=num, depth=2 * nn + 3, on_case=on_case, timeout=3000)
        ck.count('documents', st['n'])
        mirror_hidden_in_the_product(ck, tmp)
        foreign_namespace_elements(ck, tmp)
        string_entry_point_flags(ck)
    finally:
        shutil.rmtree(tmp, ignore_errors=True)


def replay(rec):
    c = rec['case']
    print(rec['what'])
    print('expected:', rec['expected'])
    print('observed:', rec['observed'])
    return 1
