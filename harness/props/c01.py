"""C01 - Path.d() output parses back to the same path, under every option.

P  PathD.tla: RoundTrip / NoDrop / ... over every lattice path x 8 option combinations (TLC).
G  every model path is built as a real Path; (i) parse_path(p.d(**o)) ~ p under C01's relation,
   on the integer lattice (exact), on exact affine images (tiny / huge / exponent-formatted
   doubles, exact), and on a seeded injective map into "nasty" doubles; (ii) the *model*
   serialiser's command list, rendered to text, is parsed by the real parser and must give p.
V  the tokens of the real d() output are lexed by the reference grammar and replayed through
   PathData_Trace.tla: the spec's semantics of what d() wrote must be the original segments
   (robust to any legitimate change of the emitted text).
"""
import random
import re
from fractions import Fraction

from .. import pathmodel as pm
from .. import tracecheck

sp = pm.sp
OPTS = [dict(useSandT=st, use_closed_attrib=z, rel=rel) for st in (False, True) for z in (False, True) for rel in (False, True)]
# same order as PathD!OptSeq
OPTSEQ = [dict(useSandT=st, use_closed_attrib=z, rel=rel) for st in (False, True) for z in (False, True) for rel in (False, True)]


def pts_of(seg):
    if isinstance(seg, sp.Line):
        return [seg.start, seg.end]
    if isinstance(seg, sp.QuadraticBezier):
        return [seg.start, seg.control, seg.end]
    if isinstance(seg, sp.CubicBezier):
        return [seg.start, seg.control1, seg.control2, seg.end]
    return [seg.start, seg.end]


def same_seg(a, b, tol):
    if type(a) is not type(b):
        return False
    for x, y in zip(pts_of(a), pts_of(b)):
        if tol == 0:
            if x != y:
                return False
        elif not (abs(x - y) <= tol):
            return False
    if isinstance(a, sp.Arc):
        if bool(a.large_arc) != bool(b.large_arc) or bool(a.sweep) != bool(b.sweep) or a.rotation != b.rotation:
            return False
        for u, v in ((a.radius.real, b.radius.real), (a.radius.imag, b.radius.imag)):
            if not (abs(u - v) <= 1e-12 * max(abs(u), abs(v)) + tol):
                return False
    return True


def same_path(p, q, tol, rel, allow_closing_line=False):
    """C01's relation.  tol = 0: points must be equal as floats."""
    p, q = list(p), list(q)
    if len(q) == len(p) + 1 and allow_closing_line and rel:
        extra = q[-1]
        if isinstance(extra, sp.Line) and abs(extra.end - extra.start) <= tol and not isinstance(p[-1], sp.Line):
            q = q[:-1]
    if len(p) != len(q):
        return False
    return all(same_seg(a, b, tol) for a, b in zip(p, q))


def closed_by_curve(p):
    return p.iscontinuous() and p.start == p.end and not isinstance(p[-1], sp.Line)


def roundtrip(ck, p, o, tol, abstract, tag):
    try:
        d = p.d(**o)
        q = sp.parse_path(d)
        ok = same_path(p, q, tol, o['rel'], allow_closing_line=tol > 0)
        exc = None
    except Exception as e:      # noqa
        d, q, ok, exc = None, None, False, e
    if ok:
        return d
    if o['use_closed_attrib'] and closed_by_curve(p) and exc is None and (len(q) != len(p) or type(q[-1]) is not type(p[-1])):
        key = 'Path.d/closed-by-curve-dropped-with-use_closed_attrib'
    else:
        key = 'Path.d/%s%s' % ('rel' if o['rel'] else 'abs', '' if exc is None else '/' + type(exc).__name__)
    ck.disagree(key=key, site='svgpathtools/path.py:Path.d',
                what='parse_path(p.d(%s)) differs from p [%s]: d=%r' % (o, tag, d),
                case={'path': abstract, 'opts': o, 'tag': tag, 'repr': repr(p)}, expected=repr(p),
                observed=repr(exc) if exc else repr(q), driver='roundtrip')
    return d


def affine(scale, off):
    return lambda pt: complex(pt[0] * scale + off.real, pt[1] * scale + off.imag)


NASTY = [1e-300, 5e-324, 1.7976931348623157e308, 1e22, 1e16, 123456789.12345679, 0.1, 1 / 3.0, 2.5e-7, 6.02214076e23,
         9007199254740993.0, 1e-7, 0.30000000000000004, 4.35, 1e21, 1e-5, 100000.0, 3.0e-10, 17.0, 2 ** 0.5]


def nasty_map(rnd):
    table = {}

    def f(pt):
        k = tuple(pt)
        if k not in table:
            while True:
                z = complex(rnd.choice([-1, 1]) * rnd.choice(NASTY) * rnd.choice([1, 1, 3, 0.7]),
                            rnd.choice([-1, 1]) * rnd.choice(NASTY) * rnd.choice([1, 1, 3, 0.7]))
                if z not in table.values() and abs(z.real) < 1e300 and abs(z.imag) < 1e300:
                    break
            table[k] = z
        return table[k]
    return f


def mk_float_path(segs, f, rnd):
    """Real path under point map f; arc radii are chosen large enough (or deliberately too small)."""
    out = []
    for s in segs:
        if s[0] == 'A':
            a, b = f(s[1]), f(s[6])
            ch = abs(b - a)
            if not (0 < ch < 1e300):
                return None
            rad = complex(ch * 0.75, ch * 1.25) if s[3] == 0 else complex(ch * 0.1, ch * 0.2)   # second: auto-enlarged
            out.append(sp.Arc(a, rad, s[3], bool(s[4]), bool(s[5]), b))
        else:
            out.append(pm.mkseg(s, f))
    return sp.Path(*out)


def d_trace(p, abstract, d):
    """Align the groups of the emitted text with the original segments -> one trace."""
    groups = pm.ref_parse_d(d)
    if groups is None:
        return [{'c': 'M', 'first': True, 'a': [[0, 0]], 'segs': [['UNGRAMMATICAL']]}]
    events, i = [], 0
    n = len(abstract)
    for g in groups:
        u = pm.EFF(g['c'], g['first'])
        a = g['a']
        if u in ('H', 'V'):
            na = [a[0]]
        elif u == 'A':
            na = [a[0], a[1], a[2], a[3], a[4]]
        else:
            na = a
        bad = False

        def I(v):
            nonlocal bad
            if v.denominator != 1 or not (abs(v) <= 2 ** 30):
                bad = True
                return 0
            return int(v)
        if u == 'A':
            seg = p[i] if i < n else None
            rad = abstract[i][2] if i < n and abstract[i][0] == 'A' else [-1, -1]
            if seg is not None and isinstance(seg, sp.Arc):
                for u_, v_ in ((float(a[0][0]), seg.radius.real), (float(a[0][1]), seg.radius.imag)):
                    if not (abs(u_ - v_) <= 1e-12 * abs(v_)):
                        rad = [-2, -2]
            ia = [rad, pm.rotkey(a[1]), a[2], a[3], [I(a[4][0]), I(a[4][1])]]
        elif u in ('H', 'V'):
            ia = [I(na[0])]
        else:
            ia = [[I(pt[0]), I(pt[1])] for pt in na]
        if u == 'M':
            segs = []
        elif u == 'Z':
            # a Z may stand for the closing line the serialiser left out
            if i == n - 1 and abstract[i][0] == 'L':
                segs = [abstract[i]]
                i += 1
            else:
                segs = []
        else:
            segs = [abstract[i]] if i < n else [['EXTRA-COMMAND']]
            i += 1
        if bad:
            segs = [['NON-INTEGER-TOKEN']]
        segs = [[s[0], s[1], s[2], pm.rotkey(s[3]), s[4], s[5], s[6]] if s[0] == 'A' else s for s in segs]
        events.append({'c': g['c'], 'first': g['first'], 'a': ia, 'segs': segs})
    if i < n:
        events.append({'c': 'Z', 'first': True, 'a': [], 'segs': [['SEGMENTS-MISSING', n - i]]})
    return events


def run(ck):
    rnd = random.Random(ck.seed)
    quick = ck.tier == 'quick'
    ck.rules.append('G: every path of PathD.tla (<= MaxSeg segments on a 3-point grid, L/Q/C/A, continuity, closure by line '
                    'or curve, S/T-smooth joints, several subpaths) x 8 options x {integer, tiny/huge exact affine image, '
                    'nasty doubles}; a case = (path, options, concretisation); non-trivial = path has >= 2 segments. '
                    'V: tokens of the real d() text replayed through PathData_Trace.tla')
    ck.assumptions += ['no zero-length Line segments, no null arcs (excluded by the property)',
                       'relative form: tolerance 1e-9 x coordinate magnitude absorbs rounding of the emitted differences']
    mc = open(pm.__file__.rsplit('/', 2)[0] + '/spec/PathD_MC.cfg').read()
    if not quick:
        mc = mc.replace('MaxSeg = 2', 'MaxSeg = 3')
    ck.tlc('PathD', mc, need_actions=['AddSeg'], timeout=3000)
    traces, tmeta = [], []
    state = {'n': 0}
    every = 1 if quick else 12      # thorough: float concretisations / traces on every 12th path of the 390k; integer round trips on every 3rd

    def on_case(c, light=False):
        abstract = c['path']
        state['n'] += 1
        if not quick and len(abstract) >= 3 and state['n'] % 3 and not light:
            return
        full = ((state['n'] % every == 0) or len(abstract) <= 2) and not light
        p = pm.mkpath(abstract)
        nontriv = len(abstract) >= 2
        ck.sample('path/%d' % len(abstract), {'path': abstract, 'd': p.d()})
        for oi, o in enumerate(OPTSEQ):
            ck.case(fp=('i', state['n'], oi), nontrivial=nontriv)
            d = roundtrip(ck, p, o, 0, abstract, 'integer lattice')
            # (i') conformance of the serialiser itself: the command letters d() writes are exactly the commands of PathD!Emit (incl. redundant movetos)
            if d is not None:
                real_cmds = re.findall(r'[MmLlCcSsQqTtAaZz]', d)
                model_cmds = [g['c'] for g in c['emit'][oi]]
                if real_cmds != model_cmds:
                    # another choice of commands can mean the same path (the round trip above decides that): the serialiser model no longer describes the code
                    ck.drift('Path.d/commands-differ-from-PathD.Emit', 'd(%s) writes the commands %s, the model of the serialiser %s: %r' % (o, ''.join(real_cmds), ''.join(model_cmds), d))
            # (ii) the model serialiser's output through the real parser
            text = pm.render(c['emit'][oi], rnd, 'plain')
            try:
                q = sp.parse_path(text)
                ok = same_path(p, q, 0, o['rel'])
            except Exception as e:      # noqa
                q, ok = e, False
            if not ok:
                ck.disagree(key='parse_path/model-serialiser-output', site='svgpathtools/path.py:_parse_path',
                            what='parse_path of the model serialiser text %r differs from the path' % text,
                            case={'path': abstract, 'opts': o, 'text': text}, expected=repr(p), observed=repr(q), driver='model-emit')
            if d is not None and full and (quick or oi in (3, 6)):
                traces.append(d_trace(p, abstract, d))
                tmeta.append((abstract, o, d))
        if not full:
            return
        # exact affine images: all coordinates dyadic => every relation (continuity, reflection) is preserved exactly
        for scale, off, tag in ((2.0 ** -40, 0j, 'tiny 2^-40'), (2.0 ** 40, complex(2.0 ** 41, -2.0 ** 41), 'huge 2^40'),
                                (0.5, complex(0.5, -1.5), 'halves')):
            pf = mk_float_path(abstract, affine(scale, off), rnd)
            if pf is None:
                continue
            for oi, o in enumerate(OPTSEQ):
                ck.case(fp=(tag, state['n'], oi), nontrivial=nontriv)
                roundtrip(ck, pf, o, 0 if not o['rel'] else 1e-9 * (abs(off) + scale * 4), abstract, tag)
        pf = mk_float_path(abstract, nasty_map(rnd), rnd)
        if pf is not None:
            mag = max(abs(z) for s in pf for z in pts_of(s))
            for oi, o in enumerate(OPTSEQ):
                ck.case(fp=('nasty', state['n'], oi), nontrivial=nontriv)
                if o['rel'] and mag > 1e290:
                    continue
                roundtrip(ck, pf, o, 0 if not o['rel'] else 1e-9 * mag, abstract, 'nasty doubles')
            ck.sample('nasty', {'path': abstract, 'd': pf.d()})

    dump = 'SPECIFICATION Spec\nCONSTANTS MaxSeg = %d\n Variant = "correct"\nINVARIANT Dump\n'
    ck.tlc('PathD', dump % (2 if quick else 3), workers=1, coverage=False, timeout=6000, on_case=on_case)
    # every closed 3-segment path that passes through its closing point before the end (d() restarts the subpath there): integer round trips
    ck.tlc('PathD', (dump % 3).replace('INVARIANT Dump', 'INVARIANT DumpRevisit'), workers=1, coverage=False, timeout=6000, on_case=lambda c: on_case(c, light=True))
    every = 1 if quick else 4
    for msl, num in ((3, 10), (4, 12)) if quick else ((4, 150), (5, 150)):
        ck.tlc('PathD', (dump % msl).replace('INVARIANT Dump', 'INVARIANT DumpFull'), workers=1, coverage=False,
               simulate=num, depth=msl, timeout=3000, on_case=on_case)
    ck.count('paths', state['n'])
    # paths that come from the parser (they carry the parser's hidden closed flag), optionally mutated afterwards
    from . import c02
    pstate = {'n': 0}

    def on_prog(c):
        if not c['segs']:
            return
        text = pm.render(c['groups'], rnd, 'plain')
        try:
            P = sp.parse_path(text)
        except Exception:      # noqa  (C02's business)
            return
        if any(isinstance(sg, sp.Line) and sg.start == sg.end for sg in P):
            return          # zero-length Lines are outside the property
        pstate['n'] += 1
        variants = [('parsed', P)]
        Q = sp.parse_path(text)
        Q.append(sp.Line(Q[-1].end + (7 + 3j), Q[-1].end + (9 - 2j)))
        variants.append(('parsed+append', Q))
        if len(P) > 1:
            R = sp.parse_path(text)
            del R[-1]
            variants.append(('parsed+del', R))
        for tag, X in variants:
            for oi, o in enumerate(OPTSEQ):
                ck.case(fp=(tag, text, oi), nontrivial=len(X) >= 2)
                roundtrip(ck, X, o, 0, {'text': text, 'variant': tag}, tag + ' ' + text)
        # the same text parsed again after an earlier result was edited in place (end points through the Path interface, a control point directly)
        import copy
        ref = copy.deepcopy(list(P))
        M = sp.parse_path(text)
        try:
            M.end = M.end + (3 + 1j)
            M.start = M.start - 2j
            if hasattr(M[0], 'control1'):
                M[0].control1 = M[0].control1 + 1
        except Exception:      # noqa
            pass
        N = sp.parse_path(text)
        ck.case(fp=('reparse', text), nontrivial=True)
        if list(N) != ref or N.d() != sp.Path(*ref).d():
            ck.disagree(key='parse_path/result-depends-on-an-earlier-result', site='svgpathtools/parser.py:parse_path',
                        what='parse_path(%r) after an earlier result of the same text was edited in place gives %r, first time %r' % (text, N, ref),
                        case={'text': text, 'variant': 'reparse'}, expected=repr(ref), observed=repr(N), driver='parsed-origin')
        ck.sample('parsed-origin', {'text': text, 'd(z)': P.d(use_closed_attrib=True)})
    pd = 'SPECIFICATION Spec\nCONSTANTS MaxCmds = %d\n MaxRep = %d\nINVARIANT Dump\n'
    if quick:
        ck.tlc('PathData', pd % (2, 1), workers=1, coverage=False, on_case=on_prog)
        ck.tlc('PathData', pd % (4, 2), workers=1, coverage=False, simulate=40, depth=5, on_case=on_prog)
    else:
        ck.tlc('PathData', pd % (3, 1), workers=1, coverage=False, on_case=on_prog, timeout=3000)
        ck.tlc('PathData', pd % (5, 2), workers=1, coverage=False, simulate=400, depth=6, on_case=on_prog)
    ck.count('parsed_origin_paths', pstate['n'])
    # coordinates of other numeric types: numpy scalars (what rotated / scaled / bpoints2bezier(array) produce), ints, mixed - the text must stay a list of numbers
    import numpy as np
    base_paths = [sp.parse_path('M 1,2 L 4,6 Q 7,6 8,2 T 12,2 C 13,5 15,5 16,2 S 19,-1 20,2 A 3,2 30 0,1 26,4 Z'),
                  sp.parse_path('M 0,0 C 1,2 3,2 4,0 L 4,-3 Z M 10,10 Q 12,14 14,10 L 12,8 Z'),
                  sp.parse_path('M 5,5 A 4,4 0 1,0 9,9 L 0,9')]
    conv = {'numpy.complex128': np.complex128, 'numpy.complex64-exact': lambda z: np.complex128(np.complex64(z)), 'int-valued complex': lambda z: complex(int(z.real), int(z.imag))}
    variants = []
    for bi_, bp in enumerate(base_paths):
        for cn, cf in sorted(conv.items()):
            segs = []
            for sg in bp:
                if isinstance(sg, sp.Arc):
                    segs.append(sp.Arc(cf(sg.start), sg.radius, sg.rotation, sg.large_arc, sg.sweep, cf(sg.end)))
                else:
                    segs.append(type(sg)(*[cf(w) for w in sg.bpoints()]))
            variants.append(('%d built from %s' % (bi_, cn), sp.Path(*segs)))
        variants.append(('%d rotated(90)' % bi_, bp.rotated(90, origin=0j)))
        variants.append(('%d scaled(2)' % bi_, bp.scaled(2)))
        variants.append(('%d translated(np.complex128)' % bi_, bp.translated(np.complex128(3 - 2j))))
        if not any(isinstance(sg, sp.Arc) for sg in bp):
            variants.append(('%d bpoints2bezier(array)' % bi_, sp.Path(*[sp.bpoints2bezier(np.array(sg.bpoints())) for sg in bp])))
    for tag_, vp in variants:
        for o in OPTSEQ:
            ck.case(fp=('numeric-types', tag_, str(o)), nontrivial=True)
            roundtrip(ck, vp, o, 1e-9, {'numeric': tag_}, 'coordinates of another numeric type: ' + tag_)
    # V
    acc, reach = tracecheck.validate(ck, 'PathData_Trace', 'PathData_Trace.cfg', 'PathData_TraceAt.cfg', traces)
    ck.trace_ok(len(acc))
    ck.count('d_output_traces', len(traces))
    if traces:
        ck.sample('d-trace', {'d': tmeta[0][2], 'events': traces[0][:3]})
    for i, t in enumerate(traces):
        if i in acc:
            continue
        abstract, o, d = tmeta[i]
        p = pm.mkpath(abstract)
        at = reach.get(i, 0)
        if o['use_closed_attrib'] and closed_by_curve(p) and t[-1]['segs'] and t[-1]['segs'][0][0] == 'SEGMENTS-MISSING':
            key = 'Path.d/closed-by-curve-dropped-with-use_closed_attrib'
        else:
            key = 'Path.d/trace-rejected'
        ck.disagree(key=key, site='svgpathtools/path.py:Path.d',
                    what='the text d() wrote (%r) does not mean the original path under PathSem (event %d rejected)' % (d, at + 1),
                    case={'path': abstract, 'opts': o, 'd': d, 'event': t[min(at, len(t) - 1)]},
                    expected=abstract, observed=t[min(at, len(t) - 1)], driver='d-trace')


def replay(rec):
    case = rec['case']
    if isinstance(case['path'], dict):
        p = sp.parse_path(case['path']['text'])
        if case['path']['variant'] == 'parsed+append':
            p.append(sp.Line(p[-1].end + (7 + 3j), p[-1].end + (9 - 2j)))
        elif case['path']['variant'] == 'parsed+del':
            del p[-1]
    else:
        p = pm.mkpath(case['path'])
    o = case.get('opts', {})
    print('path   :', p)
    if 'text' in case:
        q = sp.parse_path(case['text'])
        print('text   :', case['text'])
        print('parsed :', q)
        ok = same_path(p, q, 0, False)
    else:
        d = p.d(**o)
        q = sp.parse_path(d)
        print('opts   :', o)
        print('d()    :', d)
        print('parsed :', q)
        ok = same_path(p, q, 0, o.get('rel', False))
    print('AGREES (integer concretisation)' if ok else 'DISAGREES')
    return 0 if ok else 1
