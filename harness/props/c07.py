"""C07 - ilength inverts length on [0, L], is monotone, total and terminates.

P  Bisect.tla: Terminates / FewSteps / Bracket / Post / Ends / Monotone / RunAgrees over every
   monotone length table on a 2^P grid, incl. tolerances below the table's resolution.
V  every run of the real inv_arclength is recorded by wrapping the curve's length(): one event per
   probe (binary expansion of t, outcome of the two comparisons) + the return / exception;
   Bisect_Trace.tla accepts a run iff every probe is the midpoint of the current bracket or the
   float-resolution stall, and the run then returns.
G  exact inverses where the speed is constant (Line, circular Arc, uniform Quadratic/Cubic and
   paths of them): ilength(s) = s/L; ends, monotonicity, ValueError outside [0, L]; the
   post-condition |length(0, r) - s| <= max(tolerance, resolution) for every curve and scale.
"""
import math
import random
from fractions import Fraction

from .. import pathmodel as pm
from .. import tracecheck

sp = pm.sp
import svgpathtools.path as sppath      # noqa


class TooMany(Exception):
    pass


def bits_of(t):
    """binary expansion of t in [0,1] without trailing zeros; 1 -> [2]"""
    if t == 1:
        return [2]
    fr = Fraction(t)
    if fr < 0 or fr > 1:
        return [3]
    out = []
    n, d = fr.numerator, fr.denominator
    while n:
        n *= 2
        if n >= d:
            out.append(1)
            n -= d
        else:
            out.append(0)
        if len(out) > 1200:
            break
    return out


def shapes():
    S = []
    S.append(('line', lambda k: sp.Line(0j, (3 + 4j) * k), True))
    S.append(('quad-uniform', lambda k: sp.QuadraticBezier(0j, (3 + 4j) * k, (6 + 8j) * k), True))
    S.append(('cubic-uniform', lambda k: sp.CubicBezier(0j, (1 + 2j) * k, (2 + 4j) * k, (3 + 6j) * k), True))
    S.append(('quad', lambda k: sp.QuadraticBezier(0j, (2 + 3j) * k, (5 + 0j) * k), False))
    S.append(('cubic', lambda k: sp.CubicBezier(0j, (1 + 3j) * k, (4 + 3j) * k, (5 + 0j) * k), False))
    S.append(('cubic-S', lambda k: sp.CubicBezier(0j, (4 + 4j) * k, (0 - 4j) * k, (4 + 0j) * k), False))
    S.append(('arc-circle', lambda k: sp.Arc(0j, (5 + 5j) * k, 0, False, True, (6 + 8j) * k), True))
    S.append(('arc-ellipse', lambda k: sp.Arc(0j, (6 + 3j) * k, 30, True, False, (4 + 2j) * k), False))
    # the speed vanishes at an end (a handle of zero length): s(t) starts like t^2 / t^3 there
    S.append(('cubic-zero-start-speed', lambda k: sp.CubicBezier(0j, 0j, (3 + 4j) * k, (8 + 0j) * k), False))
    S.append(('cubic-zero-end-speed', lambda k: sp.CubicBezier(0j, (3 + 4j) * k, (8 + 0j) * k, (8 + 0j) * k), False))
    S.append(('quad-zero-start-speed', lambda k: sp.QuadraticBezier((1 + 1j) * k, (1 + 1j) * k, (4 + 5j) * k), False))
    # straight Beziers whose control points lie on the chord in order but are not evenly spaced: straight, yet not traversed at constant speed
    S.append(('cubic-straight-retracted', lambda k: sp.CubicBezier(0j, 0j, (6 + 8j) * k, (6 + 8j) * k), False))
    S.append(('cubic-straight-uneven', lambda k: sp.CubicBezier(0j, (0.6 + 0.8j) * k, (1.2 + 1.6j) * k, (6 + 8j) * k), False))
    S.append(('quad-straight-uneven', lambda k: sp.QuadraticBezier((1 + 1j) * k, (1.3 + 1.4j) * k, (4 + 5j) * k), False))
    # nearly circular ellipses (radii 1e-5 .. 1e-3 relative apart): the speed is not constant
    S.append(('arc-near-circle', lambda k: sp.Arc(0j, complex(100, 100.0009) * k, 0, True, True, (120 + 90j) * k), False))
    S.append(('arc-near-circle-rotated', lambda k: sp.Arc(0j, complex(5, 5.004) * k, 40, False, False, (3 - 6j) * k), False))
    return S


def path_shapes():
    P = []
    P.append(('path-lines', lambda k: sp.Path(sp.Line(0j, 4 * k), sp.Line(4 * k, (4 + 3j) * k), sp.Line((4 + 3j) * k, (12 + 9j) * k)), True))
    P.append(('path-mixed-uniform', lambda k: sp.Path(sp.Line(0j, 3 * k), sp.QuadraticBezier(3 * k, (3 + 1j) * k, (3 + 2j) * k),
                                                       sp.CubicBezier((3 + 2j) * k, (4 + 2j) * k, (5 + 2j) * k, (6 + 2j) * k)), True))
    P.append(('path-mixed', lambda k: sp.Path(sp.Line(0j, 3 * k), sp.CubicBezier(3 * k, (4 + 3j) * k, (6 + 3j) * k, (7 + 0j) * k),
                                               sp.Arc(7 * k, (2 + 2j) * k, 0, False, True, (11 + 0j) * k),
                                               sp.QuadraticBezier(11 * k, (12 + 2j) * k, (14 + 0j) * k)), False))
    # paths that traverse an *equal* segment twice (segments must be addressed by position, not by equality)
    P.append(('path-repeat-lines', lambda k: sp.Path(sp.Line(0j, 100 * k), sp.Line(100 * k, 0j), sp.Line(0j, 100 * k)), True))
    P.append(('path-repeat-cubic', lambda k: sp.Path(sp.CubicBezier(0j, (1 + 2j) * k, (2 + 4j) * k, (3 + 6j) * k), sp.Line((3 + 6j) * k, 0j),
                                                      sp.CubicBezier(0j, (1 + 2j) * k, (2 + 4j) * k, (3 + 6j) * k)), True))
    # point-like members (a repeated vertex, a cubic whose four control points coincide) between ordinary segments
    P.append(('path-with-zero-length-members', lambda k: sp.Path(sp.Line(0j, 3 * k), sp.Line(3 * k, 3 * k), sp.CubicBezier(3 * k, (4 + 3j) * k, (6 + 3j) * k, (7 + 0j) * k),
                                                                 sp.CubicBezier(7 * k, 7 * k, 7 * k, 7 * k), sp.QuadraticBezier(7 * k, (8 + 2j) * k, (10 + 0j) * k)), False))
    # generic coordinates (non-dyadic): the running sum of the segment lengths rounds, which matters for s exactly on a joint
    def generic(seed):
        def mk(k):
            r = random.Random(seed)
            z = lambda a: complex(r.uniform(-a, a), r.uniform(-a, a)) * k
            pos, segs = z(5), []
            for _ in range(4):
                e = pos + z(5)
                kind = r.choice('LQC')
                segs.append(sp.Line(pos, e) if kind == 'L' else sp.QuadraticBezier(pos, pos + z(3), e) if kind == 'Q' else sp.CubicBezier(pos, pos + z(3), e + z(3), e))
                pos = e
            return sp.Path(*segs)
        return mk
    for seed in (3, 4, 5, 6):
        P.append(('path-generic-%d' % seed, generic(seed), False))
    return P


def run_recorded(curve, s, kw, cap=1300):
    """Run curve.ilength(s) with every probe recorded.  Returns (result|exception, events, probed segment index)."""
    events = []
    segs = list(curve) if isinstance(curve, sp.Path) else [curve]
    probes = []
    originals = []
    for i, seg in enumerate(segs):
        if isinstance(seg, sp.Line):
            originals.append(None)
            continue
        orig = seg.length

        def wrapped(t0=0, t1=1, error=None, min_depth=None, _orig=orig, _i=i, **extra):
            kwargs = dict(extra)
            if error is not None:
                kwargs['error'] = error
            if min_depth is not None:
                kwargs['min_depth'] = min_depth
            v = _orig(t0, t1, **kwargs)
            if not (t0 == 0 and t1 == 1):
                probes.append((_i, t1, v))
                if len(probes) > cap:
                    raise TooMany()
            return v
        try:
            seg.length = wrapped
            originals.append(orig)
        except Exception:      # noqa  (the instance does not take attributes, e.g. __slots__: no probes from this segment, the run itself is still judged)
            originals.append(None)
    try:
        try:
            r = curve.ilength(s, **kw)
            out = ('ok', r)
        except TooMany:
            out = ('toomany', None)
        except ValueError as e:
            out = ('ValueError', str(e))
        except Exception as e:      # noqa
            out = ('exc', repr(e))
    finally:
        for seg, orig in zip(segs, originals):
            if orig is not None:
                try:
                    del seg.length
                except AttributeError:
                    pass
    return out, probes


def make_trace(curve, s, kw, out, probes):
    """events for Bisect_Trace: the bisection runs on one non-Line segment"""
    s_tol = kw.get('s_tol', getattr(sppath, 'ILENGTH_S_TOL', 1e-12))
    segs = list(curve) if isinstance(curve, sp.Path) else [curve]
    if isinstance(curve, sp.Path):
        lens = [seg.length(error=kw.get('error', getattr(sppath, 'ILENGTH_ERROR', 1e-12)), min_depth=kw.get('min_depth', getattr(sppath, 'ILENGTH_MIN_DEPTH', 5))) for seg in segs]
        lsum = 0
        k = None
        for i, ln in enumerate(lens):
            if lsum <= s <= lsum + ln:
                k = i
                break
            lsum += ln
        target = s - lsum
    else:
        k, target = 0, s
    ev = []
    if not probes:
        return None, k, target
    for (i, t, v) in probes:
        ev.append({'e': 'probe', 'bits': bits_of(t), 'cmp': (-1 if v < target else (1 if v > target else 0)),
                   'within': bool(abs(v - target) < s_tol), 's0': False})
    if out[0] == 'ok':
        tret = probes[-1][1]
        ev.append({'e': 'return', 'bits': bits_of(tret), 'cmp': 0, 'within': False, 's0': False})
    else:
        ev.append({'e': 'raise', 'bits': [3], 'cmp': 0, 'within': False, 's0': False})
    return ev, k, target


def run(ck):
    rnd = random.Random(ck.seed)
    quick = ck.tier == 'quick'
    ck.rules.append('case = (curve shape, coordinate scale, s); every case is one recorded run of the real ilength validated by '
                    'Bisect_Trace.tla plus the exact / post-condition checks; non-trivial = the run made >= 3 probes')
    ck.assumptions += ['without scipy the recursive length fallback with the default absolute error 1e-12 needs seconds per call at scale 1e6: the no-scipy configuration is run at scales <= 1 only',
                       'a run that exceeds 1300 probes is aborted by the recorder and counted as non-terminating (a double has <= 1074 binary places)',
                       'post-condition slack: max(s_tol, 1e-11 L) (adjacent floats near a stalled bracket)']
    mc = open(pm.__file__.rsplit('/', 2)[0] + '/spec/Bisect_MC.cfg').read()
    if not quick:
        mc = mc.replace('LMax = 5', 'LMax = 6').replace('Tols = {1, 2}', 'Tols = {1, 2, 3}')
    ck.tlc('Bisect', mc, need_actions=['Zero', 'One', 'Hit', 'GoLow', 'GoHigh'], timeout=3000)
    ck.tlc('Bisect', mc.replace('P = 3', 'P = 2').replace('LMax = 5', 'LMax = 9').replace('LMax = 6', 'LMax = 11'), timeout=3000)
    scales = [1e-3, 1.0, 1e3, 1e6]
    fr = [0.0, 1e-9, 1e-6, 1e-4, 1 / 7.0, 0.25, 0.5, 0.61803398875, 0.9, 1 - 1e-9, 1.0]
    if not quick:
        fr += [1e-4, 1 / 3.0, 0.75, 0.999, 0.05, 0.95, 0.123456789]
    fr = sorted(fr)
    traces, tmeta = [], []
    allshapes = shapes() + path_shapes()
    configs = [(True, allshapes, scales)]
    if getattr(sppath, '_quad_available', None):
        configs.append((False, [x for x in allshapes if x[0] in ('cubic', 'cubic-S', 'quad')] if quick else [x for x in allshapes if 'arc' not in x[0] and x[0] != 'path-mixed'] + [x for x in allshapes if x[0] == 'path-mixed'][:1], [1.0] if quick else [1e-3, 1.0]))
    old = getattr(sppath, '_quad_available', None)     # (the module's scipy switch; None: no such switch any more - one configuration only)
    try:
        for scipy_on, shp, scs in configs:
            sppath._quad_available = scipy_on and old
            for name, mk, uniform in shp:
                for k in scs:
                    curve = mk(k)
                    L = curve.length()
                    prev = None
                    frs = fr if scipy_on else [0.0, 0.61803398875, 1.0]
                    for f in frs:
                        s = L * f if f < 1 else L
                        kw = {}
                        out, probes = run_recorded(curve, s, kw)
                        case = {'shape': name, 'scale': k, 'frac': f, 'scipy': scipy_on}
                        ck.case(fp=(name, k, f, scipy_on), nontrivial=len(probes) >= 3)
                        site = 'svgpathtools/path.py:inv_arclength'
                        if out[0] != 'ok':
                            key = 'inv_arclength/does-not-terminate' if out[0] in ('toomany', 'exc') else 'inv_arclength/' + out[0]
                            ck.disagree(key=key, site=site, what='%s scale %g: ilength(%r) (L=%r) %s after %d probes' % (name, k, s, L, out, len(probes)),
                                        case=case, expected='a parameter in [0,1]', observed=str(out), driver='runs')
                            continue
                        r = out[1]
                        if not (0 <= r <= 1):
                            ck.disagree(key='inv_arclength/out-of-range', site=site, what='ilength returned %r' % r, case=case, expected='[0,1]', observed=r, driver='runs')
                            continue
                        if (f == 0 and r != 0) or (f == 1.0 and r != 1):
                            ck.disagree(key='inv_arclength/ends', site=site, what='%s: ilength(%r) = %r' % (name, s, r), case=case, expected=f, observed=r, driver='runs')
                        back = curve.length(0, r) if r > 0 else 0.0
                        if not (abs(back - s) <= (1e-12 + 16 * math.ulp(L))):
                            ck.disagree(key='inv_arclength/post-condition', site=site,
                                        what='%s scale %g: length(0, ilength(s)) = %r, s = %r' % (name, k, back, s), case=case, expected=s, observed=back, driver='runs')
                        if uniform and not (abs(r - s / L) <= 1e-9):
                            ck.disagree(key='inv_arclength/uniform-speed-inverse', site=site,
                                        what='%s scale %g: ilength(%r) = %r, exact s/L = %r' % (name, k, s, r, s / L), case=case, expected=s / L, observed=r, driver='runs')
                        if prev is not None and r < prev - 1e-12:
                            ck.disagree(key='inv_arclength/not-monotone', site=site, what='%s: ilength decreased from %r to %r' % (name, prev, r),
                                        case=case, expected='>= %r' % prev, observed=r, driver='runs')
                        prev = r
                        ev, kseg, target = make_trace(curve, s, kw, out, probes)
                        if ev is not None:
                            traces.append(ev)
                            tmeta.append(case)
                        elif f in (0.0, 1.0):
                            traces.append([{'e': 'short', 'bits': bits_of(r), 'cmp': 0, 'within': False, 's0': f == 0.0}])
                            tmeta.append(case)
                    # s exactly on (and one float either side of) every joint of a path
                    if isinstance(curve, sp.Path) and scipy_on:
                        c = 0.0
                        for sg in list(curve)[:-1]:
                            c += sg.length()
                            for s in (c, math.nextafter(c, 0.0), math.nextafter(c, 2 * L)):
                                if not 0 <= s <= L:
                                    continue
                                out, probes = run_recorded(curve, s, {})
                                ck.case(fp=(name, k, 'joint', s, scipy_on), nontrivial=True)
                                if out[0] != 'ok' or not (0 <= out[1] <= 1) or not (abs(curve.length(0, out[1]) - s) <= (1e-12 + 16 * math.ulp(L))):
                                    ck.disagree(key='inv_arclength/at-a-joint-of-a-path', site='svgpathtools/path.py:inv_arclength',
                                                what='%s scale %g: ilength(%r), s on a joint (L=%r): %s' % (name, k, s, L, out), case={'shape': name, 'scale': k, 's': s},
                                                expected='a parameter whose arc length is s', observed=str(out), driver='runs')
                    # outside [0, L]
                    for s in (-1e-9 * L - 1e-300, L * (1 + 1e-9), -L, 2 * L, math.nextafter(L, 2 * L), -5e-13, -5e-324):
                        out, _ = run_recorded(curve, s, {})
                        ck.case(fp=(name, k, 'outside', s, scipy_on), nontrivial=True)
                        if out[0] != 'ValueError':
                            ck.disagree(key='inv_arclength/no-ValueError-outside', site='svgpathtools/path.py:inv_arclength',
                                        what='%s: ilength(%r) with L=%r gave %s' % (name, s, L, out), case={'shape': name, 'scale': k, 's': s},
                                        expected='ValueError', observed=str(out), driver='runs')
    finally:
        sppath._quad_available = old
    # a coarse caller-supplied tolerance does not widen the domain: s just outside [0, L] still raises
    for name, mk, uniform in shapes()[:6] + path_shapes()[:3]:
        curve = mk(1.0)
        L = curve.length()
        for tol in (1e-3, 1e-6):
            for s in (L + 0.4 * tol, -0.4 * tol):
                out, _ = run_recorded(curve, s, {'s_tol': tol})
                ck.case(fp=(name, 'outside-with-tol', tol, s), nontrivial=True)
                if out[0] != 'ValueError':
                    ck.disagree(key='inv_arclength/no-ValueError-outside', site='svgpathtools/path.py:inv_arclength',
                                what='%s: ilength(%r, s_tol=%g) with L=%r gave %s' % (name, s, tol, L, out), case={'shape': name, 's': s, 'tol': tol},
                                expected='ValueError', observed=str(out), driver='runs')
    # the requested tolerance is honoured whatever its value: s_tol = 0 (as tight as the curve allows: the floating-point resolution of L), a tiny and a coarse one
    for name, mk, uniform in shapes()[:8] + path_shapes()[:3]:
        for k in (1e-3, 1.0):
            curve = mk(k)
            L = curve.length()
            for tol in (0, 0.0, 1e-15 * L, 1e-3 * L):
                for f in (0.17, 0.5, 0.83):
                    s_ = L * f
                    ck.case(fp=(name, k, 'requested-tolerance', tol, f), nontrivial=True)
                    try:
                        r_ = curve.ilength(s_, s_tol=tol)
                        back = curve.length(0, r_)
                        ok = 0 <= r_ <= 1 and abs(back - s_) <= max(tol, 1e-12 * k + 64 * math.ulp(L))
                    except Exception as e:      # noqa
                        ok, r_, back = False, e, None
                    if not ok:
                        ck.disagree(key='inv_arclength/requested-tolerance-not-honoured', site='svgpathtools/path.py:inv_arclength', what='%s scale %g: ilength(%r, s_tol=%r) = %r, length(0, .) = %r (L = %r)' % (name, k, s_, tol, r_, back, L),
                                    case={'shape': name, 'scale': k, 'tol': tol, 'frac': f}, expected=s_, observed=repr(back), driver='runs')
                        break
    # paths with members shorter than the tolerance (a joining line of 5e-13, members of 4e-4 under s_tol = 1e-3): every s in [0, L] is answered
    tiny_paths = [('5e-13 joiner', sp.Path(sp.Line(0j, 1e-3 + 0j), sp.Line(1e-3 + 0j, 1e-3 + 5e-13j), sp.CubicBezier(1e-3 + 5e-13j, 2e-3 + 1e-3j, 3e-3 - 1e-3j, 4e-3 + 0j)), None),
                  ('4e-4 members, s_tol 1e-3', sp.Path(sp.Line(0j, 4e-4 + 0j), sp.QuadraticBezier(4e-4 + 0j, 6e-4 + 2e-4j, 8e-4 + 0j), sp.Line(8e-4 + 0j, 1 + 0j)), 1e-3),
                  ('zero-length-free short cubic first', sp.Path(sp.CubicBezier(0j, 1e-13 + 1e-13j, 2e-13 - 1e-13j, 3e-13 + 0j), sp.Line(3e-13 + 0j, 1 + 1j)), None)]
    for name, pth, tol in tiny_paths:
        L = pth.length()
        lens = [sg_.length() for sg_ in pth]
        probes_ = [0.0, L, L / 2] + [sum(lens[:i_]) + f_ * lens[i_] for i_ in range(len(lens)) for f_ in (0.0, 0.5, 1.0)]
        for s_ in probes_:
            s_ = min(max(s_, 0.0), L)
            ck.case(fp=(name, 'tiny-member', s_), nontrivial=True)
            try:
                r_ = pth.ilength(s_) if tol is None else pth.ilength(s_, s_tol=tol)
                ok = 0 <= r_ <= 1 and abs(pth.length(0, r_) - s_) <= max(tol or 0, 1e-12 + 64 * math.ulp(L))
            except Exception as e:      # noqa
                ok, r_ = False, e
            if not ok:
                ck.disagree(key='inv_arclength/member-shorter-than-the-tolerance', site='svgpathtools/path.py:inv_arclength', what='%s: ilength(%r%s) = %r (L = %r, members %r)' % (name, s_, '' if tol is None else ', s_tol=%g' % tol, r_, L, lens),
                            case={'path': name, 's': s_}, expected='a parameter in [0, 1] whose arc length is s', observed=repr(r_), driver='runs')
                break
    # a coarse request followed by a fine one on the same object (nothing learnt in the first call may limit the accuracy of the second)
    for name, mk, uniform in shapes()[3:8] + path_shapes()[2:3]:
        for k in (1.0, 1e3):
            curve = mk(k)
            L = curve.length()
            for f in (0.3, 0.62, 0.91):
                ck.case(fp=(name, k, 'coarse-then-fine', f), nontrivial=True)
                try:
                    curve.ilength(L * f, s_tol=0.05 * L)
                    r2 = curve.ilength(L * f + 0.01 * L * (0.5 - f))
                    back = curve.length(0, r2)
                except Exception as e:      # noqa
                    r2, back = e, None
                s2 = L * f + 0.01 * L * (0.5 - f)
                if isinstance(r2, Exception) or not (abs(back - s2) <= (1e-12 + 16 * math.ulp(L))):
                    ck.disagree(key='inv_arclength/fine-request-after-a-coarse-one', site='svgpathtools/path.py:inv_arclength',
                                what='%s scale %g: ilength(s, s_tol=0.05 L) then ilength(%r) = %r, length(0, .) = %r' % (name, k, s2, r2, back), case={'shape': name, 'scale': k, 'frac': f},
                                expected=s2, observed=repr(back), driver='history')
    # histories: a curve that was measured, edited in place (control point / end point through the Path interface) and possibly reversed answers like a newly built one
    def fresh_like(c_):
        if isinstance(c_, sp.Path):
            return sp.Path(*[fresh_like(x) for x in c_])
        return type(c_)(*c_.bpoints())
    hist = []
    q = sp.QuadraticBezier(0j, 2 + 3j, 5 + 0j)
    q.length(), q.ilength(1.0)
    q.control = 3 - 4j
    hist.append(('quadratic: length; control = z; reversed', q.reversed()))
    hist.append(('quadratic: length; control = z', q))
    cb = sp.CubicBezier(0j, 1 + 3j, 4 + 3j, 5 + 0j)
    cb.length(), cb.ilength(2.0)
    cb.control2 = 6 - 5j
    hist.append(('cubic: length; control2 = z; reversed', cb.reversed()))
    hist.append(('cubic: length; control2 = z', cb))
    ph = sp.Path(sp.Line(0j, 3 + 0j), sp.CubicBezier(3 + 0j, 4 + 3j, 6 + 3j, 7 + 0j), sp.QuadraticBezier(7 + 0j, 8 + 2j, 10 + 0j), sp.Line(10 + 0j, 10 + 4j))
    ph.length(), ph.ilength(5.0), ph.t2T(2, 0.5)
    ph.end = 10 + 40j
    hist.append(('path: ilength, t2T; path.end = z', ph))
    ph2 = sp.Path(sp.Line(0j, 3 + 0j), sp.QuadraticBezier(3 + 0j, 4 + 2j, 6 + 0j), sp.Line(6 + 0j, 6 + 4j))
    ph2.ilength(4.0), ph2.t2T(1, 0.5)
    ph2.start = -30 + 0j
    hist.append(('path: ilength, t2T; path.start = z', ph2))
    for tag, obj in hist:
        ref = fresh_like(obj)
        Lr = ref.length()
        for f in (0.0, 0.05, 0.3, 0.5, 0.77, 0.95, 0.999, 1.0):
            s_ = Lr * f if f < 1 else Lr
            ck.case(fp=('history', tag, f), nontrivial=True)
            try:
                got, want = obj.ilength(s_), ref.ilength(s_)
            except Exception as e:      # noqa
                got, want = e, None
            if isinstance(got, Exception) or not (abs(got - want) <= 1e-9) or not (abs(ref.length(0, got) - s_) <= (1e-12 + 16 * math.ulp(Lr))):
                ck.disagree(key='inv_arclength/after-a-history', site='svgpathtools/path.py:inv_arclength / length caches',
                            what='%s: ilength(%r) = %r, a newly built curve with the same control points answers %r (L = %r)' % (tag, s_, got, want, Lr),
                            case={'history': tag, 'frac': f}, expected=repr(want), observed=repr(got), driver='history')
                break
        try:
            obj.ilength(Lr * 1.01)
            ck.disagree(key='inv_arclength/no-ValueError-outside', site='svgpathtools/path.py:inv_arclength', what='%s: ilength(1.01 L) did not raise' % tag,
                        case={'history': tag}, expected='ValueError', observed='value', driver='history')
        except ValueError:
            pass
        except Exception as e:      # noqa
            ck.disagree(key='inv_arclength/no-ValueError-outside', site='svgpathtools/path.py:inv_arclength', what='%s: ilength(1.01 L) raised %r' % (tag, e),
                        case={'history': tag}, expected='ValueError', observed=repr(e), driver='history')
    # also explicit looser tolerances (Hit branch) on a few curves
    for name, mk, uniform in shapes()[3:6]:
        curve = mk(1.0)
        L = curve.length()
        for tol in (1e-3, 1e-6):
            for f in (0.3, 0.77):
                out, probes = run_recorded(curve, L * f, {'s_tol': tol})
                ck.case(fp=(name, 'tol', tol, f), nontrivial=True)
                if out[0] != 'ok' or not (abs(curve.length(0, out[1]) - L * f) <= tol):
                    ck.disagree(key='inv_arclength/post-condition', site='svgpathtools/path.py:inv_arclength',
                                what='%s s_tol=%g: %s' % (name, tol, out), case={'shape': name, 'tol': tol, 'frac': f}, expected='within tol', observed=str(out), driver='runs')
                ev, _, _ = make_trace(curve, L * f, {'s_tol': tol}, out, probes)
                if ev:
                    traces.append(ev)
                    tmeta.append({'shape': name, 'tol': tol, 'frac': f})
    acc, reach = tracecheck.validate(ck, 'Bisect_Trace', 'Bisect_Trace.cfg', 'Bisect_TraceAt.cfg', traces)
    ck.trace_ok(len(acc))
    ck.count('probe_events', sum(len(t) for t in traces))
    if traces:
        ck.sample('run', {'case': tmeta[0], 'events': traces[0][:4]})
        ck.sample('run-long', {'case': tmeta[-1], 'n_events': len(traces[-1]), 'last': traces[-1][-2:]})
    for i, t in enumerate(traces):
        if i in acc:
            continue
        at = reach.get(i, 0)
        ev = t[min(at, len(t) - 1)]
        stall_loop = ev['e'] == 'probe' and at >= 1 and t[at - 1]['e'] == 'probe' and t[at - 1]['bits'] == ev['bits']
        if not (t[-1]['e'] == 'raise' or stall_loop):
            # the probes are not those of a bisection from [0, 1] (Bisect.tla is a model of *this* algorithm): another correct root finder would differ too.  The
            # clauses of the property - returns, range, end values, the inverse relation, monotonicity, ValueError outside - are checked on every run above.
            ck.drift('inv_arclength/probes-differ-from-Bisect.tla', 'run %s departs from Bisect_Trace at event %d/%d: %s' % (tmeta[i], at + 1, len(t), {k: v for k, v in ev.items() if k != 'bits'}))
            continue
        key = 'inv_arclength/does-not-terminate'
        ck.disagree(key=key, site='svgpathtools/path.py:inv_arclength',
                    what='run %s rejected by Bisect_Trace at event %d/%d: %s' % (tmeta[i], at + 1, len(t), {k: v for k, v in ev.items() if k != 'bits'}),
                    case=tmeta[i], expected='midpoint probe, stall then return', observed={'event': ev, 'n_events': len(t)}, driver='trace')


def replay(rec):
    c = rec['case']
    print(rec['what'])
    for name, mk, u in shapes() + path_shapes():
        if name == c.get('shape'):
            curve = mk(c.get('scale', 1.0))
            L = curve.length()
            s = L * c['frac'] if 'frac' in c else c.get('s')
            out, probes = run_recorded(curve, s, {})
            print('now:', out, 'probes:', len(probes))
            return 0 if out[0] == 'ok' else 1
    return 1
