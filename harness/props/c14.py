"""C14 - area() is the signed enclosed area; enclosure tests agree with crossing parity.

P  Area.tla: RevNegates, TranslationInvariant, DetScales, PolygonAgrees (Green's formula for
   polynomial segments = shoelace), BezRevNegates, ParityIndependentOfOpt.
G  every lattice polygon (convex, concave, self-intersecting): area() = shoelace (exact), sign,
   reversed, translated, scaled / sheared; closed Bezier paths: exact Green areas; circles /
   ellipses from arcs within the chord bound; path_encloses_pt vs the model's crossing parity for
   every probe the model proves to be in general position; is_contained_by for a triangle placed
   inside / outside / across each polygon (only pairs in general position).
"""
import cmath
import math
import random

import numpy as np

from .. import pathmodel as pm

sp = pm.sp


def P2(v):
    return complex(v[0] / 2.0, v[1] / 2.0)


def poly_case(ck, c):
    pts = [P2(v) for v in c['poly']]
    p = sp.polygon(*pts)
    exp = c['shoelace'] / 8.0
    ck.case(fp=('poly', str(c['poly'])), nontrivial=True)
    site = 'svgpathtools/path.py:Path.area'

    def bad(key, what, e, o):
        ck.disagree(key='Path.area/' + key, site=site, what='polygon %s: %s' % (pts, what), case={'poly': c['poly']}, expected=e, observed=o, driver='polygon')
        return False
    try:
        a = p.area()
        if not (abs(a - exp) <= 1e-12 * 64):
            return bad('polygon', 'area() = %r, shoelace = %r' % (a, exp), exp, a)
        if not (abs(p.reversed().area() + exp) <= 1e-12 * 64):
            return bad('reversed', 'reversed().area() = %r' % p.reversed().area(), -exp, p.reversed().area())
        if not (abs(p.translated(3.5 - 2j).area() - exp) <= 1e-10 * 64):
            return bad('translated', 'translated area %r' % p.translated(3.5 - 2j).area(), exp, p.translated(3.5 - 2j).area())
        if not (abs(p.scaled(2).area() - 4 * exp) <= 1e-10 * 64) or not (abs(p.scaled(-1, 3).area() + 3 * exp) <= 1e-10 * 64):
            return bad('scaled', 'scaled(2) area %r, scaled(-1,3) area %r' % (p.scaled(2).area(), p.scaled(-1, 3).area()), [4 * exp, -3 * exp], [p.scaled(2).area(), p.scaled(-1, 3).area()])
        M = np.array([[1.0, 1.0, 0.0], [0.0, 1.0, 0.0], [0, 0, 1]])
        if not (abs(sp.path.transform(p, M).area() - exp) <= 1e-10 * 64):
            return bad('sheared', 'area under a shear (det 1) %r' % sp.path.transform(p, M).area(), exp, sp.path.transform(p, M).area())
    except Exception as e:      # noqa
        return bad('raises-' + type(e).__name__, 'raised %r' % e, exp, repr(e))
    # enclosure
    opt = complex(-2.5, -1.5)
    for pr in c['probes']:
        if not pr['general']:
            continue
        pt = P2(pr['p'])
        ck.case(fp=('probe', str(c['poly']), str(pr['p'])), nontrivial=pr['inside'])
        try:
            got = sp.path_encloses_pt(pt, opt, p)
        except Exception as e:      # noqa
            got = e
        # the same configuration drawn small and far from the origin (parity is invariant under similarities)
        far = lambda w: 0.01 * w + (4000 + 3000j)
        try:
            got_far = sp.path_encloses_pt(far(pt), far(opt), sp.polygon(*[far(w) for w in pts]))
        except Exception as e:      # noqa
            got_far = e
        # the same outline spelled with straight quadratics (control point at the midpoint of each side: exact) - the same point set, the same parity
        try:
            pq = sp.Path(*[sp.QuadraticBezier(a_, (a_ + b_) / 2, b_) for a_, b_ in zip(pts, pts[1:] + pts[:1])])
            got_q = sp.path_encloses_pt(pt, opt, pq)
        except Exception as e:      # noqa
            got_q = e
        if got_q is not pr['inside'] and got is pr['inside']:
            ck.disagree(key='path_encloses_pt/outline-of-straight-quadratics', site='svgpathtools/path.py:path_encloses_pt/bezier_by_line_intersections',
                        what='polygon %s drawn with straight quadratics: path_encloses_pt(%r) = %r, crossing parity says %r' % (pts, pt, got_q, pr['inside']),
                        case={'poly': c['poly'], 'probe': pr['p'], 'quadratics': True}, expected=pr['inside'], observed=repr(got_q), driver='enclosure')
        if got_far is not pr['inside'] and got is pr['inside']:
            ck.disagree(key='path_encloses_pt/far-from-origin', site='svgpathtools/path.py:path_encloses_pt/Path.intersect',
                        what='polygon %s scaled by 0.01 and moved to 4000+3000j: path_encloses_pt = %r, crossing parity says %r' % (pts, got_far, pr['inside']),
                        case={'poly': c['poly'], 'probe': pr['p'], 'far': True}, expected=pr['inside'], observed=repr(got_far), driver='enclosure')
        if got is not pr['inside']:
            ck.disagree(key='path_encloses_pt/%s' % ('raises' if isinstance(got, Exception) else 'parity'), site='svgpathtools/path.py:path_encloses_pt',
                        what='path_encloses_pt(%r, %r, polygon %s) = %r, crossing parity says %r' % (pt, opt, pts, got, pr['inside']),
                        case={'poly': c['poly'], 'probe': pr['p']}, expected=pr['inside'], observed=repr(got), driver='enclosure')
    # containment of a small triangle
    tri = [(1, 1), (3, 1), (1, 3)]
    for cd in c['contain'].values():
        if not cd['general']:
            continue
        d = cd['d']
        inner = sp.polygon(*[P2((x + d[0], y + d[1])) for x, y in tri])
        exp_c = (not cd['crosses']) and cd['inside']
        ck.case(fp=('contain', str(c['poly']), str(d)), nontrivial=True)
        try:
            got = inner.is_contained_by(p)
        except Exception as e:      # noqa
            got = e
        # a history on the outer path: queried (bbox, containment), then its closing vertex is moved far away through Path.start / Path.end,
        # queried again: the answer must be the one a newly built Path of the same segments gives
        if not isinstance(got, Exception) and len(pts) >= 3:
            try:
                outer = sp.polygon(*pts)
                outer.bbox(), inner.is_contained_by(outer)
                far_v = pts[0] + (-40 - 55j)
                outer.start = far_v
                outer.end = far_v
                h_got = inner.is_contained_by(outer)
                h_exp = inner.is_contained_by(sp.Path(*[sp.Line(sg_.start, sg_.end) for sg_ in outer]))
                h_box, f_box = outer.bbox(), sp.Path(*[sp.Line(sg_.start, sg_.end) for sg_ in outer]).bbox()
            except Exception as e:      # noqa
                h_got, h_exp, h_box, f_box = e, None, None, None
            if isinstance(h_got, Exception) or h_got != h_exp or tuple(h_box) != tuple(f_box):
                ck.disagree(key='is_contained_by/after-moving-the-closing-vertex-of-the-outer-path', site='svgpathtools/path.py:Path.is_contained_by/bbox',
                            what='polygon %s: bbox(); is_contained_by; outer.start = outer.end = %r; is_contained_by = %r (bbox %r), a newly built path answers %r (bbox %r)' % (
                                pts, pts[0] + (-40 - 55j), h_got, h_box, h_exp, f_box), case={'poly': c['poly'], 'd': d, 'history': True}, expected=repr(h_exp), observed=repr(h_got), driver='containment')
        if got is not exp_c and got != exp_c:
            ck.disagree(key='is_contained_by/%s' % ('raises' if isinstance(got, Exception) else ('crossing' if cd['crosses'] else 'enclosure')),
                        site='svgpathtools/path.py:Path.is_contained_by', what='triangle shifted by %s is_contained_by(polygon %s) = %r, model: crosses=%s inside=%s' % (
                            d, pts, got, cd['crosses'], cd['inside']), case={'poly': c['poly'], 'd': d}, expected=exp_c, observed=repr(got), driver='containment')
    return True


def mkseg(P):
    z = [P2(v) for v in P]
    return {2: sp.Line, 3: sp.QuadraticBezier, 4: sp.CubicBezier}[len(z)](*z)


def bez_cases(ck, bez):
    for b in bez:
        p = sp.Path(*[mkseg(s) for s in b['path']])
        exp = b['area60'] / 60.0 / 4.0          # doubled coordinates: areas x4
        ck.case(fp=('bez', str(b['path'])), nontrivial=True)
        try:
            a, r = p.area(), p.reversed().area()
        except Exception as e:      # noqa
            a, r = e, e
        if not isinstance(a, Exception):
            # translation invariance, determinant scaling - also for paths mixing lines and curves
            for what, q, e in (('translated', p.translated(3.5 - 2j), exp), ('translated far', p.translated(-700 + 900j), exp),
                               ('scaled(2)', p.scaled(2), 4 * exp), ('scaled(-1,3)', p.scaled(-1, 3), -3 * exp)):
                v = q.area()
                if not (abs(v - e) <= 1e-9 * (abs(e) + 64) * (1e4 if 'far' in what else 1)):
                    ck.disagree(key='Path.area/bezier-' + what.split('(')[0].replace(' ', '-'), site='svgpathtools/path.py:Path.area',
                                what='closed Bezier path %r %s: area %r, expected %r' % (p, what, v, e), case={'path': b['path'], 'op': what},
                                expected=e, observed=v, driver='bezier')
                    break
        if isinstance(a, Exception) or not (abs(a - exp) <= 1e-12 * 64) or not (abs(r + exp) <= 1e-12 * 64):
            ck.disagree(key='Path.area/bezier', site='svgpathtools/path.py:Path.area', what='closed Bezier path %r: area %r, reversed %r, exact %r' % (p, a, r, exp),
                        case={'path': b['path']}, expected=exp, observed=repr(a), driver='bezier')


def arc_cases(ck):
    for (cx, cy, rx, ry, rot) in ((0, 0, 5, 5, 0), (3, -2, 5, 3, 0), (1, 1, 2, 7, 30), (0, 0, 13, 13, 45)):
        c = complex(cx, cy)
        w = np.exp(1j * math.radians(rot))
        a, b = c + w * rx, c - w * rx
        for sweep in (True, False):
            p = sp.Path(sp.Arc(a, complex(rx, ry), rot, False, sweep, b), sp.Arc(b, complex(rx, ry), rot, False, sweep, a))
            chord = 0.02
            exp = math.pi * rx * ry * (1 if sweep else -1)
            n = 2 * math.pi * max(rx, ry) / chord
            bound = math.pi * rx * ry * (2 * math.pi / n) ** 2 / 6 * 4 + 1e-9
            ck.case(fp=('ellipse', cx, cy, rx, ry, rot, sweep), nontrivial=True)
            try:
                got = p.area(chord_length=chord)
            except Exception as e:      # noqa
                got = e
            # a negative uniform factor is a half turn and a dilation: determinant s^2 > 0, the orientation stays
            if not isinstance(got, Exception):
                for sfac in (-1, -2.0):
                    try:
                        gs = p.scaled(sfac).area(chord_length=chord * abs(sfac))
                    except Exception as e:      # noqa
                        gs = e
                    if isinstance(gs, Exception) or not (abs(gs - sfac * sfac * exp) <= sfac * sfac * bound):
                        ck.disagree(key='Path.area/arcs-scaled-by-a-negative-factor', site='svgpathtools/path.py:scale', what='ellipse (%s) sweep=%s scaled(%r): area %r, expected %r' % (
                            (cx, cy, rx, ry, rot), sweep, sfac, gs, sfac * sfac * exp), case={'ellipse': [cx, cy, rx, ry, rot], 'sweep': sweep, 'factor': sfac}, expected=sfac * sfac * exp, observed=repr(gs), driver='arcs')
                        break
            if isinstance(got, Exception) or not (abs(got - exp) <= bound) or (got > 0) != sweep:
                ck.disagree(key='Path.area/arcs', site='svgpathtools/path.py:Path.area', what='ellipse (%s) sweep=%s: area %r, pi rx ry = %r (chord bound %g)' % (
                    (cx, cy, rx, ry, rot), sweep, got, exp, bound), case={'ellipse': [cx, cy, rx, ry, rot], 'sweep': sweep}, expected=exp, observed=repr(got), driver='arcs')


def curved_cases(ck):
    """enclosure and containment with curved outlines: ellipses drawn as one long arc (more than 270 degrees, both directions, rotated) closed by
    its chord - enclosure is decided exactly by the disk and the side of the chord, and is affine-invariant; axis-aligned rectangles inside /
    straddling / outside a circle of arcs and a Bezier outline (every crossing is between an axis-parallel line and a curve)."""
    site = 'svgpathtools/path.py:path_encloses_pt / Path.is_contained_by'
    for (cx, cy, rx, ry, rot) in ((0, 0, 5, 5, 0), (30, -20, 5, 5, 0), (3, 2, 6, 3, 0), (-4, 1, 4, 7, 30), (0, 0, 13, 13, 45)):
        c = complex(cx, cy)
        w = cmath.exp(1j * math.radians(rot))
        at = lambda deg: c + w * complex(rx * math.cos(math.radians(deg)), ry * math.sin(math.radians(deg)))     # noqa
        for th in (-100, -135, -170, 20, 100):
            for dl in (-355, -300, -275, 275, 340):
                a, b = at(th), at(th + dl)
                p = sp.Path(sp.Arc(a, complex(rx, ry), rot, True, dl > 0, b), sp.Line(b, a))
                far = c + 10 * max(rx, ry) * (1 + 0.3j)
                # in the pre-image (unit circle) the chord runs between the angles th and th + dl; the region is the side of the chord holding the centre
                u0, u1 = cmath.exp(1j * math.radians(th)), cmath.exp(1j * math.radians(th + dl))
                side = lambda z: ((u1 - u0).real * (z - u0).imag - (u1 - u0).imag * (z - u0).real)      # noqa
                for pa in range(0, 360, 30):
                    for rr in (0.0, 0.5, 0.93, 1.07):
                        z = rr * cmath.exp(1j * math.radians(pa + 7))
                        if abs(side(z)) < 0.05 or (rr == 0.0 and pa):
                            continue
                        pt = c + w * complex(rx * z.real, ry * z.imag)
                        exp = rr < 1 and (side(z) > 0) == (side(0j) > 0)
                        ck.case(fp=('arc-enclosure', cx, cy, rx, ry, rot, th, dl, pa, rr), nontrivial=exp)
                        try:
                            got = sp.path_encloses_pt(pt, far, p)
                        except Exception as e:      # noqa
                            got = e
                        if got is not exp:
                            ck.disagree(key='path_encloses_pt/long-arc-and-chord', site=site,
                                        what='ellipse (%s) drawn as one arc from %d by %d degrees + chord: path_encloses_pt(%r) = %r, exact %r' % (
                                            (cx, cy, rx, ry, rot), th, dl, pt, got, exp), case={'ellipse': [cx, cy, rx, ry, rot], 'th': th, 'dl': dl, 'pt': str(pt)},
                                        expected=exp, observed=repr(got), driver='curved')
                            return
    rect = lambda x0, x1, y0, y1, o=0j: sp.Path(sp.Line(complex(x0, y0) + o, complex(x1, y0) + o), sp.Line(complex(x1, y0) + o, complex(x1, y1) + o),      # noqa
                                             sp.Line(complex(x1, y1) + o, complex(x0, y1) + o), sp.Line(complex(x0, y1) + o, complex(x0, y0) + o))
    # self-crossing outlines whose lobes have opposite orientation (net signed area 0 or small): containment is about crossings and enclosure, not about areas
    bow = sp.polygon(0j, 10 + 10j, 10 + 0j, 0 + 10j)
    lob = sp.polygon(0j, 10 + 10j, 10 + 0j, 0 + 6j)
    for oname, outer in (('bow-tie', bow), ('unequal bow-tie', lob)):
        for verts, exp in (((7 + 4j, 9 + 5j, 7 + 6j), True), ((1 + 4j, 3 + 5j, 1 + 5.5j), oname == 'bow-tie' or True), ((4 + 1j, 6 + 1j, 5 + 2j), False), ((7 + 4j, 12 + 5j, 7 + 6j), False)):
            inner = sp.polygon(*verts)
            if oname == 'unequal bow-tie' and verts[0] == 1 + 4j:
                inner = sp.polygon(0.5 + 3j, 1.5 + 3.2j, 0.7 + 4j)
            ck.case(fp=('bowtie-containment', oname, str(verts)), nontrivial=True)
            try:
                got = inner.is_contained_by(outer)
            except Exception as e:      # noqa
                got = e
            if got is not exp and got != exp:
                ck.disagree(key='is_contained_by/self-crossing-outer-path', site=site, what='triangle %s in the %s %r: is_contained_by = %r, exact %r' % (verts, oname, outer, got, exp),
                            case={'outer': oname, 'tri': [str(v) for v in verts]}, expected=exp, observed=repr(got), driver='curved')
    for o in (0j, 40 - 25j):
        circle = sp.Path(sp.Arc(5 + o, 5 + 5j, 0, False, True, -5 + o), sp.Arc(-5 + o, 5 + 5j, 0, False, True, 5 + o))
        dshape = sp.Path(sp.CubicBezier(0j + o, 6 + o, 6 + 6j + o, 6j + o), sp.Line(6j + o, 0j + o))
        blob = sp.Path(sp.QuadraticBezier(-6 + o, 0 - 9j + o, 6 + o), sp.QuadraticBezier(6 + o, 0 + 9j + o, -6 + o))
        for oname, outer, cases in (('circle of two arcs', circle, (((-2, 2, -1, 1), True), ((3, 7, -1, 1), False), ((6, 8, -1, 1), False), ((-3, 3, 3, 6), False))),
                                    ('cubic D outline', dshape, (((0.5, 2, 2, 4), True), ((1, 6, 2.5, 3.5), False), ((5, 7, 2, 4), False))),
                                    ('two-quadratic blob', blob, (((-2, 2, -1, 1), True), ((-1, 1, 2, 6), False), ((-1, 1, 5, 7), False)))):
            for (x0, x1, y0, y1), exp in cases:
                inner = rect(x0, x1, y0, y1, o)
                ck.case(fp=('rect-in-curve', oname, x0, x1, y0, y1, str(o)), nontrivial=True)
                try:
                    got = inner.is_contained_by(outer)
                except Exception as e:      # noqa
                    got = e
                if got is not exp and got != exp:
                    ck.disagree(key='is_contained_by/axis-aligned-rectangle-vs-curve', site=site,
                                what='rectangle x %r..%r, y %r..%r (+%r) in %s: is_contained_by = %r, exact %r' % (x0, x1, y0, y1, o, oname, got, exp),
                                case={'outer': oname, 'rect': [x0, x1, y0, y1], 'o': str(o)}, expected=exp, observed=repr(got), driver='curved')


def far_outside_points(ck):
    """path_encloses_pt(pt, opt, path) with the outside point opt far away compared with the polygon (a probe 1e2 .. 1e8 times longer than the edges it crosses):
    the answer is the even-odd parity of pt, whatever outside point is used"""
    poly = [0j, 6 + 0j, 6 + 5j, 4 + 5j, 4 + 2j, 2 + 2j, 2 + 5j, 0 + 5j]          # a concave "U"

    def inside(z, pts):
        c = False
        for a_, b_ in zip(pts, pts[1:] + pts[:1]):
            if (a_.imag > z.imag) != (b_.imag > z.imag) and z.real < a_.real + (z.imag - a_.imag) * (b_.real - a_.real) / (b_.imag - a_.imag):
                c = not c
        return c
    queries = [1 + 1j, 3 + 1j, 3 + 3.5j, 5 + 4j, 1 + 4.3j, 3 + 4.9j, 5.5 + 0.4j, 0.3 + 2.2j, 3 + 2.4j, 4.5 + 3.1j]
    for k in (1.0, 0.05, 5e-6, 300.0):
        pts = [w * k for w in poly]
        pth = sp.Path(*[sp.Line(a_, b_) for a_, b_ in zip(pts, pts[1:] + pts[:1])])
        for far in (30.0 * k, 1e2, 1e4, 1e6):
            for dirn in (complex(-0.8137, -0.5813), complex(0.3171, 0.9484), complex(-0.9931, 0.1173)):
                opt = 3 * k + 2.5j * k + far * dirn * (1 if far > 10 * k else 1)
                if inside(opt, pts):
                    continue
                for q in queries:
                    z = q * k
                    ck.case(fp=('far-outside-point', k, far, str(dirn), str(q)), nontrivial=True)
                    want = inside(z, pts)
                    try:
                        got = sp.path_encloses_pt(z, opt, pth)
                    except Exception as e:      # noqa
                        got = e
                    if got is not want and got != want:
                        ck.disagree(key='path_encloses_pt/outside-point-far-away', site='svgpathtools/path.py:path_encloses_pt / Line.intersect', what='U-shaped polygon at scale %g, point %r, outside point %r (%g away): %r, even-odd parity says %r' % (k, z, opt, far, got, want),
                                    case={'scale': k, 'far': far, 'q': str(q)}, expected=want, observed=repr(got), driver='far')
                        return


def run(ck):
    far_outside_points(ck)
    quick = ck.tier == 'quick'
    ck.rules.append('polygon case = one lattice polygon of Area.tla (3..MaxV distinct grid vertices, canonical start); probe case = (polygon, half-integer '
                    'probe proved in general position); containment case = (polygon, triangle offset in general position); non-trivial = enclosed probe')
    ck.assumptions += ['probes / pairs that are not in general position (vertex on the probe, touching, coincident crossing points) are not generated',
                       'arcs: chord-length approximation error bounded by pi rx ry (2 pi / n)^2 / 6 x 4']
    mc = open(pm.__file__.rsplit('/', 2)[0] + '/spec/Area_MC.cfg').read()
    ck.tlc('Area', mc, need_actions=['Step'], timeout=3000)
    # the algebra for ALL integer matrices / points (Apalache, unbounded): composition, associativity, det, evaluation commutes, area scales by det
    ck.apalache('MC_Affine', 'Inv')
    ck.apalache('MC_Affine', 'Wrong', expect_error=True)
    d = 'SPECIFICATION Spec\nCONSTANTS MaxV = %d\n Grid <- %s\n Probes <- ProbesA\n Opt <- OptA\nCONSTRAINT AtStart\nINVARIANT Dump\n'
    first = {}

    def on_case(c):
        poly_case(ck, c)
        first.setdefault('bez', c['bez'])
        ck.sample('polygon', {'poly': c['poly'], 'shoelace': c['shoelace'], 'probes': c['probes'][:3]})
    ck.tlc('Area', d % (4, 'GridB') if quick else d % (5, 'GridB'), workers=1, coverage=False, on_case=on_case, timeout=3000)
    if not quick:
        ck.tlc('Area', d % (4, 'GridA'), workers=1, coverage=False, on_case=on_case, timeout=3000)
    else:
        ck.tlc('Area', d % (3, 'GridA'), workers=1, coverage=False, on_case=on_case, timeout=3000)
    bez_cases(ck, first['bez'])
    ck.sample('bezier', first['bez'][0])
    arc_cases(ck)
    curved_cases(ck)


def replay(rec):
    print(rec['what'])
    print('expected', rec['expected'], 'observed', rec['observed'])
    return 1
