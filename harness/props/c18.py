"""C18 - paths written to SVG (wsvg, Document) are read back unchanged, with attributes.

P  SvgHist.tla: AddedVisible / GroupsClosed / SaveReloadIdentity / FileIsSnapshot over all histories
   of add_path (root / nested names / element), add_group, save, reload from an empty or a loaded
   Document.
G  every behaviour of the small configuration (+ simulated longer ones) is replayed on a real
   Document in a temporary directory; after every operation paths() and paths_from_group() of
   every group are compared with the model, after every save the file is also read with svg2paths
   and SaxDocument; wsvg(paths, attributes, svg_attributes) round trips for lists of model paths
   read back by svg2paths2, Document and SaxDocument (order, geometry under C01's relation,
   attributes).
"""
import itertools
import math
import os
import random
import shutil
import tempfile

from .. import pathmodel as pm

sp = pm.sp
NS = 'http://www.w3.org/2000/svg'


def pool():
    return {
        0: sp.parse_path('M 1,1 L 5,1 L 5,4'),
        1: sp.Path(sp.Line(0j, 3 + 4j), sp.CubicBezier(3 + 4j, 5 + 4j, 6 + 1j, 8 + 0j)),
        2: sp.Path(sp.Line(2 + 2j, 7 + 2j), sp.Arc(7 + 2j, 3 + 2j, 0, False, True, 4 + 5j), sp.QuadraticBezier(4 + 5j, 1 + 6j, 2 + 2j)),
        3: sp.Path(sp.Line(1 + 0j, 2 + 9j), sp.Line(10 + 10j, 12.5 + 1e-3j), sp.CubicBezier(12.5 + 1e-3j, 13 + 2j, 13 + 2j, 1e6 + 0.1j)),
    }


ATTRS = {0: None, 1: {'stroke': 'red', 'class': 'c1', 'font-family': "'DejaVu  Sans',  serif"}, 2: {'fill': 'none', 'stroke-width': '2', 'stroke': '#00ff00', 'data-label': ' x '},
         3: {'d': 'M 0,0 L 9,9', 'stroke': 'blue', 'fill': 'none'}}      # e.g. a dict read from another element: the path passed must win
BASE = ('<svg xmlns="%s" version="1.1" width="100" height="80">\n <g id="base" style="stroke:blue;opacity:0.5">\n  <path d="M 1,1 L 5,1 L 5,4" stroke="red" class="c1" font-family="\'DejaVu  Sans\',  serif"/>\n </g>\n</svg>\n' % NS)


def ident(path, P):
    for k, q in P.items():
        if path == q:
            return k
    return None


def attrs_ok(got, want):
    def same(g, v):
        if isinstance(v, (int, float)) and not isinstance(v, bool):
            try:
                return g is not None and float(g) == float(v)          # a number supplied as a number comes back as text spelling that number
            except (TypeError, ValueError):
                return False
        return g == v
    return all(same(got.get(k), v) for k, v in (want or {}).items() if k != 'd')


def replay_history(ck, c, tmp, P):
    origin, hist = c['origin'], c['hist']
    ck.case(fp=str(c), nontrivial=any(h['op'] == 'add_path' for h in hist))
    ck.sample('history/%s' % origin, c)
    fn0, fn = os.path.join(tmp, 'base.svg'), os.path.join(tmp, 'saved.svg')
    if origin == 'empty':
        doc = sp.Document()
        groups = {()}
        entries = []
    else:
        with open(fn0, 'w') as f:
            f.write(BASE)
        doc = sp.Document(fn0)
        groups = {(), ('base',)}
        entries = [{'g': ('base',), 'p': 0, 'a': 1}]
    saved = None

    def bad(key, what, exp=None, obs=None, step=None):
        ck.disagree(key='Document/' + key, site='svgpathtools/document.py', what='%s (origin=%s, history=%s)' % (what, origin, [h['op'] for h in hist[:step]]),
                    case={'origin': origin, 'hist': hist[:step]}, expected=exp, observed=obs, driver='history')
        return False

    def queries(step, after_reload=False):
        try:
            got = doc.paths()
        except Exception as e:      # noqa
            return bad('paths-raises-' + type(e).__name__, 'paths() raised %r' % e, step=step)
        ids = [ident(p, P) for p in got]
        want = sorted(e['p'] for e in entries)
        if sorted(x for x in ids if x is not None) != want or None in ids:
            key = 'added-path-not-visible' if len(ids) < len(want) else 'paths-differ'
            if after_reload:
                key += '-after-reload'
            return bad(key, 'paths() returned ids %s, model says %s' % (ids, want), want, ids, step)
        for p in got:
            e = [x for x in entries if x['p'] == ident(p, P)][0]
            if not attrs_ok(dict(p.element.attrib), ATTRS[e['a']]):
                return bad('attributes-lost', 'attributes of path %d: %s, supplied %s' % (e['p'], dict(p.element.attrib), ATTRS[e['a']]), ATTRS[e['a']], dict(p.element.attrib), step)
        # insertion order is kept within a group
        for g in groups:
            if g == ():
                continue
            try:
                ps = doc.paths_from_group(list(g))
            except Exception as e:      # noqa
                return bad('paths_from_group-raises-' + type(e).__name__, 'paths_from_group(%s) raised %r' % (list(g), e), step=step)
            gi = sorted(ident(p, P) for p in ps if ident(p, P) is not None)
            want_g = sorted(e['p'] for e in entries if e['g'][:len(g)] == g)
            if gi != want_g:
                return bad('paths_from_group-differ', 'paths_from_group(%s) = %s, model %s' % (list(g), gi, want_g), want_g, gi, step)
            direct = [ident(p, P) for p in doc.paths_from_group(list(g), recursive=False)]
            want_d = [e['p'] for e in entries if e['g'] == g]
            if direct != want_d:
                return bad('paths_from_group-order', 'paths_from_group(%s, recursive=False) = %s, insertion order %s' % (list(g), direct, want_d), want_d, direct, step)
        return True

    for step, h in enumerate(hist, 1):
        try:
            if h['op'] == 'add_path':
                g = tuple(h['g'])
                grp = None if h['how'] == 'none' else (list(g) if h['how'] == 'names' else doc.get_group(list(g)))
                if h['how'] == 'element' and grp is None:
                    return bad('get_group-none', 'get_group(%s) returned None for an existing group' % list(g), step=step)
                doc.add_path(P[h['p']], attribs=ATTRS[h['a']], group=grp)
                for k in range(len(g) + 1):
                    groups.add(g[:k])
                entries.append({'g': g, 'p': h['p'], 'a': h['a']})
            elif h['op'] == 'add_group':
                g = tuple(h['g'])
                doc.get_or_add_group(list(g))
                for k in range(len(g) + 1):
                    groups.add(g[:k])
            elif h['op'] == 'save':
                doc.save(fn)
                saved = (set(groups), [dict(e) for e in entries])
                # the saved file, read by the other readers
                want = sorted(e['p'] for e in entries)
                try:
                    ps, at = sp.svg2paths(fn)
                    ids = sorted(ident(p, P) for p in ps if ident(p, P) is not None)
                    if ids != want or len(ps) != len(want):
                        bad('saved-file-unreadable-by-svg2paths', 'svg2paths(saved file) found ids %s, document has %s' % (ids, want), want, ids, step)
                    else:
                        for p, a in zip(ps, at):
                            e = [x for x in entries if x['p'] == ident(p, P)][0]
                            if not attrs_ok(a, ATTRS[e['a']]):
                                bad('attributes-lost-in-file', 'svg2paths attributes %s, supplied %s' % (a, ATTRS[e['a']]), ATTRS[e['a']], a, step)
                except Exception as e:      # noqa
                    bad('saved-file-svg2paths-raises', 'svg2paths(saved file) raised %r' % e, step=step)
                try:
                    flat = sp.SaxDocument(fn).flatten_all_paths()
                    ids = sorted(ident(p, P) for p in flat if ident(p, P) is not None)
                    if ids != want or len(flat) != len(want):
                        bad('saved-file-unreadable-by-SaxDocument', 'SaxDocument(saved file) found ids %s, document has %s' % (ids, want), want, ids, step)
                    else:
                        sx = sp.SaxDocument(fn)
                        for v, p in zip(sx.tree, sx.flatten_all_paths()):
                            e = [x for x in entries if x['p'] == ident(p, P)][0]
                            if not attrs_ok(v, ATTRS[e['a']]):
                                bad('attributes-changed-by-SaxDocument', 'SaxDocument attributes of path %d: %s, supplied %s' % (
                                    e['p'], {k: v.get(k) for k in ATTRS[e['a']]}, ATTRS[e['a']]), ATTRS[e['a']], {k: v.get(k) for k in ATTRS[e['a']]}, step)
                except Exception as e:      # noqa
                    bad('saved-file-SaxDocument-raises', 'SaxDocument(saved file) raised %r' % e, step=step)
            elif h['op'] == 'reload':
                doc = sp.Document(fn)
                groups, entries = set(saved[0]), [dict(e) for e in saved[1]]
        except Exception as e:      # noqa
            return bad('%s-raises-%s' % (h['op'], type(e).__name__), '%s raised %r' % (h, e), step=step)
        if not queries(step, after_reload=(h['op'] == 'reload')):
            return False
    return True


def nearly_identical_transforms(ck, tmp):
    """a group transform that differs from the identity in the sixth digit is a transform: what was added under it reads back mapped by it, by every reader
    (drawings in map coordinates make the difference tens of units)"""
    for ti, (tf, f) in enumerate((('scale(1.000004)', lambda z: 1.000004 * z), ('translate(0.00001,0)', lambda z: z + 0.00001), ('rotate(0.0003)', lambda z: z * complex(math.cos(math.radians(0.0003)), math.sin(math.radians(0.0003)))),
                                 ('matrix(1 0.000002 0 1 0 0)', lambda z: complex(z.real, z.imag + 0.000002 * z.real)))):
        for off in (0j, 5e6 + 4e6j):
            pth = sp.Path(sp.Line(off + 1 + 1j, off + 30 + 5j), sp.CubicBezier(off + 30 + 5j, off + 40 + 20j, off + 10 + 30j, off + 2 + 22j))
            fn = os.path.join(tmp, 'near%d_%d.svg' % (ti, int(abs(off) > 0)))
            ck.case(fp=('nearly-identity', tf, str(off)), nontrivial=True)
            try:
                doc = sp.Document()
                g = doc.add_group(group_attribs={'transform': tf})
                doc.add_path(pth, group=g)
                doc.save(fn)
                want = [f(pth[0].start), f(pth[1].point(0.5)), f(pth[1].end)]
                res = {}
                for who, get in (('Document.paths (before saving)', lambda: doc.paths()), ('Document.paths', lambda: sp.Document(fn).paths()), ('SaxDocument.flatten_all_paths', lambda: sp.SaxDocument(fn).flatten_all_paths())):
                    ps = list(get())
                    got = [ps[0][0].start, ps[0][1].point(0.5), ps[0][1].end] if len(ps) == 1 and len(ps[0]) == 2 else None
                    tol = 1e-9 * (abs(off) + 50)
                    if got is None or any(not (abs(a_ - b_) <= tol) for a_, b_ in zip(got, want)):
                        res[who] = got
                if res:
                    ck.disagree(key='%s/nearly-identical-group-transform-not-applied' % sorted(res)[0].split(' ')[0], site='svgpathtools/svg_io_sax.py / document.py', what='group transform %s, path at offset %r: %r, expected %r' % (tf, off, res, want),
                                case={'tf': tf, 'off': str(off)}, expected=[str(w_) for w_ in want], observed=repr(res), driver='history')
            except Exception as e:      # noqa
                ck.disagree(key='Document/nearly-identical-group-transform-raises', site='svgpathtools/document.py', what='group transform %s: raised %r' % (tf, e), case={'tf': tf}, expected='paths', observed=repr(e), driver='history')


def wsvg_roundtrips(ck, rnd, tmp, P, n):
    keys = [1, 2, 3, 0]
    combos = [list(c) for r in (1, 2, 3) for c in itertools.permutations(keys, r)]
    rnd.shuffle(combos)
    names = ['w.svg', 'drawing', '.hidden', 'with space.svg', 'out.xml', 'deep/sub dir/file.svg']
    for ci, lst in enumerate(combos[:n]):
        fn = os.path.join(tmp, names[ci % len(names)])          # "for all filenames": also names without an extension / in a directory yet to be created
        for amode in ('none', 'dicts', 'shared', 'styled', 'numeric'):
            paths = [P[k] for k in lst]
            shared = dict(ATTRS[2])
            attributes = None if amode == 'none' else ([shared] * len(lst) if amode == 'shared' else [dict(ATTRS[1 + (i % 2)]) for i in range(len(lst))])
            if amode == 'numeric':
                # values given as numbers, zero included (a fully transparent fill, a hairline of width 0 are ordinary settings)
                attributes = [{'stroke-width': 0, 'fill-opacity': 0.0, 'opacity': 1, 'stroke-miterlimit': 4.5, 'stroke': 'black'} if i % 2 == 0 else {'stroke-width': 2.5, 'stroke-opacity': 0, 'fill': 'none'}
                              for i in range(len(lst))]
            svg_attributes = {'width': '120', 'height': '90', 'viewBox': '0 0 120 90'} if amode != 'none' else None
            if amode == 'styled':
                svg_attributes['style'] = 'stroke:blue;fill:yellow'
            ck.case(fp=('wsvg', tuple(lst), amode), nontrivial=len(lst) >= 2)
            import copy
            given_attributes, given_svg = copy.deepcopy(attributes), copy.deepcopy(svg_attributes)      # what was supplied (the callee must not be trusted to leave its arguments alone)

            def bad(key, what, exp=None, obs=None):
                ck.disagree(key='wsvg/' + key, site='svgpathtools/paths2svg.py:wsvg', what='%s (paths %s, attributes=%s)' % (what, lst, amode),
                            case={'paths': lst, 'attributes': amode}, expected=exp, observed=obs, driver='wsvg')
            kw = {}
            if amode == 'shared':
                kw['viewbox'] = (0, 0, 50, 40)          # svg_attributes override conflicting settings (documented): the viewBox read back must be the dict's
            try:
                if os.path.exists(fn):
                    os.remove(fn)
                sp.wsvg(paths, attributes=attributes, svg_attributes=svg_attributes, filename=fn, **kw)
                if ci % 2 == 0:
                    # the same argument objects used for a second file: it is the second one that is read back
                    os.remove(fn)
                    sp.wsvg(paths, attributes=attributes, svg_attributes=svg_attributes, filename=fn, **kw)
                attributes, svg_attributes = given_attributes, given_svg
                if not os.path.exists(fn):
                    bad('file-not-written-where-asked', 'wsvg(filename=%r) did not create that file' % fn)
                    continue
            except Exception as e:      # noqa
                bad('raises-' + type(e).__name__, 'wsvg raised %r' % e)
                continue
            try:
                ps, at, sa = sp.svg2paths2(fn)
                if [ident(p, P) for p in ps] != lst:
                    bad('svg2paths-differs', 'svg2paths2 read %s' % [ident(p, P) for p in ps], lst, [ident(p, P) for p in ps])
                elif attributes and not all(attrs_ok(a, w) for a, w in zip(at, attributes)):
                    bad('attributes-lost', 'path attributes read back %s' % at, attributes, at)
                elif svg_attributes and not attrs_ok(sa, svg_attributes):
                    bad('svg-attributes-lost', 'svg attributes read back %s' % sa, svg_attributes, sa)
                d = sp.Document(fn).paths()
                if [ident(p, P) for p in d] != lst:
                    bad('Document-differs', 'Document.paths read %s' % [ident(p, P) for p in d], lst, [ident(p, P) for p in d])
                elif attributes and not all(attrs_ok(dict(p.element.attrib), w) for p, w in zip(d, attributes)):
                    bad('attributes-lost', 'Document element attributes differ', attributes, [dict(p.element.attrib) for p in d])
                sd = sp.SaxDocument(fn)
                sx = sd.flatten_all_paths()
                if [ident(p, P) for p in sx] != lst:
                    bad('SaxDocument-differs', 'SaxDocument read %s' % [ident(p, P) for p in sx], lst, [ident(p, P) for p in sx])
                elif attributes and not all(attrs_ok(v, w) for v, w in zip(sd.tree, attributes)):
                    bad('attributes-changed-by-SaxDocument', 'SaxDocument attribute values %s' % [{k: v.get(k) for k in w} for v, w in zip(sd.tree, attributes)],
                        attributes, [{k: v.get(k) for k in w} for v, w in zip(sd.tree, attributes)])
            except Exception as e:      # noqa
                bad('readback-raises-' + type(e).__name__, 'reading back raised %r' % e)
    ck.sample('wsvg', {'paths': combos[0], 'attributes': ATTRS[1], 'svg_attributes': {'width': '120', 'height': '90', 'viewBox': '0 0 120 90'}})


def nested_transform_roundtrip(ck, tmp, P):
    """groups with transforms that do not commute, created through Document.add_group, a path (with a transform of its own) added inside, saved, and read back by
    Document and SaxDocument: the same geometry as transform(path, outer . inner . own)"""
    import numpy as np
    T = lambda a, b, c, d, e, f: np.array([[a, c, e], [b, d, f], [0, 0, 1.0]])      # noqa
    combos = [(('translate(10,20)', T(1, 0, 0, 1, 10, 20)), ('scale(2)', T(2, 0, 0, 2, 0, 0)), (None, np.eye(3))),
              (('scale(2,3)', T(2, 0, 0, 3, 0, 0)), ('translate(-5,1)', T(1, 0, 0, 1, -5, 1)), ('rotate(90)', T(0, 1, -1, 0, 0, 0))),
              (('matrix(0 1 -1 0 3 4)', T(0, 1, -1, 0, 3, 4)), ('skewX(45)', T(1, 0, 1, 1, 0, 0)), ('translate(7)', T(1, 0, 0, 1, 7, 0)))]
    for ci, ((t1, M1), (t2, M2), (t3, M3)) in enumerate(combos):
        for k in (0, 1, 3):
            fn = os.path.join(tmp, 'nested%d_%d.svg' % (ci, k))
            ck.case(fp=('nested-transforms', ci, k), nontrivial=True)
            try:
                doc = sp.Document()
                g1 = doc.add_group(group_attribs={'transform': t1, 'id': 'outer'})
                g2 = doc.add_group(group_attribs={'transform': t2, 'id': 'inner'}, parent=g1)
                doc.add_path(P[k], attribs=({'transform': t3} if t3 else None), group=g2)
                want = sp.path.transform(P[k], M1.dot(M2).dot(M3))
                before = doc.paths()
                doc.save(fn)
                got = {'Document before saving': before, 'Document(saved file)': sp.Document(fn).paths(), 'SaxDocument(saved file)': sp.SaxDocument(fn).flatten_all_paths()}
            except Exception as e:      # noqa
                ck.disagree(key='Document/nested-transforms/raises-' + type(e).__name__, site='svgpathtools/document.py / svg_io_sax.py', what='nested transforms %s / %s / %s raised %r' % (t1, t2, t3, e),
                            case={'combo': ci, 'path': k}, expected='paths', observed=repr(e), driver='nested')
                continue
            # a path that came out of a Document (it carries its source element, transform attribute included) added to a Document without attributes:
            # it is already flattened and must come back as it is
            try:
                src = sp.Document(fn).paths()[0]
                doc2 = sp.Document(fn)
                doc2.add_path(src)
                both = doc2.paths()
                ok2 = len(both) == 2 and all(len(q_) == len(want) and all(abs(a_.point(0.3) - b_.point(0.3)) <= 1e-6 * (1 + abs(b_.point(0.3))) for a_, b_ in zip(q_, want)) for q_ in both)
            except Exception as e:      # noqa
                ok2, both = False, e
            if not ok2:
                ck.disagree(key='Document/add_path-of-a-flattened-path', site='svgpathtools/document.py:Document.add_path',
                            what='a path returned by Document.paths() (under %s > %s > %s) added with add_path(p): paths() = %r, expected twice %r' % (t1, t2, t3, both, want),
                            case={'combo': ci, 'path': k, 'readd': True}, expected=repr(want), observed=repr(both), driver='nested')
            for who, ps in got.items():
                ok = len(ps) == 1 and len(ps[0]) == len(want) and all(type(a_) is type(b_) and abs(a_.start - b_.start) <= 1e-6 * (1 + abs(b_.start)) and abs(a_.end - b_.end) <= 1e-6 * (1 + abs(b_.end)) and
                                                                     abs(a_.point(0.3) - b_.point(0.3)) <= 1e-6 * (1 + abs(b_.point(0.3))) for a_, b_ in zip(ps[0], want))
                if not ok:
                    ck.disagree(key='%s/nested-transforms' % who.split('(')[0].split(' ')[0], site='svgpathtools/document.py / svg_io_sax.py',
                                what='%s of a path under %s > %s > %s: %r, expected %r' % (who, t1, t2, t3, ps, want), case={'combo': ci, 'path': k, 'reader': who},
                                expected=repr(want), observed=repr(ps), driver='nested')
                    break


def polygon_rewrite(ck, tmp):
    """a polygon that repeats its first point, read by svg2paths (n lines, the last of zero length), written by wsvg and read back"""
    src = os.path.join(tmp, 'poly_src.svg')
    with open(src, 'w') as f:
        f.write('<svg xmlns="%s"><polygon points="0,0 4,0 4,3 0,0"/><polyline points="1,1 5,1 5,4 1,1"/><polygon points="2,2 6,2 6,5"/></svg>' % NS)
    try:
        ps, _ = sp.svg2paths(src)
        fn = os.path.join(tmp, 'poly_out.svg')
        sp.wsvg(ps, filename=fn)
        back = {'svg2paths': sp.svg2paths(fn)[0], 'Document': sp.Document(fn).paths(), 'SaxDocument': sp.SaxDocument(fn).flatten_all_paths()}
    except Exception as e:      # noqa
        ck.disagree(key='wsvg/polygon-rewrite-raises', site='svgpathtools/paths2svg.py:wsvg', what='polygon file -> svg2paths -> wsvg -> read back raised %r' % e, case={'polygon': True},
                    expected='paths', observed=repr(e), driver='wsvg')
        return
    for who, got in back.items():
        ck.case(fp=('polygon-rewrite', who), nontrivial=True)
        if [list(p_) for p_ in got] != [list(p_) for p_ in ps]:
            ck.disagree(key='wsvg/polygon-rewrite-differs', site='svgpathtools/paths2svg.py:wsvg', what='%s reads back %r, written %r' % (who, got, ps), case={'polygon': True, 'reader': who},
                        expected=repr(ps), observed=repr(got), driver='wsvg')


def run(ck):
    rnd = random.Random(ck.seed)
    quick = ck.tier == 'quick'
    ck.rules.append('history case = one behaviour of SvgHist.tla (origin + operations) replayed on a real Document with all queries after each step; '
                    'wsvg case = (list of pool paths, attribute mode); non-trivial = contains an add_path / >= 2 paths')
    ck.assumptions += ['paths are identified by equality with the pool paths (absolute d-strings round-trip exactly, C01)',
                       'order is demanded within one group (insertion order) and for wsvg lists; across groups Document.paths order is not prescribed']
    mc = open(pm.__file__.rsplit('/', 2)[0] + '/spec/SvgHist_MC.cfg').read()
    ck.tlc('SvgHist', mc if not quick else mc.replace('MaxOps = 5', 'MaxOps = 4'), need_actions=['AddPath', 'AddGroup', 'Save', 'Reload'], timeout=3000)
    P = pool()
    PE = dict(P)
    PE[1] = sp.Path()
    tmp = tempfile.mkdtemp(prefix='c18_')
    try:
        st = {'n': 0}

        def on_case(c, every=1):
            st['n'] += 1
            if st['n'] % every == 0:
                # every second history with an empty path (d="") in the place of path 1
                replay_history(ck, c, tmp, P if (st['n'] // every) % 2 else PE)
        d = 'SPECIFICATION Spec\nCONSTANTS MaxOps = %d\n NPaths = 3\n Names = {"a", "b"}\n Variant = "correct"\nINVARIANT Dump\n'
        ck.tlc('SvgHist', d % 2, workers=1, coverage=False, on_case=on_case)
        ck.tlc('SvgHist', d % 3, workers=1, coverage=False, on_case=lambda c: on_case(c, 60 if quick else 6), timeout=3000)
        for depth, num in ((5, 4), (7, 3)) if quick else ((5, 40), (7, 30), (9, 10)):
            ck.tlc('SvgHist', d % depth, workers=1, coverage=False, simulate=num, depth=depth + 1, on_case=lambda c: on_case(c, 2 if quick else 1), timeout=3000)
        ck.count('histories', st['n'])
        wsvg_roundtrips(ck, rnd, tmp, P, 12 if quick else 40)
        nested_transform_roundtrip(ck, tmp, P)
        nearly_identical_transforms(ck, tmp)
        polygon_rewrite(ck, tmp)
    finally:
        shutil.rmtree(tmp, ignore_errors=True)


def replay(rec):
    print(rec['what'])
    print('expected', rec['expected'], 'observed', rec['observed'])
    return 1
