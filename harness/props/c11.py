"""C11 - every reported intersection is a real one, in range, with coherent parameters.

P  Crossings.tla: MeetExactly / Monotone / TransversalOK for the constructed crossing pairs (the
   crossing point is known exactly and is unique), Separated for the provably disjoint pairs.
G  every model pair, in both operand orders: each returned (t1,t2) must be in [0,1], the two points
   must coincide (1e-5 of the size; 1e-3 with arcs), must be the known crossing (none for the
   disjoint pairs, incl. the one-lattice-unit near misses), and b.intersect(a) must give the same
   crossings with exchanged parameters.  Circle-lattice arc pairs (A-L, A-Q, A-C, A-A circular);
   Path.intersect: T <-> (segment, t) coherence and membership.
"""
import cmath
import math
import random

from .. import crossmodel as cm

sp = cm.sp


def extent(a, b):
    """the size of the two curves together (diagonal of the box around their defining points) - not their distance from the origin"""
    pts = []
    for sg in (a, b):
        if isinstance(sg, sp.Arc):
            x0, x1, y0, y1 = sg.bbox()
            pts += [complex(x0, y0), complex(x1, y1)]
        else:
            pts += list(sg.bpoints())
    return abs(complex(max(z.real for z in pts) - min(z.real for z in pts), max(z.imag for z in pts) - min(z.imag for z in pts)))


def check_returned(ck, tag, a, b, res, known, tol, case, allow_none_known=False):
    """soundness of a result list.  known = list of (t1,t2,pt) or None (nothing known)"""
    size = extent(a, b)
    names = type(a).__name__ + '-' + type(b).__name__

    def bad(key, what):
        ck.disagree(key='intersect/%s/%s' % (names, key), site='svgpathtools/path.py:intersect / bezier.py', what='[%s] %r x %r: %s' % (tag, a, b, what),
                    case=case, expected=[(k[0], k[1]) for k in known] if known else [], observed=[(float(u), float(v)) for u, v in res], driver='soundness')
        return False
    for (t1, t2) in res:
        if not (0 <= t1 <= 1 and 0 <= t2 <= 1):
            return bad('parameter-out-of-range', 'pair (%r, %r)' % (t1, t2))
        p, q = a.point(t1), b.point(t2)
        if not (abs(p - q) <= tol * size):
            return bad('points-do-not-coincide', 'points %r / %r at (%r, %r)' % (p, q, t1, t2))
        if known is not None and not any(abs(p - k[2]) <= max(tol * size, 1e-4 * size) for k in known):
            return bad('spurious-crossing', 'reported crossing at %r is none of the known crossings %s' % (p, [k[2] for k in known]))
    return True


def pair_case(ck, tag, a, b, known, tol, case):
    try:
        r1 = a.intersect(b)
        r2 = b.intersect(a)
    except Exception as e:      # noqa
        if isinstance(a, sp.Arc) and isinstance(b, sp.Arc) and not (a.radius.real == a.radius.imag and b.radius.real == b.radius.imag and a.rotation == 0 and b.rotation == 0):
            return True         # general arc-arc pairs may raise (documented as not fully implemented)
        ck.disagree(key='intersect/%s-%s/raises-%s' % (type(a).__name__, type(b).__name__, type(e).__name__), site='svgpathtools/path.py:intersect',
                    what='[%s] %r x %r raised %r' % (tag, a, b, e), case=case, expected='list', observed=repr(e), driver='soundness')
        return False
    ok = check_returned(ck, tag, a, b, r1, known, tol, case)
    ok = check_returned(ck, tag + ' (swapped)', b, a, r2, [(k[1], k[0], k[2]) for k in known] if known is not None else None, tol, case) and ok
    if ok:
        # the same crossing points in both orders
        size = extent(a, b)
        p1 = [a.point(t1) for t1, _ in r1]
        p2 = [a.point(t2) for _, t2 in r2]
        for p in p1:
            if not any(abs(p - q) <= 1e-3 * size for q in p2):
                ck.disagree(key='intersect/%s-%s/not-symmetric' % (type(a).__name__, type(b).__name__), site='svgpathtools/path.py:intersect',
                            what='[%s] %r x %r: crossing at %r is missing when the operands are swapped (%s vs %s)' % (tag, a, b, p, r1, r2), case=case,
                            expected=[str(x) for x in p1], observed=[str(x) for x in p2], driver='soundness')
                return False
        for q in p2:
            if not any(abs(p - q) <= 1e-3 * size for p in p1):
                ck.disagree(key='intersect/%s-%s/not-symmetric' % (type(a).__name__, type(b).__name__), site='svgpathtools/path.py:intersect',
                            what='[%s] %r x %r: swapped operands report an extra crossing at %r' % (tag, a, b, q), case=case,
                            expected=[str(x) for x in p1], observed=[str(x) for x in p2], driver='soundness')
                return False
    return ok


def run(ck):
    rnd = random.Random(ck.seed)
    quick = ck.tier == 'quick'
    ck.rules.append('case = one ordered pair of segments from Crossings.tla (constructed crossing at k/3 or k/2, or provably disjoint with gap 1-2 lattice '
                    'units) or from the circle-lattice arc families; Path cases; non-trivial = the pair crosses')
    ck.assumptions += ['pairs off the lattice are not decided', 'for constructed pairs the crossing is unique (NE- vs SE-monotone control polygons): any other reported pair is spurious']
    if not quick:
        ck.tlc('Crossings', 'Crossings_MC.cfg', timeout=1200)
        # Subdiv.tla: Sound (whatever the loop reports lies on two small pieces whose boxes meet) + conformance of the real loop (details: C12)
        from .. import subdivmodel
        subdivmodel.run(ck, True)
    # the model invariants are checked in the same TLC run that exports the cases
    d = 'SPECIFICATION Spec\nCONSTANTS Q = %d\n Fams = {"%s"}\nINVARIANT MeetExactly\nINVARIANT Monotone\nINVARIANT TransversalOK\nINVARIANT Separated\nINVARIANT Dump\n'
    nsmall = [0]
    for q, fam, n in ((3, 'cross', 150 if quick else 1200), (2, 'cross', 60 if quick else 400), (3, 'apart', 150 if quick else 1500)):
        r = ck.tlc('Crossings', d % (q, fam), workers=1, coverage=False, timeout=1200)
        cases = r.cases
        rnd.shuffle(cases)
        # keep the slow Bezier-Bezier pairs to a share
        bb = [c for c in cases if c['pr']['n1'] > 1 and c['pr']['n2'] > 1][:n // 3]
        rest = [c for c in cases if not (c['pr']['n1'] > 1 and c['pr']['n2'] > 1)][:n - len(bb)]
        for c in bb + rest:
            a, b, t1, t2 = cm.pair_of(c)
            pr = c['pr']
            ck.case(fp=('pair', q, fam, str(pr)), nontrivial=fam == 'cross')
            known = [(t1, t2, a.point(t1))] if fam == 'cross' else []
            pair_case(ck, '%s Q=%d' % (fam, q), a, b, known, 1e-5, {'pr': pr, 'q': q})
            if pr['n1'] == 1 or pr['n2'] == 1:
                # the same pair drawn small and far away (line pairs are cheap): same crossings
                fa, fb = a.scaled(1e-3).translated(4000 + 3000j), b.scaled(1e-3).translated(4000 + 3000j)
                ck.case(fp=('pair-far', q, fam, str(pr)), nontrivial=fam == 'cross')
                pair_case(ck, '%s Q=%d scaled 1e-3 at 4000+3000j' % (fam, q), fa, fb, [(t1, t2, fa.point(t1))] if fam == 'cross' else [], 1e-5, {'pr': pr, 'q': q, 'far': True})
            if pr['n1'] > 1 and pr['n2'] > 1 and nsmall[0] < (10 if quick else 60):
                # two Beziers drawn at a thousandth / a hundred-thousandth of the size: whatever is reported must be a meeting point to 1e-5 of *that* size
                nsmall[0] += 1
                for sc_ in (1e-3, 1e-5):
                    sa, sb = a.scaled(sc_), b.scaled(sc_)
                    ck.case(fp=('pair-small', sc_, q, fam, str(pr)), nontrivial=fam == 'cross')
                    pair_case(ck, '%s Q=%d scaled %g' % (fam, q, sc_), sa, sb, [(t1, t2, sa.point(t1))] if fam == 'cross' else [], 1e-5, {'pr': pr, 'q': q, 'scale': sc_})
            if fam == 'cross' and q == 3 and not isinstance(a, sp.Line):
                # touching / near-miss configurations: nothing is known about the count, whatever is returned must be sound
                for name, x, ln in cm.touching_from(a, b, t1, t2):
                    ck.case(fp=('touch', name, str(pr)), nontrivial=True)
                    pair_case(ck, 'touching: line ' + name, x, ln, None, 1e-5, {'pr': pr, 'q': q, 'touch': name})
        ck.sample('%s/Q=%d' % (fam, q), cases[0])
    # two lines that nearly share an end point, near and far from the origin: a near miss (nothing may be reported) and a crossing close to both ends
    for O in (0j, 1000 + 1000j, 300000 + 400000j, -7000 + 0.5j):
        for tag, l1, l2, known in (('near-miss', (0j, 10 + 0j), (10.004 + 0.003j, 14 + 8j), []),
                                   ('crossing next to the ends', (0j, 10 + 0j), (9.996 - 0.004j, 10 + 0.004j), [(0.9998, 0.5, 9.998 + 0j)]),
                                   ('near-miss at the starts', (0j, 3 + 4j), (-0.002 - 0.004j, -5 + 1j), [])):
            a, b = sp.Line(l1[0] + O, l1[1] + O), sp.Line(l2[0] + O, l2[1] + O)
            ck.case(fp=('lines-near-ends', tag, O), nontrivial=True)
            pair_case(ck, 'lines %s at %r' % (tag, O), a, b, [(k[0], k[1], k[2] + O) for k in known], 1e-5, {'lines': tag, 'O': str(O)})
    for name, a, b, known in cm.arc_families() + cm.ellipse_families():
        ck.case(fp=('arc', name, repr(a), repr(b)), nontrivial=True)
        pair_case(ck, name, a, b, known, 1e-3, {'family': name, 'a': repr(a), 'b': repr(b)})
        for tag_, f_ in (('x100', lambda sg: sg.scaled(100)), ('moved by 3000-2000j', lambda sg: sg.translated(3000 - 2000j)), ('x0.05', lambda sg: sg.scaled(0.05))):
            a2, b2 = f_(a), f_(b)
            ck.case(fp=('arc', name, tag_), nontrivial=True)
            pair_case(ck, name + ' ' + tag_, a2, b2, [(k[0], k[1], a2.point(k[0])) for k in known], 1e-3, {'family': name, 'variant': tag_})
    # a quadratic whose crossing polynomial with an axis-parallel line has no linear term (start and control at the same offset from the line)
    for qz, lz in (((0 + 1j, 1 + 1j, 2 - 1j), (-1 + 0j, 3 + 0j)), ((1 + 0j, 1 + 2j, -3 + 4j), (0 - 1j, 0 + 5j)), ((2 + 3j, 5 + 3j, 8 - 5j), (0 + 1j, 9 + 1j)), ((0 - 2j, 3 - 2j, 6 + 2j), (7 + 0j, -1 + 0j))):
        qd, ln = sp.QuadraticBezier(*qz), sp.Line(*lz)
        ck.case(fp=('quad-line-no-linear-term', str(qz)), nontrivial=True)
        pair_case(ck, 'quadratic with start and control equally far from an axis-parallel line', qd, ln, None, 1e-5, {'q': [str(w) for w in qz], 'l': [str(w) for w in lz]})
    # circular arcs on tangent circles (one inside the other / outside each other), both as receiver: whatever is reported must coincide and be symmetric
    for c1, r1, c2, r2, P in ((0j, 10.0, 7 + 0j, 3.0, 10 + 0j), (0j, 10.0, 13 + 0j, 3.0, 10 + 0j), (1 + 1j, 5.0, 1 + 4j, 2.0, 1 + 6j)):
        a0 = math.degrees(cmath.phase(P - c1))
        b0 = math.degrees(cmath.phase(P - c2))
        A1, A2 = cm.arc_through(c1, r1, a0 - 50, a0 + 40), cm.arc_through(c2, r2, b0 - 70, b0 + 100)
        ck.case(fp=('tangent-circles', str(c2), r2), nontrivial=True)
        pair_case(ck, 'arcs on tangent circles', A1, A2, None, 1e-3, {'c1': str(c1), 'r1': r1, 'c2': str(c2), 'r2': r2})
    # a path of several sub-paths met exactly at the last point of a sub-path that is not the last one
    for d1, other in (('M0,0 L4,0 M0,5 L4,5', sp.Path(sp.Line(4 + 0j, 6 + 2j))), ('M0,0 L4,0 M0,5 L4,5', sp.Path(sp.Line(4 - 3j, 4 + 0j))),
                      ('M1,1 Q3,4 5,1 M-2,-2 L-5,-6', sp.Path(sp.Line(5 + 1j, 9 - 1j)))):
        pa = sp.parse_path(d1)
        for A, B in ((pa, other), (other, pa)):
            ck.case(fp=('subpath-end-meeting', d1, A is pa), nontrivial=True)
            try:
                res = A.intersect(B)
            except Exception as e:      # noqa
                ck.disagree(key='Path.intersect/raises-' + type(e).__name__, site='svgpathtools/path.py:Path.intersect', what='%r x %r raised %r' % (A, B, e),
                            case={'d': d1}, expected='list', observed=repr(e), driver='path')
                continue
            for ((T1, s1, t1), (T2, s2, t2)) in res:
                pts = [A.point(T1), s1.point(t1), s2.point(t2), B.point(T2)]
                if not (max(abs(p_ - pts[1]) for p_ in pts) <= 1e-5 * 10):
                    ck.disagree(key='Path.intersect/incoherent', site='svgpathtools/path.py:Path.intersect / Path.point',
                                what='%s met at the end of a sub-path: ((%r, seg, %r), (%r, seg, %r)) gives points %s' % (d1, T1, t1, T2, t2, pts), case={'d': d1},
                                expected='four equal points', observed=[str(p_) for p_ in pts], driver='path')
    # Path.intersect coherence
    for name, p1, p2, exp in cm.path_families():
        ck.case(fp=('path', name), nontrivial=True)
        import copy
        q1 = sp.Path(*[copy.deepcopy(s_) for s_ in p1])
        q2 = sp.Path(*[copy.deepcopy(s_) for s_ in p2])
        q1.intersect(q2)
        # a history: query, move an end point through the Path interface (the crossings stay where they are), query again
        if isinstance(q1[-1], sp.Line):
            q1.end = q1.end + (q1[-1].end - q1[-1].start) * 0.5
        if isinstance(q2[0], sp.Line):
            q2.start = q2.start - (q2[0].end - q2[0].start) * 0.5
        # the same paths with point-like members (a repeated vertex as a zero-length Line, a point-like cubic) at their first joints
        def padded(P_, mk):
            segs = list(P_)
            return sp.Path(*(segs[:1] + [mk(segs[0].end)] + segs[1:])) if len(segs) >= 2 else None
        z1, z2 = padded(p1, lambda z: sp.Line(z, z)), padded(p2, lambda z: sp.CubicBezier(z, z, z, z))
        extra = [(z1, p2), (p2, z1)] if z1 is not None else []
        extra += [(p1, z2), (z2, p1)] if z2 is not None else []
        for A, B in [(p1, p2), (p2, p1), (q1, q2), (q2, q1)] + extra:
            try:
                res = A.intersect(B)
            except Exception as e:      # noqa
                if (A is z1 or A is z2 or B is z1 or B is z2) and ((isinstance(e, ValueError) and 'nodal' in str(e)) or isinstance(e, AssertionError)):
                    continue            # a point-like member against a curve is refused (explicit ValueError / assert line[0] != line[1]): nothing is returned, nothing to judge
                ck.disagree(key='Path.intersect/raises-' + type(e).__name__, site='svgpathtools/path.py:Path.intersect', what='%s raised %r' % (name, e),
                            case={'family': name}, expected='list', observed=repr(e), driver='path')
                continue
            for ((T1, s1, t1), (T2, s2, t2)) in res:
                pts = [A.point(T1), s1.point(t1), s2.point(t2), B.point(T2)]
                okm = any(s1 is s for s in A) and any(s2 is s for s in B)
                if not okm or not (max(abs(p - pts[0]) for p in pts) <= 1e-5 * 12) or not (0 <= T1 <= 1 and 0 <= T2 <= 1 and 0 <= t1 <= 1 and 0 <= t2 <= 1):
                    ck.disagree(key='Path.intersect/incoherent', site='svgpathtools/path.py:Path.intersect',
                                what='%s: ((%r, seg, %r), (%r, seg, %r)) gives points %s (members: %s)' % (name, T1, t1, T2, t2, pts, okm), case={'family': name},
                                expected='four equal points on member segments', observed=[str(p) for p in pts], driver='path')
                    break

        # a bare segment as the other operand (Path.intersect accepts one): the same coherence, the segment standing for a one-member path
        for A, B in ((p1, p2), (p2, p1)):
            for seg in B:
                ck.case(fp=('path-x-segment', name, repr(seg)), nontrivial=True)
                try:
                    res = A.intersect(seg)
                except Exception as e:      # noqa
                    ck.disagree(key='Path.intersect/segment-operand-raises-' + type(e).__name__, site='svgpathtools/path.py:Path.intersect', what='%s: path x bare %r raised %r' % (name, seg, e),
                                case={'family': name}, expected='list', observed=repr(e), driver='path')
                    continue
                for ((T1, s1, t1), (T2, s2, t2)) in res:
                    pts = [A.point(T1), s1.point(t1), s2.point(t2), seg.point(T2), seg.point(t2)]
                    okm = any(s1 is s_ for s_ in A) and (s2 is seg or s2 == seg)
                    if not okm or not (max(abs(p_ - pts[0]) for p_ in pts) <= 1e-5 * 12) or not (0 <= T1 <= 1 and 0 <= T2 <= 1 and 0 <= t1 <= 1 and 0 <= t2 <= 1):
                        ck.disagree(key='Path.intersect/incoherent-with-a-segment-operand', site='svgpathtools/path.py:Path.intersect',
                                    what='%s: path x bare %r: ((%r, seg, %r), (%r, seg, %r)) gives points %s (members: %s)' % (name, seg, T1, t1, T2, t2, pts, okm), case={'family': name},
                                    expected='equal points on member segments', observed=[str(p_) for p_ in pts], driver='path')
                        break
    # the identities that entitle the placement families to their oracle (differences, determinant ratios, squared lengths, extreme coordinates), for all integers
    ck.apalache('MC_Placement', 'Inv')
    ck.apalache('MC_Placement', 'Wrong', expect_error=True)
    thin_and_tiny(ck)
    box_edges_and_joint_crossings(ck)


def box_edges_and_joint_crossings(ck):
    """(a) a line that meets a curve at a point on the edge of the curve's control box (an end point that is the extreme control point) and lies beyond that edge:
    both operand orders report the same contacts; (b) paths where one crossing sits exactly on a joint of the first path and more crossings follow: every returned
    pair is coherent"""
    curves = [sp.CubicBezier(0j, 3 + 2j, 7 + 2j, 10 + 0j), sp.CubicBezier(0j, 2 + 3j, 4 + 5j, 6 + 6j), sp.QuadraticBezier(0j, 4 + 3j, 10 + 0j), sp.CubicBezier(2 + 1j, 4 + 6j, 8 - 4j, 9 + 9j)]
    for cv in curves:
        for at, out in ((cv.end, (4 + 3j)), (cv.end, (3 - 5j)), (cv.start, (-4 - 2j)), (cv.start, (-1 + 6j)), (cv.end, (5 + 0j))):
            for ln in (sp.Line(at, at + out), sp.Line(at + out, at)):
                ck.case(fp=('box-edge', repr(cv), repr(ln)), nontrivial=True)
                pair_case(ck, 'line meeting a curve at its end point, beyond the control box', cv, ln, None, 1e-5, {'curve': repr(cv), 'line': repr(ln)})
    zig = sp.Path(sp.Line(0j, 4 + 4j), sp.Line(4 + 4j, 8 + 0j), sp.CubicBezier(8 + 0j, 10 + 6j, 14 - 6j, 16 + 0j), sp.Line(16 + 0j, 20 + 4j))
    probes = [sp.Path(sp.Line(4 - 2j, 4 + 4j), sp.Line(4 + 4j, 4 + 8j), sp.Line(4 + 8j, 18 + 8j), sp.Line(18 + 8j, 18 - 3j)),      # through the joint at 4+4j, then across the last line
              sp.Path(sp.Line(-1 + 1j, 21 + 1j)), sp.Path(sp.Line(8 - 3j, 8 + 3j), sp.QuadraticBezier(8 + 3j, 14 + 9j, 19 - 2j)),
              sp.Path(sp.CubicBezier(4 + 4j, 9 - 9j, 13 + 9j, 18 + 2j))]
    for pi_, pr_ in enumerate(probes):
        for A, B in ((zig, pr_), (pr_, zig)):
            ck.case(fp=('joint-then-more', pi_, A is zig), nontrivial=True)
            try:
                res = A.intersect(B)
            except Exception as e:      # noqa
                ck.disagree(key='Path.intersect/raises-' + type(e).__name__, site='svgpathtools/path.py:Path.intersect', what='joint crossing family %d raised %r' % (pi_, e), case={'probe': pi_}, expected='list', observed=repr(e), driver='path')
                continue
            for ((T1, s1, t1), (T2, s2, t2)) in res:
                pts = [A.point(T1), s1.point(t1), s2.point(t2), B.point(T2)]
                okm = any(s1 is s_ for s_ in A) and any(s2 is s_ for s_ in B)
                if not okm or not (max(abs(p_ - pts[0]) for p_ in pts) <= 1e-5 * 25):
                    ck.disagree(key='Path.intersect/incoherent', site='svgpathtools/path.py:Path.intersect', what='a crossing on a joint followed by more crossings (family %d): ((%r, seg, %r), (%r, seg, %r)) gives points %s (members: %s)' % (pi_, T1, t1, T2, t2, pts, okm),
                                case={'probe': pi_}, expected='four equal points on member segments', observed=[str(p_) for p_ in pts], driver='path')
                    break


def thin_and_tiny(ck):
    """(a) a nearly straight, nearly axis-parallel Bezier (thin, long boxes) against a curve: the reported points coincide to 1e-5 of the size;
    (b) Line x nearly straight Bezier drawn in units of 1e-5 .. 1e-7: the small top coefficient of the polynomial is part of the curve"""
    for flat in (1e-2, 1e-4, 1e-6, 1e-8, 0.0):
        strokes = [sp.CubicBezier(0j, 3 + flat * 1j, 7 + flat * 2j, 10 + flat * 3j), sp.QuadraticBezier(0j, 5 + flat * 5j, 10 + 0j), sp.CubicBezier(complex(flat, 0), complex(2 * flat, 3), complex(0, 7), complex(flat, 10)).translated(4 - 5j)]
        others = [sp.CubicBezier(1 - 4j, 4 + 6j, 6 - 6j, 9 + 4j), sp.QuadraticBezier(2 - 3j, 5 + 9j, 8 - 3j)]
        for st in strokes:
            if flat == 0.0 and not isinstance(st, sp.QuadraticBezier):
                continue            # (exactly axis-parallel straight Beziers: the recorded finding of C12)
            for ot in others:
                ck.case(fp=('thin', flat, repr(st), repr(ot)), nontrivial=True)
                pair_case(ck, 'thin stroke (flatness %g)' % flat, st, ot, None, 1e-5, {'flat': flat, 'stroke': repr(st), 'other': repr(ot)})
    for unit in (1e-3, 1e-5, 1e-6, 1e-7):
        for sag in (0.1, 0.005, 0.0005):
            hump = sp.QuadraticBezier(0j, complex(5, 2 * sag * 10) * unit, complex(10, 0) * unit)
            hump3 = sp.CubicBezier(0j, complex(3, sag * 13) * unit, complex(7, sag * 13) * unit, complex(10, 0) * unit)
            for ln in (sp.Line(complex(2, -1) * unit, complex(3, 1) * unit), sp.Line(complex(8, 2) * unit, complex(6.5, -2) * unit), sp.Line(complex(-1, sag * 5) * unit, complex(11, sag * 5) * unit)):
                for cv in (hump, hump3):
                    ck.case(fp=('tiny-hump', unit, sag, repr(ln), type(cv).__name__), nontrivial=True)
                    pair_case(ck, 'line x shallow hump in units of %g (sagitta %g)' % (unit, sag), cv, ln, None, 1e-5, {'unit': unit, 'sag': sag})


def replay(rec):
    print(rec['what'])
    print('expected', rec['expected'], 'observed', rec['observed'])
    return 1
