"""C06 - length() is the true arc length: bracketed, additive, finite, scipy-independent.

P  BezierBox.tla: the total variation TV of a coordinate polynomial on dyadic sub-intervals (exact
   rationals; = arc length of the collinear curve) with TVAdditive, TVMonotone, TVAtLeastChord,
   TVAtMostPolygon; ArcLattice.tla for circular arcs.
G  (a) exactly rectifiable family: lines, collinear quadratics / cubics along the direction (3,4)
   with and without fold-back and with repeated control points, circular lattice arcs, paths of
   these: length(t0,t1) on every dyadic sub-interval vs the exact value, additivity,
   non-negativity, finiteness, path = sum of segments.  (b) generic lattice curves and ellipses:
   the value must lie in the rigorous bracket [sum of chords, sum of control polygons] of a fine
   subdivision.  Both with scipy quadrature and with the pure-Python fallback.
"""
import math
import random
from fractions import Fraction as F

from .. import arcmodel as am
from .. import pathmodel as pm

sp = pm.sp
import svgpathtools.path as sppath      # noqa


def make(z):
    z = pm.typed(z)
    return {2: sp.Line, 3: sp.QuadraticBezier, 4: sp.CubicBezier}[len(z)](*z)


def collinear_case(ck, c, scale, off, cfg):
    P = c['P']
    d = (3 + 4j) * scale
    seg = make([off + p * d for p in P])
    W = len(c['tv']) - 1
    tv = [float(F(*v)) for v in c['tv']]
    L = 5 * scale * tv[-1]
    name = type(seg).__name__
    ck.case(fp=('col', tuple(P), scale, cfg), nontrivial=c['ncrit'] > 0 or len(set(P)) < len(P))
    site = 'svgpathtools/path.py:%s.length' % name

    def bad(key, what, exp, obs):
        ck.disagree(key='%s.length/%s' % (name, key), site=site, what='[%s] collinear %s x %r: %s' % (cfg, P, d, what), case={'P': P, 'scale': scale, 'cfg': cfg},
                    expected=exp, observed=obs, driver='collinear')
        return False
    pairs = [(0, W)] + [(a, b) for a in range(0, W + 1, 2) for b in range(a + 2, W + 1, 2)] + [(1, 3), (3, 4), (5, 8)]
    for a, b in pairs:
        exp = 5 * scale * (tv[b] - tv[a])
        try:
            got = seg.length(a / float(W), b / float(W)) if (a, b) != (0, W) else seg.length()
        except Exception as e:      # noqa
            return bad('raises-' + type(e).__name__, 'length(%d/%d, %d/%d) raised %r' % (a, W, b, W, e), exp, repr(e))
        if not (got == got) or got in (float('inf'), -float('inf')) or got < -1e-12 * max(L, scale):
            return bad('not-finite-or-negative', 'length(%d/%d, %d/%d) = %r' % (a, W, b, W, got), exp, got)
        # tolerance: 1e-6 relative; 5e-3 where the speed vanishes inside the interval (fold-back / repeated control points)
        cusp = c['ncrit'] > 0 or len(set(P)) < len(P)
        tol = (5e-3 if cusp else 1e-6) * max(L, 1e-300)
        if not (abs(got - exp) <= tol):
            return bad('fold-back' if cusp else 'monotone', 'length(%d/%d, %d/%d) = %r, exact %r' % (a, W, b, W, got, exp), exp, got)
    return True


_GL = None


def gl_ellipse(rx, ry, a0, a1, pieces=64):
    """arc length of the ellipse (rx cos a, ry sin a) between the eccentric angles a0, a1 (degrees): composite 8-point Gauss-Legendre"""
    global _GL
    if _GL is None:
        import numpy.polynomial.legendre as L
        _GL = L.leggauss(8)
    xs, ws = _GL
    lo, hi = math.radians(a0), math.radians(a1)
    h = (hi - lo) / pieces
    tot = 0.0
    for i in range(pieces):
        m = lo + (i + 0.5) * h
        for x, w in zip(xs, ws):
            a = m + 0.5 * h * x
            tot += w * math.sqrt((rx * math.sin(a)) ** 2 + (ry * math.cos(a)) ** 2)
    return abs(tot * 0.5 * h)


def bracket(seg, depth=7):
    """rigorous bracket of the arc length of a Bezier segment: sum of chords <= L <= sum of control-polygon lengths"""
    pieces = [list(seg.bpoints())]
    for _ in range(depth):
        nxt = []
        for p in pieces:
            l, r = sp.bezier.split_bezier(p, 0.5)
            nxt += [list(l), list(r)]
        pieces = nxt
    lo = sum(abs(p[-1] - p[0]) for p in pieces)
    hi = sum(sum(abs(b - a) for a, b in zip(p, p[1:])) for p in pieces)
    return lo, hi


def run(ck):
    rnd = random.Random(ck.seed)
    quick = ck.tier == 'quick'
    ck.rules.append('(a) case = (coordinate vector of BezierBox.tla with exact total variation, scale, configuration) on all dyadic sub-intervals; circular '
                    'lattice arcs; paths.  (b) generic lattice curve vs the rigorous chord / polygon bracket.  non-trivial = fold-back or repeated control points')
    ck.assumptions += ['1e-6 relative accuracy of length() for generic (non-collinear) curves and elliptical arcs is numeric accuracy proper: only the coarse '
                       'rigorous bracket is decided here', 'tolerances as in the property: 1e-6 relative, 5e-3 where the speed vanishes inside the interval']
    ck.tlc('BezierBox', 'BezierBox_MC.cfg', need_actions=['Step'])
    r = ck.tlc('BezierBox', 'SPECIFICATION Spec\nCONSTANTS Vals <- ValsA\n W = 8\n MaxDen = 7\n Degs <- DegsAll\nCONSTRAINT AtStart\nINVARIANT Dump\n', workers=1, coverage=False)
    cases = [c for c in r.cases if c['tvok'] and len(c['P']) >= 3 and len(set(c['P'])) > 1]
    rnd.shuffle(cases)
    # wide family of collinear quadratics (control values -9..9) in several directions: whole-curve length in closed form
    rq = ck.tlc('BezierBox', 'SPECIFICATION Spec\nCONSTANTS Vals <- ValsC\n W = 8\n MaxDen = 40\n Degs <- Degs2\nCONSTRAINT AtStart\nINVARIANT Dump\n',
                workers=1, coverage=False)
    qcases = [c for c in rq.cases if len(set(c['P'])) > 1]
    if quick:
        qcases = rnd.sample(qcases, 1500)
    for c in qcases:
        P = c['P']
        tvq = c['qtv'][0] / float(c['qtv'][1])
        for d in (1 + 0j, 1j, 3 + 4j, 1 + 1j, -2 + 1j):
            seg = sp.QuadraticBezier(P[0] * d, P[1] * d, P[2] * d)
            exp = abs(d) * tvq
            ck.case(fp=('wideq', tuple(P), d), nontrivial=c['ncrit'] > 0)
            try:
                got = seg.length()
            except Exception as e:      # noqa
                got = e
            tol = (5e-3 if c['ncrit'] > 0 or len(set(P)) < 3 else 1e-6) * exp
            if isinstance(got, Exception) or not (got == got) or abs(got) == float('inf') or got < 0 or not (abs(got - exp) <= tol):
                ck.disagree(key='QuadraticBezier.length/collinear-%s' % ('fold-back' if c['ncrit'] > 0 else 'monotone'), site='svgpathtools/path.py:QuadraticBezier.length',
                            what='collinear quadratic %r: length() = %r, exact %r' % (seg, got, exp), case={'P': P, 'd': str(d)}, expected=exp, observed=repr(got), driver='wide-quadratics')
                break
    ck.sample('wide-quadratic', {'P': [-4, 6, -9], 'length': 13})
    old = getattr(sppath, '_quad_available', None)     # (the module's scipy switch; None: no such switch any more - one configuration only)
    try:
        for cfg, n in (('scipy', 160 if quick else 1100), ('no-scipy', 25 if quick else 200)):
            sppath._quad_available = (cfg == 'scipy') and old
            if cfg == 'scipy' and old is False:
                continue
            for i, c in enumerate(cases[:n]):
                collinear_case(ck, c, 1.0, 0j, cfg)
                if i % 4 == 0 and cfg == 'scipy':
                    collinear_case(ck, c, 1e-3, 2 - 7j, cfg)
                    collinear_case(ck, c, 1e4, 0j, cfg)
            # lines and circular arcs
            for a, b in ((0j, 3 + 4j), (1 + 1j, 1 + 1j + 5e5), (2j, 2j + 1e-3)):
                ln = sp.Line(a, b)
                ck.case(fp=('line', a, b, cfg), nontrivial=True)
                if not (abs(ln.length() - abs(b - a)) <= 1e-12 * abs(b - a)) or not (abs(ln.length(0.25, 0.75) - abs(b - a) / 2) <= 1e-12 * abs(b - a)):
                    ck.disagree(key='Line.length', site='svgpathtools/path.py:Line.length', what='line %r length %r' % (ln, ln.length()), case={'a': str(a), 'b': str(b)},
                                expected=abs(b - a), observed=ln.length(), driver='line')
            for A in ({'r': [5, 5], 'phi': 0, 'th': 2, 'dl': 7, 'c': [3, -2]}, {'r': [13, 13], 'phi': 3, 'th': -5, 'dl': -17, 'c': [0, 0]},
                      {'r': [5, 5], 'phi': 26, 'th': 9, 'dl': 23, 'c': [1, 1]}, {'r': [2, 2], 'phi': 6, 'th': 0, 'dl': -12, 'c': [-2, 4]}):
                arc = am.concretise(A)
                Lx = A['r'][0] * abs(A['dl']) * math.radians(15.0)
                ck.case(fp=('circle', str(A), cfg), nontrivial=True)
                vals = [arc.length(), arc.length(0, 0.5) + arc.length(0.5, 1), 4 * arc.length(0.25, 0.5)]
                if any(not (abs(v - Lx) <= 1e-6 * Lx) for v in vals):
                    ck.disagree(key='Arc.length/circle', site='svgpathtools/path.py:Arc.length', what='[%s] circular lattice arc %s: lengths %r, r |delta| = %r' % (cfg, A, vals, Lx),
                                case={'arc': A, 'cfg': cfg}, expected=Lx, observed=vals, driver='arc')
            # generic lattice curves: rigorous bracket, additivity
            vals = [-3, 0, 1, 4]
            for it in range(40 if cfg == 'scipy' and quick else (8 if quick else 300 if cfg == 'scipy' else 40)):
                n = rnd.choice([3, 4])
                z = [complex(rnd.choice(vals), rnd.choice(vals)) for _ in range(n)]
                if len(set(z)) < 2:
                    continue
                seg = make(z)
                lo, hi = bracket(seg)
                ck.case(fp=('generic', tuple(z), cfg), nontrivial=True)
                try:
                    Lg = seg.length()
                    parts = seg.length(0, 0.375) + seg.length(0.375, 1)
                except Exception as e:      # noqa
                    Lg, parts = e, None
                d0 = z[1] - z[0]
                collinear = all(abs((w - z[0]).real * d0.imag - (w - z[0]).imag * d0.real) == 0 for w in z) if d0 != 0 else True
                atol = (5e-3 if collinear else 1e-6) * hi       # a collinear lattice curve may fold back: the speed vanishes inside
                if isinstance(Lg, Exception) or not (lo - 1e-9 * hi <= Lg <= hi + 1e-9 * hi) or not (abs(parts - Lg) <= atol):
                    key_ = '%s.length/outside-bracket-or-not-additive' % type(seg).__name__
                    if cfg == 'scipy' and not isinstance(Lg, Exception) and (lo - 1e-9 * hi <= Lg <= hi + 1e-9 * hi):
                        # is it scipy.integrate.quad alone?  (called with epsabs=error only, it stops at its default *relative* tolerance 1.49e-8 of an
                        # error estimate that a sharp dip of the speed can fool): the recursive fallback on a new object must then be accurate
                        sppath._quad_available = False
                        try:
                            fb = make(z)
                            fparts = fb.length(0, 0.375) + fb.length(0.375, 1)
                            if abs(fparts - fb.length()) <= atol and abs(fb.length() - Lg) <= atol:
                                key_ = '%s.length/scipy-quad-fooled-by-a-sharp-speed-minimum' % type(seg).__name__
                        except Exception:      # noqa
                            pass
                        finally:
                            sppath._quad_available = True
                    ck.disagree(key=key_, site='svgpathtools/path.py:length',
                                what='[%s] %r: length %r, bracket [%r, %r], length(0,.375)+length(.375,1) = %r' % (cfg, seg, Lg, lo, hi, parts),
                                case={'z': [str(w) for w in z], 'cfg': cfg}, expected=[lo, hi], observed=repr(Lg), driver='generic')
                # the same request on a segment object whose whole length was first asked for with rough tolerances
                if not isinstance(Lg, Exception):
                    seg2 = make(z)
                    try:
                        seg2.length(error=10, min_depth=0)
                        L2 = seg2.length()
                    except Exception as e:      # noqa
                        L2 = e
                    if isinstance(L2, Exception) or not (abs(L2 - Lg) <= atol):
                        ck.disagree(key='%s.length/after-a-rough-request' % type(seg).__name__, site='svgpathtools/path.py:length',
                                    what='[%s] %r: length() = %r after length(error=10, min_depth=0) on the same object, %r on a new one' % (cfg, seg, L2, Lg),
                                    case={'z': [str(w) for w in z], 'cfg': cfg}, expected=Lg, observed=repr(L2), driver='generic')
                # ... and sub-interval lengths asked first on an object that was measured with other control points which were then reassigned
                if not isinstance(Lg, Exception):
                    seg3 = make([w * (0.5 + 0.25j) + (1 - 2j) for w in z])
                    try:
                        seg3.length()
                        for nm_, w in zip(('start', 'control', 'end') if n == 3 else ('start', 'control1', 'control2', 'end'), z):
                            setattr(seg3, nm_, w)
                        p3 = seg3.length(0, 0.375) + seg3.length(0.375, 1)
                    except Exception as e:      # noqa
                        p3 = e
                    if isinstance(p3, Exception) or not (abs(p3 - parts) <= atol):
                        ck.disagree(key='%s.length/sub-interval-after-reassigning-control-points' % type(seg).__name__, site='svgpathtools/path.py:length',
                                    what='[%s] %r: length(0,.375)+length(.375,1) = %r on an object whose control points were reassigned after a length() call, %r on a new one' % (cfg, seg, p3, parts),
                                    case={'z': [str(w) for w in z], 'cfg': cfg}, expected=parts, observed=repr(p3), driver='generic')
            # the recorded example of the open scipy finding (so that the KNOWN-FINDING line does not depend on the seed)
            if cfg == 'scipy':
                zq = [4 + 1j, 1 + 1j, -3 - 3j, 4 + 4j]
                sq = make(zq)
                ck.case(fp=('recorded-quad-example', cfg), nontrivial=True)
                if not (abs(sq.length(0, 0.375) + sq.length(0.375, 1) - sq.length()) <= 1e-6 * sq.length()):
                    ck.disagree(key='CubicBezier.length/scipy-quad-fooled-by-a-sharp-speed-minimum', site='svgpathtools/path.py:length',
                                what='[scipy] %r: length(0,.375)+length(.375,1) = %r, length() = %r' % (sq, sq.length(0, 0.375) + sq.length(0.375, 1), sq.length()),
                                case={'z': [str(w) for w in zq], 'cfg': cfg}, expected=sq.length(), observed=sq.length(0, 0.375) + sq.length(0.375, 1), driver='generic')
            # a control point reassigned in place to a value that hashes like the old one (hash(-1.0) == hash(-2.0)) between two length() calls
            for z1_, z2_ in (([-1 + 2j, 3 + 4j, 6 - 1j], [-2 + 2j, 3 + 4j, 6 - 1j]), ([0j, -1 + 2j, 5 + 0j], [0j, -2 + 2j, 5 + 0j]), ([0j, 2 - 1j, 5 + 0j], [0j, 2 - 2j, 5 + 0j]),
                             ([-1 - 1j, 2 + 3j, 4 + 4j, 7 + 0j], [-2 - 2j, 2 + 3j, 4 + 4j, 7 + 0j]), ([0j, 1 + 3j, 4 - 1j, 6 + 0j], [0j, 1 + 3j, 4 - 2j, 6 + 0j]), ([0j, -1 + 0j], [0j, -2 + 0j])):
                sgh = make(z1_)
                ck.case(fp=('hash-colliding-reassignment', str(z1_), cfg), nontrivial=True)
                try:
                    sgh.length()
                    for nm_, w in zip({2: ('start', 'end'), 3: ('start', 'control', 'end'), 4: ('start', 'control1', 'control2', 'end')}[len(z1_)], z2_):
                        setattr(sgh, nm_, w)
                    gl_, pl_, wl_ = sgh.length(), sp.Path(sgh).length(), make(z2_).length()
                except Exception as e:      # noqa
                    gl_, pl_, wl_ = e, None, None
                if isinstance(gl_, Exception) or not (abs(gl_ - wl_) <= 1e-9 * wl_) or not (abs(pl_ - wl_) <= 1e-9 * wl_):
                    ck.disagree(key='%s.length/after-reassigning-a-control-point-in-place' % type(sgh).__name__, site='svgpathtools/path.py:length',
                                what='[%s] %r measured, control points set to %r: length() = %r, Path(seg).length() = %r, a new segment %r' % (cfg, z1_, z2_, gl_, pl_, wl_),
                                case={'z1': [str(w) for w in z1_], 'z2': [str(w) for w in z2_], 'cfg': cfg}, expected=wl_, observed=repr(gl_), driver='generic')
            # paths: sum of the segments
            segs = [sp.Line(0j, 3 + 4j), sp.QuadraticBezier(3 + 4j, 6 + 8j, 3 + 4j), sp.CubicBezier(3 + 4j, 1 + 1j, 5 - 2j, 7 + 0j),
                    sp.Arc(7 + 0j, 5 + 5j, 0, False, True, 13 + 8j)]
            for k in range(1, 5):
                p = sp.Path(*segs[:k])
                ck.case(fp=('path', k, cfg), nontrivial=k > 1)
                tot = sum(s.length() for s in segs[:k])
                if not (abs(p.length() - tot) <= 1e-9 * tot):
                    ck.disagree(key='Path.length/not-the-sum', site='svgpathtools/path.py:Path.length', what='[%s] Path.length() = %r, sum of segments %r' % (cfg, p.length(), tot),
                                case={'k': k, 'cfg': cfg}, expected=tot, observed=p.length(), driver='path')
                # ... also when the path was measured while it was being put together, or first measured roughly
                grown = sp.Path(segs[0])
                for j in range(1, k):
                    grown.length()
                    [grown.append, lambda x: grown.extend([x]), lambda x: grown.insert(len(grown), x)][(j + k) % 3](segs[j])
                rough = sp.Path(*[type(s_)(*(s_.bpoints() if not isinstance(s_, sp.Arc) else (s_.start, s_.radius, s_.rotation, s_.large_arc, s_.sweep, s_.end)))
                                  for s_ in segs[:k]])
                rough.length(error=10, min_depth=0)
                for nm, q_ in (('grown', grown), ('rough-first', rough)):
                    if not (abs(q_.length() - tot) <= 1e-6 * tot):
                        ck.disagree(key='Path.length/not-the-sum/' + nm, site='svgpathtools/path.py:Path.length',
                                    what='[%s] %s path: length() = %r, sum of segments %r' % (cfg, nm, q_.length(), tot),
                                    case={'k': k, 'cfg': cfg, 'how': nm}, expected=tot, observed=q_.length(), driver='path')
            # a discontinuous path of lines only (pen-up jumps are not part of the length)
            dp = sp.parse_path('M0,0 L4,0 L4,3 M10,10 L13,14 L13,20 M-5,-5 L-5,-6')
            ck.case(fp=('path-discontinuous', cfg), nontrivial=True)
            if not (abs(dp.length() - 19.0) <= 1e-12) or not (abs(dp.length(0, 0.5) + dp.length(0.5, 1) - 19.0) <= 1e-9):
                ck.disagree(key='Path.length/not-the-sum/discontinuous', site='svgpathtools/path.py:Path.length',
                            what='[%s] %r: length() = %r, the segments add up to 19' % (cfg, dp, dp.length()), case={'cfg': cfg}, expected=19.0, observed=dp.length(), driver='path')
            # elliptical arcs (lattice, and nearly circular ones) against an independent Gauss-Legendre quadrature of the speed along the stored ellipse
            ell = [{'r': [5, 3], 'phi': 2, 'th': 1, 'dl': 7, 'c': [3, -2]}, {'r': [13, 5], 'phi': 0, 'th': -5, 'dl': -17, 'c': [0, 0]}, {'r': [2, 7], 'phi': 5, 'th': 9, 'dl': 23, 'c': [1, 1]}]
            arcs_ = [(str(A), am.concretise(A), A['r'][0], A['r'][1], 15.0 * A['dl']) for A in ell]
            for rx, ry in ((2.0, 2.000018), (100.0, 100.0007), (5.0, 5.004), (3.0, 3.0000001)):
                a_ = sp.Arc(complex(rx, 0), complex(rx, ry), 0, True, True, complex(0, -ry))      # from angle 0 counter-clockwise by 270 degrees
                arcs_.append(('near-circle %r x %r' % (rx, ry), a_, rx, ry, 270.0))
            for nm_, arc, rx, ry, delta in arcs_[:None if cfg == 'scipy' else 4]:
                th0 = arc.theta
                for (t0, t1) in ((0, 1), (0, 0.375), (0.375, 1), (0.2, 0.7)):
                    ref = gl_ellipse(rx, ry, th0 + arc.delta * t0, th0 + arc.delta * t1)
                    ck.case(fp=('ellipse-arc', nm_, t0, t1, cfg), nontrivial=True)
                    try:
                        got = arc.length(t0, t1)
                    except Exception as e:      # noqa
                        got = e
                    if isinstance(got, Exception) or not (abs(got - ref) <= 1e-6 * ref):
                        ck.disagree(key='Arc.length/ellipse-vs-independent-quadrature', site='svgpathtools/path.py:Arc.length',
                                    what='[%s] %s: length(%r, %r) = %r, Gauss-Legendre quadrature of the speed gives %r' % (cfg, nm_, t0, t1, got, ref),
                                    case={'arc': nm_, 't0': t0, 't1': t1, 'cfg': cfg}, expected=ref, observed=repr(got), driver='arc')
                        break
            # collinear cubics that go there and back to their own start (start, middle and end coincide): the travelled length, not 0
            for P_, d_ in ((0j, 3 + 4j), (2 - 1j, 1 + 0j), (5 + 5j, -2 + 2j)):
                tb = sp.CubicBezier(P_, P_ + d_, P_ - d_, P_)
                trav = sum(abs(tb.point((j_ + 1) / 20000.0) - tb.point(j_ / 20000.0)) for j_ in range(20000))
                ck.case(fp=('there-and-back', str(P_), str(d_), cfg), nontrivial=True)
                try:
                    got = (tb.length(), tb.length(0, 0.5) + tb.length(0.5, 1), sp.Path(tb, sp.Line(P_, P_ + 1)).length() - 1)
                except Exception as e:      # noqa
                    got = e
                if isinstance(got, Exception) or any(not (abs(g_ - trav) <= 5e-3 * trav) for g_ in got):
                    ck.disagree(key='CubicBezier.length/there-and-back', site='svgpathtools/path.py:CubicBezier.length / segment_length', what='[%s] %r: length, halves, in a path = %r; it travels %r' % (cfg, tb, got, trav),
                                case={'P': str(P_), 'd': str(d_), 'cfg': cfg}, expected=trav, observed=repr(got), driver='collinear')
            # the same curves in other units / elsewhere (length is homogeneous of degree 1 and translation invariant), and sub-interval requests on an object
            # whose whole length has been asked before (nothing remembered may enter a later answer at lower accuracy)
            base_shapes = [('quad arch', lambda f: sp.QuadraticBezier(f(0j), f(1 + 1j), f(2 + 0j))), ('cubic', lambda f: sp.CubicBezier(f(0j), f(1 + 2j), f(3 - 1j), f(4 + 1j))),
                           ('cusp cubic', lambda f: sp.CubicBezier(f(0j), f(1 + 1j), f(0 + 1j), f(1 + 0j))), ('ellipse arc', lambda f: sp.Arc(f(0j), (f(3 + 1.5j) - f(0j)), 25, False, True, f(4 + 1j))),
                           ('quad steep', lambda f: sp.QuadraticBezier(f(0j), f(0.5 + 6j), f(1 + 0j)))]
            placements = [(1e-7, 0j), (1e-4, 0j), (1e-2, 0j), (1e4, 0j)] + ([(1.0, 1e6 + 2e6j), (1.0, -3e7 + 1e7j), (30.0, 5e5 + 4.6e6j)] if True else [])
            for nm_, mk_ in base_shapes:
                ref_seg = mk_(lambda z: z)
                if isinstance(ref_seg, sp.Arc):
                    ref_len = {iv: ref_seg.length(*iv) for iv in ((0, 1), (0.2, 0.7))}
                else:
                    ref_len = {iv: sum(bracket(ref_seg.cropped(*iv) if iv != (0, 1) else ref_seg, 9)) / 2 for iv in ((0, 1), (0.2, 0.7))}
                for k_, off_ in placements:
                    if cfg != 'scipy' and ((isinstance(ref_seg, sp.Arc) and k_ > 1) or k_ < 1e-5):
                        continue        # (without scipy the documented *absolute* error 1e-12 of the fallback is 2e-6 of a curve of size 1e-7: by the API's own definition, not claimed)        # (the recursive fallback with its absolute error 1e-12 needs minutes on a large arc)
                    sg_ = mk_(lambda z: off_ + k_ * z)
                    for iv in ((0, 1), (0.2, 0.7)):
                        ck.case(fp=('placed', nm_, k_, str(off_), iv, cfg), nontrivial=True)
                        try:
                            got = sg_.length(*iv)
                        except Exception as e:      # noqa
                            got = e
                        tol_ = (5e-3 if 'cusp' in nm_ else 1e-6) * ref_len[iv] * k_ + 4e-14 * abs(off_)
                        if isinstance(got, Exception) or not (abs(got - k_ * ref_len[iv]) <= tol_):
                            ck.disagree(key='%s.length/depends-on-unit-or-position' % type(sg_).__name__, site='svgpathtools/path.py:length / segment_length',
                                        what='[%s] %s at scale %g, offset %r: length%r = %r, the curve at scale 1 has %r' % (cfg, nm_, k_, off_, iv, got, ref_len[iv]),
                                        case={'shape': nm_, 'scale': k_, 'off': str(off_), 'cfg': cfg}, expected=k_ * ref_len[iv], observed=repr(got), driver='placement')
                            break
                # measured, a control point moved in place, reversed (alone and inside a path): the copy has the length of the curve it is
                if not isinstance(ref_seg, sp.Arc):
                    sg_ = mk_(lambda z: z)
                    sg_.length()
                    names_ = {3: ('start', 'control', 'end'), 4: ('start', 'control1', 'control2', 'end')}[len(sg_.bpoints())]
                    setattr(sg_, names_[1], getattr(sg_, names_[1]) + (7 + 9j))
                    fresh_ = type(sg_)(*sg_.bpoints())
                    ck.case(fp=('edit-then-reversed', nm_, cfg), nontrivial=True)
                    try:
                        a_, b_, c_ = sg_.reversed().length(), fresh_.length(), sp.Path(sg_, sp.Line(sg_.end, sg_.end + 2)).reversed().length()
                    except Exception as e:      # noqa
                        a_, b_, c_ = e, None, None
                    if isinstance(a_, Exception) or not (abs(a_ - b_) <= 1e-6 * b_) or not (abs(c_ - (b_ + 2)) <= 1e-6 * b_):
                        ck.disagree(key='%s.length/reversed-after-an-edit' % type(sg_).__name__, site='svgpathtools/path.py:reversed / length', what='[%s] %s: length(); control point moved; reversed().length() = %r, Path.reversed().length() = %r; a new object: %r' % (cfg, nm_, a_, c_, b_),
                                    case={'shape': nm_, 'cfg': cfg}, expected=repr(b_), observed=repr(a_), driver='history')
                # whole first, then tails / heads: equal to a new object's answers
                for iv in ((0.999, 1), (0.9, 1), (0, 0.001), (0.5, 1), (0.4999, 0.5001)):
                    warm_, fresh_ = mk_(lambda z: z), mk_(lambda z: z)
                    ck.case(fp=('whole-then-part', nm_, iv, cfg), nontrivial=True)
                    try:
                        warm_.length()
                        sp.Path(warm_).length()
                        a_, b_ = warm_.length(*iv), fresh_.length(*iv)
                        c_ = sp.Path(warm_, sp.Line(warm_.end, warm_.end + 1)).length(0, 0.25)
                    except Exception as e:      # noqa
                        a_, b_ = e, None
                    if isinstance(a_, Exception) or not (abs(a_ - b_) <= 1e-9 + 1e-6 * abs(b_)):
                        ck.disagree(key='%s.length/part-after-whole' % type(warm_).__name__, site='svgpathtools/path.py:length', what='[%s] %s: length() then length%r = %r, a new object answers %r' % (cfg, nm_, iv, a_, b_),
                                    case={'shape': nm_, 'iv': iv, 'cfg': cfg}, expected=repr(b_), observed=repr(a_), driver='history')
                        break
    finally:
        sppath._quad_available = old
    # the identities that entitle the placement families to their oracle (differences, determinant ratios, squared lengths, extreme coordinates), for all integers
    ck.apalache('MC_Placement', 'Inv')
    ck.apalache('MC_Placement', 'Wrong', expect_error=True)
    ck.sample('collinear', cases[0])


def replay(rec):
    print(rec['what'])
    print('expected', rec['expected'], 'observed', rec['observed'])
    return 1
