"""C05 - path parameter T, segment parameter t and arc-length fractions are coherent.

P  TParam.tla: RoundTripT / InOccupancy / TZeroOnlyAtStart / Monotone / RunsOK / ContIffOneRun.
G  family A: every (lengths, joints) case of TParam realised as a chain of axis-parallel uniform-
   speed segments (Line, collinear Quadratic, collinear Cubic); T2t / t2T / point on every grid
   value T = j/(2 total) incl. all boundaries - exact comparison when the total is a power of two.
   family B: every joint pattern (incl. the closing joint) realised with mixed L/Q/C/A geometry:
   iscontinuous / isclosed / continuous_subpaths vs the model's runs, and self-coherence of
   T2t / t2T / point / occupancy against the real cumulative lengths.
"""
import math
import random
from fractions import Fraction

from .. import pathmodel as pm

sp = pm.sp


def is_pow2(n):
    return n > 0 and (n & (n - 1)) == 0


def uniform_seg(kind, a, b):
    d = b - a
    if kind == 'L':
        return sp.Line(a, b)
    if kind == 'Q':
        return sp.QuadraticBezier(a, a + d / 2, b)
    return sp.CubicBezier(a, a + d / 3, a + 2 * d / 3, b)


def family_a(ck, case, rnd):
    lens, jn, ts, runs = case['lens'], case['jn'], case['ts'], case['runs']
    n, tot = len(lens), sum(lens)
    kinds = [rnd.choice('LQC') if is_pow2(L) or L == 0 or True else 'L' for L in lens]
    # thirds are not exact in binary: use Q/C only where len/3, len/2 keep the end points exact (they always do) -
    # the *speed* stays uniform up to rounding, so exact (k,t) comparison is done on all-Line chains only.
    exact = is_pow2(tot) and all(L == 0 or is_pow2(L) for L in lens)     # then every T, fraction and t is dyadic: float arithmetic exact
    if exact:
        kinds = ['L'] * n
    # place the origin at the end of a seeded segment (0j is falsy: sentinel bugs only show there); integer shifts are exact
    zk = rnd.randrange(n + 1)
    ends, x, y = [], 0.0, 0.0
    for k in range(n):
        x += lens[k]
        ends.append(complex(x, y))
        if k < n - 1 and not jn[k]:
            y += 1.0
    off = -ends[zk] if zk < n else 0j
    segs, x, y = [], 0.0, 0.0
    for k in range(n):
        a = complex(x, y) + off
        b = complex(x + lens[k], y) + off
        segs.append(uniform_seg(kinds[k], a, b))
        x += lens[k]
        if k < n - 1 and not jn[k]:
            y += 1.0
    path = sp.Path(*segs)
    fpc = ('A', tuple(lens), tuple(jn))
    ck.case(fp=fpc, nontrivial=n >= 2)
    ck.sample('familyA/%d' % n, {'lens': lens, 'joints': jn, 'T2t': ts[:5]})
    site = 'svgpathtools/path.py:Path.T2t/t2T/point/_calc_lengths'

    def bad(what, key, exp, obs, T=None):
        ck.disagree(key='Path/' + key, site=site, what='%s (lens=%s joints=%s T=%s)' % (what, lens, jn, T),
                    case={'family': 'A', 'lens': lens, 'jn': jn, 'kinds': kinds, 'T': T}, expected=exp, observed=obs, driver='familyA')
    # structure
    if path.iscontinuous() != all(jn):
        bad('iscontinuous', 'iscontinuous', all(jn), path.iscontinuous())
    subs = path.continuous_subpaths()
    exp_subs = [segs[r[0] - 1:r[1]] for r in runs]
    if [list(s) for s in subs] != exp_subs:
        bad('continuous_subpaths', 'continuous_subpaths', runs, [len(s) for s in subs])
    if sp.concatpaths(subs) != path:
        bad('concatpaths(continuous_subpaths) != path', 'continuous_subpaths/concat', 'path', 'differs')
    etol = 0 if exact else 1e-12 * max(1, tot)      # Q/C control points at halves/thirds are not dyadic: rounding only
    if not (abs(path.point(0) - path.start) <= etol) or not (abs(path.point(1) - path.end) <= etol) or path.start != segs[0].start or path.end != segs[-1].end:
        bad('point(0)/point(1) vs start/end', 'endpoints', [segs[0].start, segs[-1].end], [path.point(0), path.point(1)])
    for j, K, t in ts:
        T = j / (2.0 * tot)
        tq = Fraction(t[0], t[1])
        tf = float(tq)
        exp_pt = segs[K - 1].start + tf * (segs[K - 1].end - segs[K - 1].start)
        try:
            k, tt = path.T2t(T)
            pt = path.point(T)
            back = path.t2T(K - 1, tf)
        except Exception as e:      # noqa
            bad('T2t/point/t2T raised %r' % e, 'T2t/raises-' + type(e).__name__, [K - 1, str(tq)], repr(e), T)
            return
        if exact:
            # at a joint one T belongs to two segments (the end of one, the start of the next one of positive length): either (k, t) is a correct answer,
            # and with it the point (across a jump the two points differ)
            alts = [(K - 1, tf, exp_pt)]
            if tq == 1:
                later = [m for m in range(K, n) if lens[m] > 0]
                if later:
                    alts.append((later[0], 0.0, segs[later[0]].start))
            if tq == 0 and K - 1 > 0:
                alts.append((K - 2, 1.0, segs[K - 2].end))
            hit = [a_ for a_ in alts if k == a_[0] and tt == a_[1]]
            if not hit:
                bad('T2t(T) = %r, model (k,t) = (%d, %s)' % ((k, tt), K - 1, tq), 'T2t/wrong-segment-or-t', [K - 1, str(tq)], [k, tt], T)
                return
            if back != T:
                bad('t2T(k,t) = %r != T' % back, 't2T/wrong', T, back, T)
                return
            if pt != hit[0][2] and pt not in [a_[2] for a_ in alts]:
                bad('point(T) = %r, model %r' % (pt, exp_pt), 'point/wrong', repr(exp_pt), repr(pt), T)
                return
        else:
            # either side of a boundary is a correct answer under rounding: compare the point and the way back
            own = path[k].point(tt)
            cands = [exp_pt]
            if tq == 1:
                later = [m for m in range(K, n) if lens[m] > 0]
                if later:
                    cands.append(segs[later[0]].start)
            if min(abs(pt - c) for c in cands) > 1e-9 * max(1, tot) or not (abs(own - pt) <= 1e-9 * max(1, tot)) or not (abs(back - T) <= 1e-12) \
                    or not (abs(path.t2T(k, tt) - T) <= 1e-12) or not (-1e-12 <= tt <= 1 + 1e-12):
                bad('point/T2t/t2T incoherent: T2t=%r point=%r own=%r back=%r' % ((k, tt), pt, own, back), 'T2t/incoherent',
                    [K - 1, str(tq), repr(exp_pt)], [k, tt, repr(pt)], T)
                return


DIRS = [3 + 1j, 1 + 4j, -2 + 3j, -4 - 1j, 2 - 5j, 5 + 2j]


def family_b(ck, n, jn, closing, runs, rnd, variant):
    """joint pattern incl. closing joint with mixed segment kinds"""
    starts, ends = [], []
    pos = 0j
    for k in range(n):
        starts.append(pos)
        d = DIRS[(k + variant) % len(DIRS)] * rnd.choice([0.25, 1, 8])
        e = pos + d
        ends.append(e)
        pos = e if (k < n - 1 and jn[k]) else e + (0.5 - 7j)
    if closing and n >= 2:
        ends[-1] = starts[0]
    elif not closing and ends[-1] == starts[0]:
        return
    zk = (variant * 7 + n) % (n + 2)
    if zk < n:          # origin at the end of segment zk (a falsy complex 0 in the code's eyes)
        off = ends[zk]
        starts = [z - off for z in starts]
        ends = [z - off for z in ends]
    if n == 1 and closing:
        return      # a single segment from a point to itself: only possible with a curve; skip (null arcs / zero lines excluded)
    segs = []
    for k in range(n):
        a, b = starts[k], ends[k]
        kind = rnd.choice('LQCA')
        d = b - a
        if kind == 'L':
            segs.append(sp.Line(a, b))
        elif kind == 'Q':
            segs.append(sp.QuadraticBezier(a, a + d / 2 + 1j * d / 3, b))
        elif kind == 'C':
            segs.append(sp.CubicBezier(a, a + d / 3 - 1j * d / 2, a + 2 * d / 3 + 1j * d / 4, b))
        else:
            segs.append(sp.Arc(a, complex(abs(d), abs(d) * 0.75), rnd.choice([0, 30, 77]), bool(rnd.getrandbits(1)), bool(rnd.getrandbits(1)), b))
    path = sp.Path(*segs)
    ck.case(fp=('B', n, tuple(jn), closing, variant), nontrivial=n >= 2)
    ck.sample('familyB/%d' % n, {'joints': jn, 'closing': closing, 'path': repr(path)[:200]})
    site = 'svgpathtools/path.py:Path.iscontinuous/isclosed/continuous_subpaths/T2t'

    def bad(what, key, exp, obs):
        ck.disagree(key='Path/' + key, site=site, what='%s (joints=%s closing=%s)' % (what, jn, closing),
                    case={'family': 'B', 'n': n, 'jn': jn, 'closing': closing, 'path': repr(path)}, expected=exp, observed=obs, driver='familyB')

    def coherent(path, segs, tag, nseg=None):
        n = nseg or len(segs)
        size = max(abs(z) for s in segs for z in (s.start, s.end)) + 1
        if not (abs(path.point(0) - segs[0].start) <= 1e-12 * size) or not (abs(path.point(1) - segs[-1].end) <= 1e-12 * size) \
                or path.start != segs[0].start or path.end != segs[-1].end:
            bad('point(0)/point(1)/start/end', 'endpoints' + tag, [segs[0].start, segs[-1].end], [path.point(0), path.point(1), path.start, path.end])
            return False
        lens = [s.length() for s in segs]
        tot = sum(lens)
        cum = [sum(lens[:i]) / tot for i in range(n + 1)]
        Ts = [0, 1, 0.5, 0.123, 0.999] + [cum[i] for i in range(1, n)] + [min(1, cum[i] + 1e-7) for i in range(1, n)]
        for T in Ts:
            try:
                k, t = path.T2t(T)
                pt = path.point(T)
                own = path[k].point(t)
                back = path.t2T(k, t)
            except Exception as e:      # noqa
                bad('T2t/point raised %r at T=%r' % (e, T), 'T2t/raises-' + type(e).__name__ + tag, 'value', repr(e))
                return False
            if not (-1e-12 <= t <= 1 + 1e-12) or not (abs(own - pt) <= 1e-8 * size) or not (abs(back - T) <= 1e-9) or not (cum[k] - 1e-9 <= T <= cum[k + 1] + 1e-9):
                bad('T=%r: T2t=%r point=%r own=%r t2T=%r occupancy=[%r,%r]' % (T, (k, t), pt, own, back, cum[k], cum[k + 1]),
                    'T2t/incoherent' + tag, 'coherent', [k, t, repr(pt), repr(own), back])
                return False
        return True
    cont = all(jn)
    if path.iscontinuous() != cont:
        bad('iscontinuous', 'iscontinuous', cont, path.iscontinuous())
    if cont and path.isclosed() != bool(closing):
        bad('isclosed', 'isclosed', closing, path.isclosed())
    subs = path.continuous_subpaths()
    if [list(s) for s in subs] != [segs[r[0] - 1:r[1]] for r in runs]:
        bad('continuous_subpaths', 'continuous_subpaths', runs, [len(s) for s in subs])
    if not all(s.iscontinuous() for s in subs) or sp.concatpaths(subs) != path:
        bad('subpaths not continuous / do not concatenate back', 'continuous_subpaths/concat', 'ok', 'differs')
    for s1, s2 in zip(subs, subs[1:]):
        if s1.end == s2.start:
            bad('subpaths not maximal', 'continuous_subpaths/maximal', 'distinct', 'joined')
    if not coherent(path, segs, ''):
        return
    # the same segment list reached through a history: measured with other first / last segments, which are then replaced through negative indices
    decoy = lambda sg: sp.Line(sg.start + (2 - 3j), sg.end + (1 + 5j))
    hist = sp.Path(*([decoy(segs[0])] + segs[1:-1] + [decoy(segs[-1])])) if n >= 2 else sp.Path(decoy(segs[0]))
    try:
        hist.length(), hist.start, hist.end, hist.point(0.3)
        hist[-1] = segs[-1]
        hist.length(), hist.start, hist.end
        hist[-n] = segs[0]
    except Exception as e:      # noqa
        bad('item assignment with a negative index raised %r' % e, 'setitem-negative-index/raises', 'ok', repr(e))
        return
    # t2T asked first after the edits (before point / T2t / length had a chance to refresh anything)
    lens0 = [sg.length() for sg in segs]
    try:
        first = [hist.t2T(k_, 0.5) for k_ in range(n)]
    except Exception as e:      # noqa
        bad('t2T right after item assignment raised %r' % e, 't2T/first-query-after-mutation/raises', 'values', repr(e))
        return
    want = [(sum(lens0[:k_]) + 0.5 * lens0[k_]) / sum(lens0) for k_ in range(n)]
    # (length(0, t) of a curve is not t * length: compare only where the segment is a Line; the others must at least lie in their interval)
    for k_ in range(n):
        lo_, hi_ = sum(lens0[:k_]) / sum(lens0), sum(lens0[:k_ + 1]) / sum(lens0)
        if (isinstance(segs[k_], sp.Line) and not (abs(first[k_] - want[k_]) <= 1e-9)) or not (lo_ - 1e-9 <= first[k_] <= hi_ + 1e-9):
            bad('t2T(%d, 0.5) = %r asked first after item assignment; the segment occupies [%r, %r]' % (k_, first[k_], lo_, hi_), 't2T/first-query-after-mutation', [lo_, hi_], first[k_])
            return
    if list(hist) != segs or (cont and hist.isclosed() != bool(closing)) or not coherent(hist, segs, '/after-negative-index-assignment'):
        if list(hist) != segs:
            bad('segments after negative-index assignment differ', 'setitem-negative-index/segments', 'segs', repr(hist))
        elif cont and hist.isclosed() != bool(closing):
            bad('isclosed after negative-index assignment', 'isclosed/after-negative-index-assignment', closing, hist.isclosed())
        return
    # arcs replaced by cubics in place on a measured path
    if any(isinstance(sg, sp.Arc) for sg in segs):
        conv = sp.Path(*[sp.Arc(sg.start, sg.radius, sg.rotation, sg.large_arc, sg.sweep, sg.end) if isinstance(sg, sp.Arc) else sg for sg in segs])
        try:
            conv.length(), conv.point(0.4)
            conv.approximate_arcs_with_cubics()
            ok_ = coherent(conv, list(conv), '/after-approximate_arcs_with_cubics', nseg=len(conv))
        except Exception as e:      # noqa
            bad('approximate_arcs_with_cubics on a measured path: %r' % e, 'approximate_arcs/raises', 'path', repr(e))
            return
        if not ok_:
            return
    # a derived path: measured, then scaled anisotropically (the fractions change with the orientation of the segments)
    if not any(isinstance(sg, sp.Arc) for sg in segs):
        try:
            der = path.scaled(2, 0.5)
        except Exception as e:      # noqa
            bad('scaled(2, 0.5) raised %r' % e, 'scaled/raises', 'path', repr(e))
            return
        coherent(der, [type(sg)(*sg.bpoints()) for sg in der], '/scaled-copy-of-a-measured-path')


def directed_cases(ck):
    site = 'svgpathtools/path.py:Path.iscontinuous/isclosed/continuous_subpaths/T2t'

    def bad(key, what, exp, obs):
        ck.disagree(key='Path/' + key, site=site, what=what, case={'directed': key, 'what': what[:200]}, expected=exp, observed=obs, driver='directed')
    # (1) isclosed is the coincidence of the last end with the first start - whatever closed flag the object carries from its d-string or from `.closed = True`
    cases = []
    p = sp.parse_path('M0,0 L1,0 L1,1 Z L1,0')
    cases.append(('d-string that keeps drawing after Z', p))
    p = sp.parse_path('M0,0 L1,0 L1,1 Z')
    p.append(sp.Line(0j, 1 + 0j))
    cases.append(('Z-closed path, then append(Line(start, interior joint))', p))
    p = sp.parse_path('M0,0 L1,0 L1,1 Z')
    p[-1] = sp.Line(1 + 1j, 1 + 0j)
    cases.append(('Z-closed path, last segment replaced by one ending on an interior joint', p))
    p = sp.Path(sp.Line(0j, 1 + 0j), sp.Line(1 + 0j, 1 + 1j), sp.Line(1 + 1j, 0j))
    try:
        p.closed = True
    except Exception:      # noqa
        pass
    p.append(sp.Line(0j, 1 + 0j))
    cases.append(('.closed = True, then append', p))
    for tag, p in cases:
        ck.case(fp=('isclosed-flag', tag), nontrivial=True)
        want = p[0].start == p[-1].end
        try:
            got = p.isclosed()
        except Exception as e:      # noqa
            got = e
        if got is not want and got != want:
            bad('isclosed/closed-flag-history', '%s: isclosed() = %r, start %r end %r' % (tag, got, p[0].start, p[-1].end), want, repr(got))
    # (2) joints that are distinct by a hair (round-off, micro-scale drawings) are breaks: iscontinuous and continuous_subpaths agree, every sub-path is continuous
    for tag, p in (('0.1 + 0.2 vs 0.3', sp.Path(sp.Line(0j, complex(0.1 + 0.2, 0)), sp.Line(complex(0.3, 0), 1 + 0j), sp.Line(1 + 0j, 1 + 1j))),
                   ('coordinates of order 1e-13', sp.Path(sp.Line(0j, 1e-13 + 0j), sp.Line(2e-13 + 0j, 3e-13 + 1e-13j), sp.Line(3e-13 + 1e-13j, 0j))),
                   ('one ulp apart', sp.Path(sp.QuadraticBezier(0j, 1 + 1j, 2 + 0j), sp.Line(complex(math.nextafter(2.0, 3), 0), 3 + 3j)))):
        ck.case(fp=('hairline-break', tag), nontrivial=True)
        subs = p.continuous_subpaths()
        nbreaks = sum(1 for a_, b_ in zip(p, list(p)[1:]) if a_.end != b_.start)
        if p.iscontinuous() != (nbreaks == 0) or len(subs) != nbreaks + 1 or not all(s_.iscontinuous() for s_ in subs) or sp.concatpaths(subs) != p:
            bad('continuous_subpaths/hairline-break', '%s: iscontinuous() = %r, %d sub-paths %s for %d breaks' % (tag, p.iscontinuous(), len(subs), [len(s_) for s_ in subs], nbreaks),
                nbreaks + 1, len(subs))
    # (3) a member that returns to its own start is not a point: it occupies its arc-length share of T
    for loop in (sp.CubicBezier(1 + 0j, 3 + 2j, 3 - 2j, 1 + 0j), sp.QuadraticBezier(1 + 0j, 1 + 3j, 1 + 0j)):
        p = sp.Path(sp.Line(0j, 1 + 0j), loop, sp.Line(1 + 0j, 1 - 2j))
        ck.case(fp=('loop-member', repr(loop)), nontrivial=True)
        lens = [s_.length() for s_ in p]
        tot = sum(lens)
        cum = [sum(lens[:i]) / tot for i in range(4)]
        try:
            mid = (cum[1] + cum[2]) / 2
            k, t = p.T2t(mid)
            ok = k == 1 and abs(p.t2T(1, 1.0) - cum[2]) <= 1e-9 and abs(p.t2T(1, 0.0) - cum[1]) <= 1e-9 and abs(p.point(mid) - loop.point(t)) <= 1e-9 and abs(p.length() - tot) <= 1e-9 * tot
        except Exception as e:      # noqa
            ok, k, t = False, e, None
        if not ok:
            bad('T2t/member-returning-to-its-start', '%r between two lines: T2t(middle of its share %r) = %r, t2T(1, 1) = %r (expected %r), length %r (sum %r)' % (
                loop, mid, (k, t), p.t2T(1, 1.0), cum[2], p.length(), tot), [1, cum[1], cum[2]], repr((k, t)))

    # (4) the same drawing in ever smaller units: the T-interval of a segment is its share of the length - a ratio, independent of the unit
    shape = [(0j, 3 + 0j), (3 + 0j, 3 + 4j), (3 + 4j, 0 + 8j, -2 + 3j), (-2 + 3j, 0j)]
    ref = None
    for u in (1.0, 1e-3, 1e-6, 1e-9, 3e-10, 1e-11, 1e6):      # (below about 1e-12 QuadraticBezier.length takes every quadratic for a straight line - an absolute test; not claimed)
        segs = [sp.Line(a_[0] * u, a_[1] * u) if len(a_) == 2 else sp.QuadraticBezier(a_[0] * u, a_[1] * u, a_[2] * u) for a_ in shape]
        pth = sp.Path(*segs)
        ck.case(fp=('unit', u), nontrivial=True)
        try:
            joints = [pth.t2T(k_, 1.0) for k_ in range(4)] + [pth.T2t(0.5)[0], round(pth.T2t(0.5)[1], 9)]
            mid = (pth.point(0.5)) / u
        except Exception as e:      # noqa
            joints, mid = e, None
        if ref is None:
            ref = (joints, mid)
        elif isinstance(joints, Exception) or any(not (abs(a_ - b_) <= 1e-9) for a_, b_ in zip(joints, ref[0])) or not (abs(mid - ref[1]) <= 1e-8):
            bad('T-intervals/depend-on-the-unit-of-length', 'the drawing at unit %g: t2T(k, 1), T2t(.5), point(.5)/unit = %r, %r; at unit 1: %r' % (u, joints, mid, ref), repr(ref), repr((joints, mid)))
    # (5) a path measured loosely, then copied (reversed / translated / rotated / scaled): the copy's T-intervals are the accurate shares, like a newly built path's
    cusp = sp.CubicBezier(0j, 10 + 10j, 0 + 10j, 10 + 0j)
    ell = sp.Arc(10 + 0j, 6 + 2j, 25, False, True, 16 + 3j)
    base1 = sp.Path(sp.Line(-4 + 0j, 0j), cusp, ell, sp.Line(16 + 3j, 20 + 3j))
    # near-cusps: a loose quadrature of these is visibly off
    base2 = sp.Path(sp.Line(-10 - 3j, -4 + 1j), sp.CubicBezier(-4 + 1j, 9 + 4j, -7 + 0j, 2j), sp.Line(2j, 12 + 5j), sp.CubicBezier(12 + 5j, 15 - 10j, 13 + 10j, 10 - 5j))
    for base in (base1, base2):
      copies = [('reversed', lambda q: q.reversed(), lambda L_: L_[::-1]), ('translated', lambda q: q.translated(5 - 2j), lambda L_: L_), ('rotated', lambda q: q.rotated(40, origin=0j), lambda L_: L_),
                ('scaled', lambda q: q.scaled(2), lambda L_: L_)]
      acc = [s_.length() for s_ in sp.Path(*[type(s_)(*s_.bpoints()) if not isinstance(s_, sp.Arc) else sp.Arc(s_.start, s_.radius, s_.rotation, s_.large_arc, s_.sweep, s_.end) for s_ in base])]
      for nm, mk_, order in copies:
          for loose in ({'error': 1e-1, 'min_depth': 1}, {'error': 0.5}, {'error': 3.0, 'min_depth': 0}, {'error': 1e-2}, None):
              src = sp.Path(*[type(s_)(*s_.bpoints()) if not isinstance(s_, sp.Arc) else sp.Arc(s_.start, s_.radius, s_.rotation, s_.large_arc, s_.sweep, s_.end) for s_ in base])
              ck.case(fp=('loose-then-copy', nm, str(loose)), nontrivial=True)
              try:
                  if loose is not None:
                      src.length(**loose)
                  q = mk_(src)
                  lens = order(acc)
                  tot = sum(lens)
                  want = [sum(lens[:k_ + 1]) / tot for k_ in range(4)]
                  got = [q.t2T(k_, 1.0) for k_ in range(4)]
                  k2, t2 = q.T2t((want[1] + want[2]) / 2 if nm != 'reversed' else (want[0] + want[1]) / 2)
                  ok = all(abs(a_ - b_) <= 2e-6 for a_, b_ in zip(got, want)) and k2 == (2 if nm != 'reversed' else 1)
              except Exception as e:      # noqa
                  ok, got, want = False, repr(e), None
              if not ok:
                  bad('T-intervals/copy-of-a-loosely-measured-path', '%s of a path after length(%s): joints at T = %r, accurate shares %r' % (nm, loose, got, want), repr(want), repr(got))

    # (6) isclosed never says True for a path that is not one closed loop: several closed sub-paths (two triangles) are refused or answered False
    tri = lambda o: [sp.Line(o, o + 4), sp.Line(o + 4, o + 2 + 3j), sp.Line(o + 2 + 3j, o)]      # noqa
    for tag_, pth in (('two triangles', sp.Path(*(tri(0j) + tri(10 + 0j)))), ('triangle + open stroke', sp.Path(*(tri(0j) + [sp.Line(9 + 9j, 12 + 9j)]))),
                      ('two loops of curves', sp.Path(sp.CubicBezier(0j, 3 + 3j, 3 - 3j, 0j), sp.QuadraticBezier(5 + 0j, 7 + 4j, 5 + 0j)))):
        ck.case(fp=('isclosed-compound', tag_), nontrivial=True)
        try:
            got = pth.isclosed()
        except Exception as e:      # noqa
            got = e
        if got is True or (not isinstance(got, Exception) and bool(got)):
            bad('isclosed/true-for-a-path-with-jumps', '%s: isclosed() = %r although consecutive end points do not coincide' % (tag_, got), 'False or a refusal', repr(got))
    # (7) a collinear cubic whose control points lie outside the span start..end (it overshoots and comes back): its share of T is its travelled length
    over = sp.CubicBezier(1 + 0j, 6 + 0j, -3 + 0j, 2 + 0j)
    trav = sum(abs(over.point((j_ + 1) / 20000.0) - over.point(j_ / 20000.0)) for j_ in range(20000))
    pth = sp.Path(sp.Line(-3 + 4j, 1 + 0j), over, sp.Line(2 + 0j, 2 + 5j))
    ck.case(fp=('overshooting-collinear-cubic',), nontrivial=True)
    l0_, l2_ = abs(pth[0].end - pth[0].start), abs(pth[2].end - pth[2].start)
    tot = l0_ + trav + l2_
    want = [l0_ / tot, (l0_ + trav) / tot]
    got = [pth.t2T(0, 1.0), pth.t2T(1, 1.0)]
    if any(not (abs(a_ - b_) <= 1e-4) for a_, b_ in zip(got, want)):
        bad('T-intervals/collinear-cubic-that-overshoots', 'Line, %r, Line: joints at T = %r, the travelled lengths give %r' % (over, got, want), repr(want), repr(got))


def run(ck):
    # the identities that entitle the placement families to their oracle (differences, determinant ratios, squared lengths, extreme coordinates), for all integers
    ck.apalache('MC_Placement', 'Inv')
    ck.apalache('MC_Placement', 'Wrong', expect_error=True)
    rnd = random.Random(ck.seed)
    directed_cases(ck)
    quick = ck.tier == 'quick'
    ck.rules.append('A: case = (segment lengths, joint pattern) of TParam.tla with every T = j/(2 total); distinct by (lengths, joints); '
                    'non-trivial = >= 2 segments. B: case = (n, joint pattern, closing joint, geometry variant) with mixed L/Q/C/A')
    ck.assumptions += ['exact (k,t) comparison only for all-Line chains whose total length is a power of two; otherwise point / t2T '
                       'within 1e-9 / 1e-12 (either side of a boundary is correct under rounding)',
                       'zero-length segments only in non-leading positions']
    mc = open(pm.__file__.rsplit('/', 2)[0] + '/spec/TParam_MC.cfg').read()
    if not quick:
        mc = mc.replace('MaxN = 3', 'MaxN = 4').replace('{0, 1, 2, 3, 64}', '{0, 1, 2, 5, 64}')
    ck.tlc('TParam', mc, need_actions=['Advance'], timeout=3000)
    pats = {}

    def on_case(c):
        family_a(ck, c, rnd)
        pats.setdefault((len(c['lens']), tuple(c['jn']), c['closing']), c['runs'])
    d = 'SPECIFICATION Spec\nCONSTANTS MaxN = %d\n LenSet = %s\nINVARIANT Dump\n'
    ck.tlc('TParam', d % (3, '{0, 1, 2, 3, 64}'), workers=1, coverage=False, on_case=on_case, timeout=3000)
    if not quick:
        ck.tlc('TParam', d % (4, '{0, 1, 4, 11}'), workers=1, coverage=False, on_case=on_case, timeout=3000)
    else:
        ck.tlc('TParam', d % (4, '{0, 2, 6}'), workers=1, coverage=False, on_case=on_case, timeout=3000)
    for (n, jn, closing), runs in sorted(pats.items()):
        for variant in range(6 if quick else 40):
            family_b(ck, n, list(jn), closing, runs, rnd, variant)
    ck.count('joint_patterns', len(pats))


def replay(rec):
    c = rec['case']
    print(rec['what'])
    print('expected', rec['expected'], 'observed', rec['observed'])
    if c.get('family') == 'A':
        lens, jn = c['lens'], c['jn']
        segs, x, y = [], 0.0, 0.0
        for k in range(len(lens)):
            segs.append(uniform_seg(c['kinds'][k], complex(x, y), complex(x + lens[k], y)))
            x += lens[k]
            if k < len(lens) - 1 and not jn[k]:
                y += 1.0
        p = sp.Path(*segs)
        if c.get('T') is not None:
            print('T2t', p.T2t(c['T']), 'point', p.point(c['T']))
    return 1
