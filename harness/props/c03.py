"""C03 - Line/Quadratic/Cubic point, poly, points and derivative are the Bernstein curve.

P  Bezier.tla: Horner = Bernstein = de Casteljau, end points, basis-change round trip,
   derivative = polynomial derivative (unisolvent grids, dense small integers for degree <= 3).
G  the same grids through the real classes: two 1-D model cases are paired into complex control
   points (every operation is real-linear).  Dyadic parameters (D = 8) and integer control points
   => the float arithmetic is exact and compared with ==; D = 3 (t = 1/3, -1/3, 4/3), the lattice
   scaled by 1e-3 / 1e6, compared with a 1e-12 relative tolerance against the exact rational.
"""
import ast
import inspect
import math
import random

import numpy as np
from fractions import Fraction as F

import numpy

from .. import pathmodel as pm

sp = pm.sp
import svgpathtools.path as sppath        # noqa
import svgpathtools.bezier as bz          # noqa

ALLOWED_TEST_NAMES = {'n', 'len', 'deg', 'order', 'return_coeffs', 'numpy_ordering', 'return_poly1d', 'return_bpoints', 'bpoints', 'p', 'c',
                      'isinstance', 'poly', 'poly1d', 'bpoints_', 't0', 't1', 'self'}


def straight_line_check():
    """The interpolation argument assumes each function branches only on the degree / option flags."""
    offenders = []
    fns = [sp.Line.point, sp.Line.poly, sp.Line.derivative, sp.QuadraticBezier.point, sp.QuadraticBezier.poly,
           sp.QuadraticBezier.derivative, sp.CubicBezier.point, sp.CubicBezier.poly, sp.CubicBezier.derivative,
           bz.bezier_point, bz.bezier2polynomial, bz.polynomial2bezier, sppath.bpoints2bezier, sppath.poly2bez]
    for fn in fns:
        try:
            src = inspect.getsource(fn)
            tree = ast.parse('if 1:\n' + '\n'.join('  ' + ln for ln in src.split('\n')))
        except Exception:      # noqa
            offenders.append(fn.__qualname__ + ':unparsable')
            continue
        for node in ast.walk(tree):
            if isinstance(node, (ast.If, ast.IfExp, ast.While)):
                names = {x.id for x in ast.walk(node.test) if isinstance(x, ast.Name)}
                attrs = {x.attr for x in ast.walk(node.test) if isinstance(x, ast.Attribute)}
                if isinstance(node.test, ast.Constant):
                    continue
                if not names <= ALLOWED_TEST_NAMES or (attrs - {'large_arc'}):
                    offenders.append('%s: branches on %s %s' % (fn.__qualname__, sorted(names - ALLOWED_TEST_NAMES), sorted(attrs)))
    return offenders


def make(z):
    z = pm.typed(z)
    return {2: sp.Line, 3: sp.QuadraticBezier, 4: sp.CubicBezier}[len(z)](*z)


def check_pair(ck, c1, c2, scale, exact, reassigned_from=None):
    P1, P2, a, D = c1['P'], c2['P'], c1['a'], c1['D']
    n = len(P1) - 1
    z = [complex(x * scale, y * scale) for x, y in zip(P1, P2)]
    t = a / D
    tq = F(a, D)
    if reassigned_from is None:
        seg = make(z)
    else:
        # an object that was built with other control points, fully queried, and then had its control points reassigned
        # (keeping some of them where the vectors agree) must answer like a fresh one
        seg = make([complex(x * scale, y * scale) for x, y in zip(reassigned_from['P'], c2['P'])])
        for warm in (seg.poly, lambda: seg.points([0.25, 0.5]), lambda: seg.point(0.5), lambda: seg.derivative(0.5), seg.length, seg.bbox):
            try:
                warm()
            except Exception:      # noqa  (e.g. derivative of a zero-length Line asserts)
                pass
        names = {2: ('start', 'end'), 3: ('start', 'control', 'end'), 4: ('start', 'control1', 'control2', 'end')}[len(z)]
        for nm, w in zip(names, z):
            if getattr(seg, nm) != w:
                setattr(seg, nm, w)
    fpc = (tuple(P1), tuple(P2), a, D, scale, None if reassigned_from is None else tuple(reassigned_from['P']))
    ck.case(fp=fpc, nontrivial=a not in (0, D) and len(set(z)) > 1)
    site = 'svgpathtools/path.py:%s' % type(seg).__name__
    tol = 0 if exact else 1e-12
    mag = max(abs(w) for w in z) + 1e-300

    def cx(v1, v2, den):
        # exact rational model value * the exact rational value of the float scale factor (linearity)
        return complex(float(F(v1, den) * F(scale)), float(F(v2, den) * F(scale)))

    def same(got, exp, k=1):
        if exact:
            return got == exp
        return abs(got - exp) <= tol * mag * (abs(t) + 2) ** 3 * k

    def bad(fn, exp, obs):
        ck.disagree(key='%s.%s' % (type(seg).__name__, fn), site=site + '.' + fn,
                    what='%s.%s at t=%s: got %r, Bernstein value %r (control points %s)' % (type(seg).__name__, fn, tq, obs, exp, z),
                    case={'P1': P1, 'P2': P2, 'a': a, 'D': D, 'scale': scale, 'fn': fn}, expected=repr(exp), observed=repr(obs), driver='pairs')
        return False
    try:
        exp_pt = cx(c1['pt'], c2['pt'], D ** n)
        got = seg.point(t)
        if not same(got, exp_pt):
            return bad('point', exp_pt, got)
        if seg.point(0) != z[0] or seg.point(1) != z[-1]:
            if exact or not (abs(seg.point(1) - z[-1]) <= 1e-12 * mag) or seg.point(0) != z[0]:
                return bad('point(0/1)', (z[0], z[-1]), (seg.point(0), seg.point(1)))
        poly = seg.poly()
        exp_co = [cx(u, v, 1) for u, v in zip(c1['coeffs'], c2['coeffs'])]
        co = list(poly.coeffs) if len(poly.coeffs) == n + 1 else [0j] * (n + 1 - len(poly.coeffs)) + list(poly.coeffs)
        if not all(same(g, e, 8) for g, e in zip(co, exp_co)):
            return bad('poly', exp_co, co)
        co2 = list(seg.poly(return_coeffs=True))
        if not all(same(g, e, 8) for g, e in zip(co2, exp_co)):
            return bad('poly(return_coeffs)', exp_co, co2)
        if not same(complex(poly(t)), exp_pt, 8):
            return bad('poly()(t)', exp_pt, poly(t))
        pts = seg.points([t, 0.0, 1.0])
        if not same(complex(pts[0]), exp_pt, 8) or not same(complex(pts[1]), z[0], 8) or not same(complex(pts[2]), z[-1], 8):
            return bad('points', exp_pt, list(pts))
        if len(set(z)) > 1 or n > 1:
            for k in range(1, 5):
                if n == 1 and z[0] == z[1]:
                    break
                expd = cx(c1['d'][k - 1], c2['d'][k - 1], D ** max(n - k, 0))
                gd = seg.derivative(t, k)
                if not (gd == expd if exact else abs(gd - expd) <= 1e-11 * mag * (abs(t) + 2) ** 3):
                    return bad('derivative(n=%d)' % k, expd, gd)
        # conversions.  numpy.poly1d strips leading zero coefficients: when the curve's polynomial has lower degree the
        # Bezier recovered from the poly1d is the degree-reduced description of the *same* curve (compared as polynomials);
        # a constant polynomial (all control points equal: a point, not a curve) is not convertible and is skipped.
        bp = sppath.poly2bez(co2, return_bpoints=True)
        degenerate = len(poly.coeffs) - 1 < n
        if len(poly.coeffs) >= 2:
            back = sppath.poly2bez(poly)
            if not degenerate and type(back) is not type(seg):
                return bad('poly2bez(type)', type(seg).__name__, type(back).__name__)
            bco = list(back.poly().coeffs)
            pco = list(poly.coeffs)
            if len(bco) != len(pco) or any((g != e) if exact else not (abs(g - e) <= 1e-11 * mag) for g, e in zip(bco, pco)):
                return bad('poly2bez(poly1d)', pco, bco)
            if exact and not degenerate and back != seg:
                return bad('poly2bez(poly1d) != segment', z, list(back.bpoints()))
        if exact:
            if list(bp) != z or sppath.bpoints2bezier(z) != seg or make(list(seg.bpoints())) != seg:
                return bad('poly2bez/bpoints2bezier', z, list(bp))
            if list(sppath.bez2poly(seg)) != co2 or list(bz.bezier2polynomial(z)) != co2:
                return bad('bez2poly', co2, list(sppath.bez2poly(seg)))
        else:
            if any(not (abs(u - v) <= 1e-11 * mag) for u, v in zip(bp, z)):
                return bad('poly2bez', z, list(bp))
    except Exception as e:      # noqa
        return bad('raises-' + type(e).__name__, 'a value', repr(e))
    return True


def near_the_ends(ck):
    """parameters a hair inside / outside the ends of [0, 1] (and a little further): the value is the Bernstein polynomial there too - exact rational reference"""
    curves = [[0j, 3 + 4j], [1 - 2j, 4 + 4j, -3 + 1j], [0j, 3 + 4j, -2 + 5j, 6 + 0j], [2 + 2j, 2 + 2j, 5 - 1j, -4 + 3j], [1 + 1j, 4 - 2j, 7 + 7j, 7 + 7j]]
    ts = [1 - 2.0 ** -20, 1 + 2.0 ** -20, 1 - 1e-9, 1 + 1e-9, 1 - 1e-5, 1 + 3e-6, 1 - 1e-13, 2.0 ** -30, -2.0 ** -25, 1e-9, -1e-6, 1e-5]
    for z in curves:
        seg = make(z)
        n = len(z) - 1
        mag = max(abs(w) for w in z)
        for t in ts:
            tq = F(t)
            ex = sum(F(math.comb(n, i)) * (1 - tq) ** (n - i) * tq ** i * F(int(w.real)) for i, w in enumerate(z))
            ey = sum(F(math.comb(n, i)) * (1 - tq) ** (n - i) * tq ** i * F(int(w.imag)) for i, w in enumerate(z))
            exp = complex(float(ex), float(ey))
            ck.case(fp=('near-end', str(z), t), nontrivial=True)
            try:
                got = {'point': complex(seg.point(t)), 'poly()(t)': complex(seg.poly()(t)), 'points': complex(seg.points([t, 0.5])[0])}
            except Exception as e:      # noqa
                got = {'raises': e}
            for fn, g in got.items():
                if isinstance(g, Exception) or not (abs(g - exp) <= 1e-13 * mag * 8):
                    ck.disagree(key='%s.%s/near-the-ends-of-the-interval' % (type(seg).__name__, fn), site='svgpathtools/path.py:%s.%s' % (type(seg).__name__, fn),
                                what='%s.%s at t = %r: got %r, Bernstein value %r (control points %s)' % (type(seg).__name__, fn, t, g, exp, z),
                                case={'z': [str(w) for w in z], 't': t, 'fn': fn}, expected=repr(exp), observed=repr(g), driver='near-ends')
                    break


def arrays_and_integer_coefficients(ck):
    """(a) derivative(t, n) for an array of parameters is the array of the scalar answers (a constant for n = degree, 0 beyond), complex parts included;
    (b) poly2bez / polynomial2bezier on integer-typed coefficients whose control points are not integers (exact rational reference)"""
    for z in ([1 + 1j, 4 + 5j], [0j, 2 + 3j, 5 + 0j], [1 - 2j, 4 + 4j, -3 + 1j], [0j, 1 + 3j, 4 + 3j, 5 + 0j], [2 + 2j, 2 + 2j, 5 - 1j, -4 + 3j]):
        seg = make(z)
        n = len(z) - 1
        for ts in (np.array([0.25, 0.5]), np.array([0, 1]), np.array([0.125, 0.5, 1.0, 2.0]), np.array([1, 3, 4])):
            for k in range(1, n + 2):
                ck.case(fp=('array-derivative', str(z), str(ts), k), nontrivial=True)
                try:
                    got = np.asarray(seg.derivative(ts, k)) * np.ones(len(ts))
                    want = np.array([complex(seg.derivative(float(t_), k)) for t_ in ts])
                    ok = got.shape == want.shape and np.all(np.abs(got - want) <= 1e-12 * (1 + np.abs(want)))
                except Exception as e:      # noqa
                    ok, got, want = False, e, None
                if not ok:
                    ck.disagree(key='%s.derivative/array-of-parameters' % type(seg).__name__, site='svgpathtools/path.py:%s.derivative' % type(seg).__name__,
                                what='%r.derivative(%r, %d) = %r, scalar calls give %r' % (seg, ts, k, got, want), case={'z': [str(w) for w in z], 'ts': [float(t_) for t_ in ts], 'n': k},
                                expected=repr(want), observed=repr(got), driver='arrays')
                    break
    for co in ([1, 1, 1, 1], [3, 1, 0], [2, -1, 5, 7], [1, 0, 0, 2], [5, 3], [-4, 7, 1]):
        n = len(co) - 1
        q = [F(x) for x in co]      # highest power first
        # control points of the polynomial sum co[i] t^(n-i): solve by the known inverse (exact)
        if n == 1:
            exp = [q[1], q[0] + q[1]]
        elif n == 2:
            exp = [q[2], q[1] / 2 + q[2], q[0] + q[1] + q[2]]
        else:
            exp = [q[3], q[2] / 3 + q[3], q[1] / 3 + 2 * q[2] / 3 + q[3], q[0] + q[1] + q[2] + q[3]]
        for spell, arg in (('list of ints', list(co)), ('numpy int array', np.array(co)), ('poly1d of ints', np.poly1d(co)), ('tuple of ints', tuple(co))):
            ck.case(fp=('int-coefficients', str(co), spell), nontrivial=True)
            try:
                got = [complex(w) for w in sppath.poly2bez(arg, return_bpoints=True)]
                ok = len(got) == len(exp) and all(abs(g_ - complex(float(e_))) <= 1e-12 * 20 for g_, e_ in zip(got, exp))
            except Exception as e:      # noqa
                ok, got = False, e
            if not ok:
                ck.disagree(key='poly2bez/integer-coefficients', site='svgpathtools/path.py:poly2bez / bezier.py:polynomial2bezier',
                            what='poly2bez(%s %r) = %r, exact control points %s' % (spell, co, got, [str(e_) for e_ in exp]), case={'co': co, 'spell': spell},
                            expected=[str(e_) for e_ in exp], observed=repr(got), driver='arrays')


def exact_ref(z, t):
    """point and first derivative of the Bezier curve with control points z at t, by de Casteljau in complex arithmetic (independent of the library)"""
    pts = [complex(w) for w in z]
    d = [len(z) - 1 and (len(z) - 1) * (b_ - a_) for a_, b_ in zip(pts, pts[1:])] or [0j]
    def dc(q):
        q = list(q)
        while len(q) > 1:
            q = [(1 - t) * a_ + t * b_ for a_, b_ in zip(q, q[1:])]
        return q[0]
    return dc(pts), dc(d)


def derived_objects_and_equal_hashes(ck):
    """(a) objects *derived* from a fully queried segment (reversed, translated, rotated, scaled, cropped, split) are the Bernstein curves of their own control
    points for point / derivative / poly / points; (b) a control point reassigned to a value with the same hash (hash(-1) == hash(-2) in CPython, so -1+2j / -2+2j,
    4-1j / 4-2j collide) after every method was called once"""
    ts = [0.0, 0.25, 0.6, 1.0]

    def judge(tag, obj, how):
        z = list(obj.bpoints())
        try:
            for t in ts:
                ep, ed = exact_ref(z, t)
                mag = max(abs(w) for w in z) + 1.0
                got = (obj.point(t), obj.derivative(t), obj.poly()(t), obj.poly().deriv()(t), complex(obj.points([t])[0]))
                exp = (ep, ed, ep, ed, ep)
                if any(not (abs(complex(g_) - e_) <= 1e-10 * mag) for g_, e_ in zip(got, exp)):
                    ck.disagree(key='%s/%s' % (type(obj).__name__, tag), site='svgpathtools/path.py:%s' % type(obj).__name__,
                                what='%s: %r at t=%r: point, derivative, poly, poly.deriv, points = %r; the Bernstein curve of its control points gives %r' % (how, obj, t, got, exp),
                                case={'how': how, 'z': [str(w) for w in z], 't': t}, expected=repr(exp), observed=repr(got), driver='derived')
                    return
        except Exception as e:      # noqa
            ck.disagree(key='%s/%s/raises' % (type(obj).__name__, tag), site='svgpathtools/path.py:%s' % type(obj).__name__, what='%s: %r raised %r' % (how, obj, e),
                        case={'how': how}, expected='values', observed=repr(e), driver='derived')

    def warm(seg):
        for f in (seg.length, seg.poly, lambda: seg.points([0.25, 0.5]), lambda: seg.point(0.5), lambda: seg.derivative(0.5), seg.bbox, lambda: seg.unit_tangent(0.5), lambda: hash(seg)):
            try:
                f()
            except Exception:      # noqa
                pass
    shapes = [[1 + 1j, 4 + 5j], [0j, 2 + 3j, 5 + 0j], [1 - 2j, 4 + 4j, -3 + 1j], [0j, 1 + 3j, 4 + 3j, 5 + 0j], [2 + 2j, 3 + 5j, 5 - 1j, -4 + 3j], [-1 + 2j, 4 - 1j, 3 + 3j, 0j]]
    for z in shapes:
        for warmed in (True, False):
            seg = make(z)
            if warmed:
                warm(seg)
            derived = [('reversed', seg.reversed()), ('translated', seg.translated(2 - 1j)), ('rotated', seg.rotated(30, origin=0j)), ('scaled', seg.scaled(2)),
                       ('cropped', seg.cropped(0.25, 0.75)), ('split[0]', seg.split(0.4)[0]), ('split[1]', seg.split(0.4)[1]), ('reversed twice', seg.reversed().reversed())]
            for nm, ob in derived:
                ck.case(fp=('derived', str(z), nm, warmed), nontrivial=True)
                judge('derived-object', ob, '%s of a %s segment' % (nm, 'fully queried' if warmed else 'new'))
            # in a path: Path.reversed / the path-level derivative
            pth = sp.Path(make(z), sp.Line(z[-1], z[-1] + 3))
            if warmed:
                pth.length()
                warm(pth[0])
            ck.case(fp=('derived-path', str(z), warmed), nontrivial=True)
            judge('derived-object', pth.reversed()[1], 'Path.reversed() member of a %s path' % ('measured' if warmed else 'new'))
    # equal hashes
    names = {2: ('start', 'end'), 3: ('start', 'control', 'end'), 4: ('start', 'control1', 'control2', 'end')}
    for z in shapes:
        for idx in range(len(z)):
            for a_, b_ in ((-1 + 2j, -2 + 2j), (-2 + 2j, -1 + 2j), (4 - 1j, 4 - 2j), (-1 - 1j, -2 - 2j), (-1 + 0j, -2 + 0j)):
                z0 = list(z)
                z0[idx] = a_
                if len(set(z0)) < 2:
                    continue
                seg = make(z0)
                warm(seg)
                setattr(seg, names[len(z)][idx], b_)
                ck.case(fp=('equal-hash', str(z), idx, str(a_)), nontrivial=True)
                judge('control-point-reassigned-to-a-value-with-the-same-hash', seg, 'control point %d moved from %r to %r after every method was called' % (idx, a_, b_))


def run(ck):
    rnd = random.Random(ck.seed)
    quick = ck.tier == 'quick'
    derived_objects_and_equal_hashes(ck)
    off = straight_line_check()
    ck.parts['branching_assumption_offenders'] = off
    ck.rules.append('case = (two 1-D control vectors of Bezier.tla paired into complex control points, t = a/D, scale); exact == for D = 8 and '
                    'integer control points, 1e-12 relative otherwise; non-trivial = interior or exterior t and not all control points equal')
    ck.assumptions += ['each evaluated method is straight-line arithmetic branching only on degree / option flags (checked from the AST: %s)'
                       % ('holds' if not off else 'OFFENDERS ' + '; '.join(off)),
                       'agreement on a unisolvent grid then identifies the polynomial the method computes']
    ck.tlc('Bezier', 'Bezier_MC.cfg', need_actions=['Step'])
    # the degree <= 3 identities over unbounded integers (symbolic), and a perturbed one refuted (non-vacuity)
    ck.apalache('MC_Ident', 'Inv')
    ck.apalache('MC_Ident', 'Wrong', expect_error=True)
    near_the_ends(ck)
    arrays_and_integer_coefficients(ck)
    dump = 'SPECIFICATION Spec\nCONSTANTS D = %d\n AMin <- %s\n AMax = %d\n MaxDeg = 3\n Dense <- %s\nINVARIANT Dump\n'
    for D, amin, amax, dense, exact in ((8, 'MinusTwo', 10, 'Dense4', True), (3, 'MinusOne', 4, 'Dense3' if quick else 'Dense4', False)):
        groups = {}
        r = ck.tlc('Bezier', dump % (D, amin, amax, dense), workers=1, coverage=False)
        for c in r.cases:
            if len(c['P']) >= 2:
                groups.setdefault((len(c['P']), c['a']), []).append(c)
        for key, lst in sorted(groups.items()):
            rnd.shuffle(lst)
            m = len(lst)
            for i, c1 in enumerate(lst):
                c2 = lst[(i * 7 + 3) % m]
                check_pair(ck, c1, c2, 1, exact)
                if i % 4 == 0:
                    check_pair(ck, c1, c2, 0.5 ** 10 if exact else 1e-3, exact)
                    check_pair(ck, c1, c2, 2.0 ** 20 if exact else 1e6, exact)
                if i % 16 == 0:
                    check_pair(ck, c1, c1, 1, exact)        # collinear along the diagonal (coincident where P repeats)
                if i % 3 == 0:
                    check_pair(ck, c1, c2, 1, exact, reassigned_from=lst[(i * 5 + 1) % m])
                    ck.count('reassigned_control_points')
        ck.sample('pair/D=%d' % D, {'P1': lst[0]['P'], 'P2': lst[1 % m]['P'], 'a': lst[0]['a'], 'D': D})
    if off:
        ck.parts['note'] = 'a method now has a data-dependent branch: the decision degrades to agreement on the grid (see assumptions)'


def replay(rec):
    c = rec['case']
    print(rec['what'])
    z = [complex(x * c['scale'], y * c['scale']) for x, y in zip(c['P1'], c['P2'])]
    seg = make(z)
    t = c['a'] / c['D']
    print('now: point', seg.point(t), 'derivative', seg.derivative(t), 'poly', seg.poly(return_coeffs=True))
    return 1
