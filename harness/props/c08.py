"""C08 - bbox() contains the curve and every side of it is touched by the curve.

P  BezierBox.tla: WitnessInside / Attained / EndsInside / DerivZero for every small-integer
   coordinate polynomial whose critical points are rational (degenerate degree, monotone, double
   root, roots outside (0,1) all occur); ArcLattice.tla: the critical lattice angles inside a sweep.
G  Beziers: the exact rational extremes of two 1-D model vectors paired into a 2-D curve vs bbox()
   (1e-12); generic lattice curves: every witness B(j/64) inside and every side within the witness
   spacing bound.  Arcs: circles with any lattice rotation and ellipses with rotation a multiple of
   90 degrees: bbox = hull of the end points and the lattice points at the critical angles (0-4
   extremes crossed); other lattice arcs: dense witnesses.  Paths: union of the segments' boxes.
"""
import random
from fractions import Fraction as F

from .. import arcmodel as am
from .. import pathmodel as pm

sp = pm.sp


def make(z):
    z = pm.typed(z)
    return {2: sp.Line, 3: sp.QuadraticBezier, 4: sp.CubicBezier}[len(z)](*z)


def exact_pair(ck, c1, c2, scale=1.0, off=0j):
    z = [complex(x, y) * scale + off for x, y in zip(c1['P'], c2['P'])]
    seg = make(z)
    ck.case(fp=('exact', tuple(c1['P']), tuple(c2['P']), scale), nontrivial=c1['ncrit'] + c2['ncrit'] > 0)
    exp = (float(F(*c1['min'])) * scale + off.real, float(F(*c1['max'])) * scale + off.real,
           float(F(*c2['min'])) * scale + off.imag, float(F(*c2['max'])) * scale + off.imag)
    try:
        got = seg.bbox()
    except Exception as e:      # noqa
        got = e
    size = (max(abs(w) for w in z) + 1)
    if isinstance(got, Exception) or any(not (abs(g - e) <= 1e-12 * size) for g, e in zip(got, exp)):
        kinds = []
        for c in (c1, c2):
            P = c['P']
            if len(P) == 4 and (-P[0] + 3 * P[1] - 3 * P[2] + P[3]) == 0:
                kinds.append('degenerate-degree')
            else:
                kinds.append('%d-critical' % c['ncrit'])
        ck.disagree(key='%s.bbox/%s' % (type(seg).__name__, '+'.join(sorted(set(kinds)))), site='svgpathtools/bezier.py:bezier_bounding_box/bezier_real_minmax',
                    what='bbox() of %r = %r, exact extremes %r' % (seg, got, exp), case={'P1': c1['P'], 'P2': c2['P'], 'scale': scale},
                    expected=list(exp), observed=repr(got), driver='exact')
        return False
    return True


def witness_check(ck, seg, tag, case, n=64, tol=1e-9):
    size = max(abs(seg.point(t)) for t in (0, 0.5, 1)) + 1
    try:
        xmin, xmax, ymin, ymax = seg.bbox()
    except Exception as e:      # noqa
        ck.disagree(key='%s.bbox/raises-%s' % (type(seg).__name__, type(e).__name__), site='svgpathtools/path.py:bbox', what='bbox() of %r raised %r' % (seg, e),
                    case=case, expected='box', observed=repr(e), driver=tag)
        return False
    pts = [seg.point(j / float(n)) for j in range(n + 1)]
    xs, ys = [p.real for p in pts], [p.imag for p in pts]
    step = max(abs(a - b) for a, b in zip(pts, pts[1:]))
    inside = min(xs) >= xmin - tol * size and max(xs) <= xmax + tol * size and min(ys) >= ymin - tol * size and max(ys) <= ymax + tol * size
    tight = (min(xs) - xmin <= step and xmax - max(xs) <= step and min(ys) - ymin <= step and ymax - max(ys) <= step)
    if not (inside and tight):
        ck.disagree(key='%s.bbox/%s' % (type(seg).__name__, 'curve-outside-box' if not inside else 'box-not-tight'), site='svgpathtools/path.py:bbox',
                    what='bbox %r of %r: witnesses span x [%r,%r] y [%r,%r] (spacing %r)' % ((xmin, xmax, ymin, ymax), seg, min(xs), max(xs), min(ys), max(ys), step),
                    case=case, expected=[min(xs), max(xs), min(ys), max(ys)], observed=[xmin, xmax, ymin, ymax], driver=tag)
        return False
    return True


def arc_case(ck, c):
    A = c['arc']
    arc = am.concretise(A)
    size = max(A['r']) + abs(complex(*A['c'])) + 1
    ck.case(fp=('arc', tuple(A['r']), A['phi'], A['th'], A['dl']), nontrivial=len(c['xc']) + len(c['yc']) > 0)
    if not c['known']:
        return witness_check(ck, arc, 'arc-witness', {'arc': A}, n=256, tol=1e-7)
    pts = [am.lat_point(A, A['th']), am.lat_point(A, A['th'] + A['dl'])]
    xs = [p.real for p in pts] + [am.lat_point(A, a).real for a in c['xc']]
    ys = [p.imag for p in pts] + [am.lat_point(A, a).imag for a in c['yc']]
    exp = (min(xs), max(xs), min(ys), max(ys))
    try:
        got = arc.bbox()
    except Exception as e:      # noqa
        got = e
    if isinstance(got, Exception) or any(not (abs(g - e) <= 1e-6 * size) for g, e in zip(got, exp)):
        ck.disagree(key='Arc.bbox/%d-extremes-crossed' % (len(c['xc']) + len(c['yc'])), site='svgpathtools/path.py:Arc.bbox',
                    what='bbox() of lattice arc %s = %r; hull of end points and critical lattice angles x%s y%s = %r' % (A, got, c['xc'], c['yc'], exp),
                    case={'arc': A}, expected=list(exp), observed=repr(got), driver='arc')
        return False
    return True


def run(ck):
    rnd = random.Random(ck.seed)
    quick = ck.tier == 'quick'
    ck.rules.append('Bezier case = two BezierBox.tla vectors paired into a curve (exact rational extremes), scaled / translated variants; generic '
                    'lattice curves and off-lattice arcs by 64/256 witnesses; arc case = lattice arc with its critical angles; non-trivial = at '
                    'least one interior extreme')
    ck.assumptions += ['tightness between witnesses is bounded by the witness spacing for generic curves (not decided exactly)',
                       'arcs with rotation off multiples of 90 degrees and unequal radii: witnesses only']
    ck.tlc('BezierBox', 'BezierBox_MC.cfg', need_actions=['Step'])
    r = ck.tlc('BezierBox', 'SPECIFICATION Spec\nCONSTANTS Vals <- ValsA\n W = 8\n MaxDen = 7\n Degs <- DegsAll\nCONSTRAINT AtStart\nINVARIANT Dump\n', workers=1, coverage=False)
    by = {}
    for c in r.cases:
        by.setdefault(len(c['P']), []).append(c)
    for n, lst in sorted(by.items()):
        rnd.shuffle(lst)
        m = len(lst)
        per = 3 if quick else 12
        for i, c1 in enumerate(lst):
            for k in range(per):
                c2 = lst[(i * 7 + 13 * k + 1) % m]
                exact_pair(ck, c1, c2)
            if i % 5 == 0:
                exact_pair(ck, c1, lst[(i + 1) % m], scale=1e-3, off=complex(2.5, -1e3))
                exact_pair(ck, c1, lst[(i + 2) % m], scale=2.0 ** 20)
                exact_pair(ck, c1, lst[(i + 3) % m], scale=2.0 ** -24)       # curves drawn at a tiny scale (extent ~ 1e-7)
                exact_pair(ck, c1, lst[(i + 4) % m], scale=1e-7, off=complex(1e-7, 0))
        ck.sample('exact/%d' % n, {'P': lst[0]['P'], 'min': lst[0]['min'], 'max': lst[0]['max']})
    # generic lattice curves (witnesses)
    vals = [-3, 0, 1, 4]
    for it in range(150 if quick else 1500):
        n = rnd.choice([3, 4])
        z = [complex(rnd.choice(vals), rnd.choice(vals)) for _ in range(n)]
        if len(set(z)) < 2:
            continue
        ck.case(fp=('generic', tuple(z)), nontrivial=True)
        witness_check(ck, make(z), 'bezier-witness', {'z': [str(w) for w in z]})
    # arcs
    st = {'n': 0}

    def on_arc(c):
        if c['arc']['kind'] == 'fit':
            st['n'] += 1
            if st['n'] % (2 if quick else 1) == 0:
                arc_case(ck, c)
                ck.sample('arc', c)
    mc = open(pm.__file__.rsplit('/', 2)[0] + '/spec/ArcLattice_MC.cfg').read()
    ck.tlc('ArcLattice', mc.replace('DlsAll', 'DlsSome'), need_actions=['Advance'], timeout=3000)
    d = ('SPECIFICATION Spec\nCONSTANTS Radii <- RadiiA\n Phis <- PhisA\n Ths <- ThsAll\n Dls <- %s\n Centers <- CentersB\n SmallH <- SmallA\n SmallR <- SmallRA\n'
         'CONSTRAINT AtStart\nINVARIANT Dump\n') % ('DlsSome' if quick else 'DlsAll')
    ck.tlc('ArcLattice', d, workers=1, coverage=False, on_case=on_arc, timeout=3000)
    # generic cubics and quadratics with larger integer (and half-integer) control values: turning points anywhere in (0,1), also two in one half of it
    gen = [[0, 1.5, -14.5, 52], [52, -14.5, 1.5, 0], [0, 30, -29, 3], [5, -40, 38, 6]]
    grnd = random.Random(ck.seed + 8)
    for it in range(120 if quick else 1500):
        gen.append([grnd.randint(-60, 60) / (2.0 if it % 3 == 0 else 1.0) for _ in range(grnd.choice([3, 4, 4]))])
    for it, xs_ in enumerate(gen):
        ys_ = [grnd.randint(-60, 60) for _ in xs_]
        for sgz in ([complex(a_, b_) for a_, b_ in zip(xs_, ys_)], [complex(b_, a_) for a_, b_ in zip(xs_, ys_)]):
            if len(set(sgz)) < 2:
                continue
            sgen = make(sgz)
            ck.case(fp=('generic-box', str(sgz)), nontrivial=True)
            witness_check(ck, sgen, 'generic', {'z': [str(w) for w in sgz]}, n=1024)
    # the identities that entitle the placement families to their oracle (differences, determinant ratios, squared lengths, extreme coordinates), for all integers
    ck.apalache('MC_Placement', 'Inv')
    ck.apalache('MC_Placement', 'Wrong', expect_error=True)
    # derived objects (rotated / scaled / translated / reversed / cropped copies of every kind of segment, and of a path) have the box of *their* curve,
    # whatever the original had been asked before; far from the origin and in small units too
    dpool = [sp.Line(0j, 3 + 4j), sp.QuadraticBezier(3 + 4j, 8 + 9j, 5 + 0j), sp.CubicBezier(5 + 0j, 1 - 6j, 9 - 6j, 6 + 1j), sp.Arc(6 + 1j, 3 + 2j, 30, True, False, 2 + 2j),
             sp.Arc(0j, 5 + 5j, 0, False, True, 6 + 2j), sp.Arc(1 + 1j, 4 + 1.5j, -70, False, True, 5 - 2j), sp.CubicBezier(0j, 10 + 0j, 0 + 10j, 10 + 10j)]
    ops = [('rotated(33)', lambda g: g.rotated(33, origin=1 + 2j)), ('rotated(90)', lambda g: g.rotated(90, origin=0j)), ('rotated(-160)', lambda g: g.rotated(-160, origin=3 - 1j)),
           ('scaled(2.5)', lambda g: g.scaled(2.5)), ('scaled(-1)', lambda g: g.scaled(-1)), ('translated', lambda g: g.translated(7 - 3j)), ('reversed', lambda g: g.reversed()),
           ('cropped', lambda g: g.cropped(0.2, 0.9)), ('far away', lambda g: g.translated(500000 + 4649776j)), ('small', lambda g: g.scaled(1e-4)),
           ('rotated twice', lambda g: g.rotated(33, origin=0j).rotated(47, origin=0j))]
    for di, g in enumerate(dpool):
        for warmed in (False, True):
            for on_, of_ in ops:
                import copy
                src = copy.deepcopy(g)
                if warmed:
                    src.bbox()
                    src.length()
                ck.case(fp=('derived-box', di, on_, warmed), nontrivial=True)
                try:
                    ob = of_(src)
                except Exception as e:      # noqa
                    ck.disagree(key='bbox/derived/%s-raises' % on_, site='svgpathtools/path.py', what='%s of %r raised %r' % (on_, g, e), case={'seg': repr(g), 'op': on_}, expected='a segment', observed=repr(e), driver='derived')
                    continue
                witness_check(ck, ob, 'derived', {'seg': repr(g), 'op': on_, 'warmed': warmed}, n=512, tol=1e-7 if on_ != 'far away' else 1e-9)
                if on_ in ('rotated(33)', 'scaled(2.5)', 'far away'):
                    pth = sp.Path(ob, sp.Line(ob.end, ob.end + (ob.end - ob.start) / 7))
                    bb_, (b1, b2) = pth.bbox(), (ob.bbox(), pth[1].bbox())
                    if not all(abs(v_ - w_) <= 1e-9 * (1 + abs(w_)) for v_, w_ in zip(bb_, (min(b1[0], b2[0]), max(b1[1], b2[1]), min(b1[2], b2[2]), max(b1[3], b2[3])))):
                        ck.disagree(key='Path.bbox/not-the-union', site='svgpathtools/path.py:Path.bbox', what='path of %s of %r plus a line: bbox %r, members %r %r' % (on_, g, bb_, b1, b2),
                                    case={'seg': repr(g), 'op': on_}, expected=[list(b1), list(b2)], observed=list(bb_), driver='derived')
    # paths made of lines only with pen-up jumps (several strokes): the box is the union of the strokes' boxes - the vertices after a jump count too
    strokes = [[(0j, 3 + 4j), (3 + 4j, 5 + 1j)], [(10 + 9j, 12 - 6j)], [(-7 + 2j, -7 - 3j), (-7 - 3j, -2 - 8j)], [(1 + 1j, 1 + 1j)], [(20 + 0j, 14 + 15j), (14 + 15j, 13 + 2j)]]
    import itertools
    for r_ in (2, 3):
        for combo in itertools.permutations(range(len(strokes)), r_):
            segs = [sp.Line(a_, b_) for ci in combo for a_, b_ in strokes[ci]]
            for rev in (False, True):
                pth = sp.Path(*(segs if not rev else [sg_.reversed() for sg_ in reversed(segs)]))
                ck.case(fp=('line-strokes', combo, rev), nontrivial=True)
                xs = [z_.real for sg_ in pth for z_ in (sg_.start, sg_.end)]
                ys = [z_.imag for sg_ in pth for z_ in (sg_.start, sg_.end)]
                exp = (min(xs), max(xs), min(ys), max(ys))
                try:
                    got = tuple(pth.bbox())
                except Exception as e:      # noqa
                    got = e
                if got != exp:
                    ck.disagree(key='Path.bbox/strokes-of-lines', site='svgpathtools/path.py:Path.bbox', what='%r: bbox %r, the vertices span %r' % (pth, got, exp), case={'strokes': list(combo), 'reversed': rev},
                                expected=list(exp), observed=repr(got), driver='path')
    # paths: union of the segments' boxes
    pool = [sp.Line(0j, 3 + 4j), sp.QuadraticBezier(3 + 4j, 8 + 9j, 5 + 0j), sp.CubicBezier(5 + 0j, 1 - 6j, 9 - 6j, 6 + 1j),
            sp.Arc(6 + 1j, 3 + 2j, 30, True, False, 2 + 2j), sp.Line(-7 + 2j, -7 - 3j), sp.CubicBezier(0j, 0j, 3 + 3j, -3 + 3j),
            # members that return to their own start (a loop, a hair-pin): they have extent
            sp.CubicBezier(10 + 0j, 40 + 30j, 40 - 30j, 10 + 0j), sp.QuadraticBezier(-2 + 1j, -2 + 12j, -2 + 1j), sp.Line(1 + 1j, 1 + 1j)]
    for it in range(60 if quick else 400):
        segs = [rnd.choice(pool) for _ in range(rnd.randint(1, 5))]
        p = sp.Path(*segs)
        ck.case(fp=('path', tuple(pool.index(s) for s in segs)), nontrivial=len(segs) > 1)
        bbs = [s.bbox() for s in segs]
        exp = (min(b[0] for b in bbs), max(b[1] for b in bbs), min(b[2] for b in bbs), max(b[3] for b in bbs))
        got = p.bbox()
        if tuple(got) == exp and len(segs) >= 1 and not isinstance(segs[-1], sp.Arc):
            # history: query, move an end point through the Path interface, query again (a fresh copy of the segments is used)
            import copy
            q = sp.Path(*[copy.deepcopy(s_) for s_ in segs])
            q.bbox()
            q.end = q.end + (40 + 50j)
            q.start = q.start - (60 + 0j) if not isinstance(q[0], sp.Arc) else q.start
            b2 = [s_.bbox() for s_ in q]
            exp2 = (min(b[0] for b in b2), max(b[1] for b in b2), min(b[2] for b in b2), max(b[3] for b in b2))
            if tuple(q.bbox()) != exp2:
                ck.disagree(key='Path.bbox/stale-after-moving-an-end-point', site='svgpathtools/path.py:Path.bbox', what='bbox(); path.end = z; bbox() = %r, union %r' % (q.bbox(), exp2),
                            case={'segs': [repr(s_) for s_ in segs]}, expected=list(exp2), observed=list(q.bbox()), driver='path')
        if tuple(got) != exp:
            ck.disagree(key='Path.bbox/not-the-union', site='svgpathtools/path.py:Path.bbox', what='Path.bbox() = %r, union of segment boxes = %r' % (got, exp),
                        case={'segs': [repr(s) for s in segs]}, expected=list(exp), observed=list(got), driver='path')


def replay(rec):
    print(rec['what'])
    print('expected', rec['expected'], 'observed', rec['observed'])
    return 1
