"""C12 - every transversal crossing is reported, exactly once.

P  Crossings.tla: MeetExactly / Monotone / TransversalOK (constructed pairs cross exactly once, at
   known parameters strictly inside (0,1)); the count family (exact number of crossings of a long
   line with a quadratic by isolated sign changes, general position proved in the model).
G  every constructed pair (tangents >= 6 degrees apart) must be reported within 1e-4 of the true
   parameters, once; Line-Line / Line-Bezier / Bezier-Line pairs must report exactly the model's
   number of crossings; circle-lattice arc pairs; Path.intersect must report every crossing that
   lies strictly inside a segment of each path, once.
P+V Subdiv.tla: the subdivision loop of bezier_intersections as a state machine; the design variant
   satisfies NoLoss / Once / Sound, the transcription of the code violates NoLoss (zero-extent and
   touching boxes); harness/subdivmodel.py compares every behaviour of the transcription with the
   recorded behaviour of the real loop, visit by visit.
Known findings (open): Bezier-Bezier crossings at dyadic parameters of both curves are lost, crossings
of an exactly axis-parallel straight Bezier are lost, and generic Bezier-Bezier crossings can be
reported several times.
"""
import random

from .. import crossmodel as cm

sp = cm.sp


def report_case(ck, tag, a, b, known, case, exact_count=None, ptol=1e-4):
    names = cm.kind(a) + cm.kind(b)
    bezbez = names[0] in 'QC' and names[1] in 'QC'
    size = max(abs(z) for s in (a, b) for z in (s.start, s.end)) + 1
    try:
        res = a.intersect(b)
    except Exception as e:      # noqa
        ck.disagree(key='intersect/%s/raises-%s' % (names, type(e).__name__), site='svgpathtools/path.py:intersect', what='[%s] %r x %r raised %r' % (tag, a, b, e),
                    case=case, expected='list', observed=repr(e), driver='completeness')
        return False
    for (t1, t2, pt) in known:
        near = [(u, v) for u, v in res if abs(u - t1) < ptol and abs(v - t2) < ptol]
        if not near:
            dy = 'dyadic' in tag
            key = 'bezier_intersections/dyadic-crossing-lost' if (bezbez and dy) else 'intersect/%s/crossing-lost' % names
            # a straight Bezier that is exactly or *nearly* axis-parallel (tilt <= 1e-8): its boxes have (almost) no width and the strict overlap test loses the
            # crossing altogether - the recorded finding; a crossing that is reported, but at other parameters, is not that
            if bezbez and 'thin stroke' in tag and case.get('rise', 1) <= 1e-8 and not any(abs(u - t1) < 0.05 and abs(v - t2) < 0.05 for u, v in res):
                key = 'bezier_intersections/axis-parallel-straight-bezier-crossing-lost'
            ck.disagree(key=key, site='svgpathtools/bezier.py:bezier_intersections' if bezbez else 'svgpathtools/path.py:intersect',
                        what='[%s] %r x %r: the crossing at parameters (%r, %r), point %r, is not reported: %s' % (tag, a, b, t1, t2, pt, res), case=case,
                        expected=[t1, t2], observed=[(float(u), float(v)) for u, v in res], driver='completeness')
            return False
        if len(near) > 1:
            key = 'bezier_intersections/duplicate-crossing' if bezbez else 'intersect/%s/crossing-reported-twice' % names
            ck.disagree(key=key, site='svgpathtools/bezier.py:bezier_intersections' if bezbez else 'svgpathtools/path.py:intersect',
                        what='[%s] %r x %r: the crossing at (%r, %r) is reported %d times' % (tag, a, b, t1, t2, len(near)), case=case,
                        expected=1, observed=len(near), driver='completeness')
            return False
    if exact_count is not None and len(res) != exact_count:
        ck.disagree(key='intersect/%s/wrong-number-of-crossings' % names, site='svgpathtools/path.py:intersect',
                    what='[%s] %r x %r: %d pairs reported, exact number of crossings %d' % (tag, a, b, len(res), exact_count), case=case,
                    expected=exact_count, observed=len(res), driver='completeness')
        return False
    return True


def run(ck):
    rnd = random.Random(ck.seed)
    quick = ck.tier == 'quick'
    ck.rules.append('case = ordered pair of segments with a constructed transversal crossing (Crossings.tla, k/3 and the dyadic k/2 family), count-family '
                    'pairs with the exact number of crossings, circle-lattice arc pairs, path pairs; non-trivial = all')
    ck.assumptions += ['pairs whose tangents meet at less than 6 degrees are skipped', 'crossings exactly on a joint of a path are excluded',
                       'two arcs are paired only when both are circular and unrotated']
    if not quick:
        ck.tlc('Crossings', 'Crossings_MC.cfg', timeout=1200)
    # the subdivision loop itself: Subdiv.tla (design vs transcription of the code) and visit-by-visit conformance of the real loop
    from .. import subdivmodel
    subdivmodel.run(ck, quick)
    d = 'SPECIFICATION Spec\nCONSTANTS Q = %d\n Fams = {"%s"}\nINVARIANT MeetExactly\nINVARIANT Monotone\nINVARIANT TransversalOK\nINVARIANT Separated\nINVARIANT Dump\n'
    skipped = 0
    nsmall = 0
    for q, n in ((3, 170 if quick else 1500), (2, 80 if quick else 500)):
        r = ck.tlc('Crossings', d % (q, 'cross'), workers=1, coverage=False, timeout=1200)
        cases = r.cases
        rnd.shuffle(cases)
        bb = [c for c in cases if c['pr']['n1'] > 1 and c['pr']['n2'] > 1][:n // 3]
        rest = [c for c in cases if not (c['pr']['n1'] > 1 and c['pr']['n2'] > 1)][:n - len(bb)]
        for c in bb + rest:
            a, b, t1, t2 = cm.pair_of(c)
            if cm.angle_between(a, b, t1, t2) < 6.0:
                skipped += 1
                continue
            pr = c['pr']
            ck.case(fp=('pair', q, str(pr)), nontrivial=True)
            tag = 'constructed Q=%d%s' % (q, ' dyadic' if q == 2 else '')
            linepair = pr['n1'] == 1 or pr['n2'] == 1
            for x, y, u, v in ((a, b, t1, t2), (b, a, t2, t1)):
                report_case(ck, tag, x, y, [(u, v, x.point(u))], {'pr': pr, 'q': q}, exact_count=1 if linepair else None)
            if not linepair and q == 3 and (nsmall < (12 if quick else 80)):
                # Bezier x Bezier drawn at a hundredth of the size: the parameters of the crossing do not change (the subdivision works with an absolute
                # tolerance, 1e-12 on the box area - still far below this scale)
                nsmall += 1
                # ... and at a thousandth / a hundred-thousandth of it: the crossing and its parameters do not depend on the unit of length (a tolerance that does
                # not shrink with the curves accepts boxes as large as the curves: wrong parameters, one crossing reported several times)
                for sc_ in (0.01, 1e-3, 1e-5):
                    sa, sb = a.scaled(sc_), b.scaled(sc_)
                    ck.case(fp=('pair-small', sc_, q, str(pr)), nontrivial=True)
                    report_case(ck, tag + ' scaled %g' % sc_, sa, sb, [(t1, t2, sa.point(t1))], {'pr': pr, 'q': q, 'scale': sc_})
            if linepair:
                fa, fb = a.scaled(1e-3).translated(4000 + 3000j), b.scaled(1e-3).translated(4000 + 3000j)
                ck.case(fp=('pair-far', q, str(pr)), nontrivial=True)
                report_case(ck, tag + ' scaled 1e-3 at 4000+3000j', fa, fb, [(t1, t2, fa.point(t1))], {'pr': pr, 'q': q, 'far': True}, exact_count=1)
                # the same pair drawn tiny and huge about the origin: crossing parameters do not depend on the unit of length
                for sc_ in (1e-6, 1e6):
                    ta, tb = a.scaled(sc_), b.scaled(sc_)
                    ck.case(fp=('pair-scale', sc_, q, str(pr)), nontrivial=True)
                    report_case(ck, tag + ' scaled %g' % sc_, ta, tb, [(t1, t2, ta.point(t1))], {'pr': pr, 'q': q, 'scale': sc_}, exact_count=1)
        ck.sample('constructed/Q=%d' % q, cases[0])
    # the identities that entitle the placement families to their oracle (differences, determinant ratios, squared lengths, extreme coordinates), for all integers
    ck.apalache('MC_Placement', 'Inv')
    ck.apalache('MC_Placement', 'Wrong', expect_error=True)
    ck.count('skipped_small_angle', skipped)
    # (i) a cubic whose second control point alone reaches into the band where the partner lies (either coordinate), the cubic being the receiver;
    # (ii) paths that share a vertex and whose touching members cross again in their interiors; (iii) a large cubic that was measured and then made tiny in place
    for swap_xy in (False, True):
        g = (lambda z: complex(z.imag, z.real)) if swap_xy else (lambda z: z)
        cub = sp.CubicBezier(g(0j), g(3 + 1j), g(7 + 9j), g(10 + 0j))
        for partner in (sp.Line(g(2 + 3.2j), g(12 + 3.8j)), sp.QuadraticBezier(g(1 + 3.3j), g(6 + 2.9j), g(12 + 3.6j)), sp.CubicBezier(g(1 + 3.5j), g(4 + 3.1j), g(8 + 3.9j), g(12 + 3.4j))):
            ln_truth = sp.Line(partner.start, partner.end).intersect(cub) if not isinstance(partner, sp.Line) else partner.intersect(cub)
            ck.case(fp=('control2-only-extreme', swap_xy, type(partner).__name__), nontrivial=True)
            try:
                got = cub.intersect(partner)
                other = partner.intersect(cub)
            except Exception as e:      # noqa
                got, other = e, None
            npts = lambda L_, f_: sorted((round(f_(p_).real, 3), round(f_(p_).imag, 3)) for p_ in L_)      # noqa
            if isinstance(got, Exception) or len(got) == 0 or len(ln_truth) == 0 or (isinstance(partner, sp.Line) and npts([cub.point(a_) for a_, _ in got], lambda z: z) != npts([cub.point(b_) for _, b_ in other], lambda z: z)):
                ck.disagree(key='intersect/C%s/crossing-lost' % cm.kind(partner), site='svgpathtools/path.py:CubicBezier.intersect', what='%r x %r = %r; the other operand order gives %r' % (cub, partner, got, other),
                            case={'swap': swap_xy, 'partner': repr(partner)}, expected=repr(other), observed=repr(got), driver='completeness')
    A_ = sp.CubicBezier(0j, 4 + 8j, 8 - 8j, 12 + 0j)
    for B_ in (sp.Line(12 + 0j, 0 + 1j), sp.QuadraticBezier(12 + 0j, 7 + 3j, 1 - 1.5j), sp.Line(-1 - 2j, 0j).reversed() if False else sp.Line(12 + 0j, 2 - 0.5j)):
        truth = [(u_, v_) for u_, v_ in A_.intersect(B_) if 0.02 < u_ < 0.98 and 0.02 < v_ < 0.98]
        for P1, P2, sw in ((sp.Path(sp.Line(-4 + 0j, 0j), A_), sp.Path(B_, sp.Line(B_.end, B_.end - 3j)), False), (sp.Path(B_.reversed()), sp.Path(A_.reversed()), True)):
            ck.case(fp=('shared-vertex', repr(B_), sw), nontrivial=True)
            try:
                res = P1.intersect(P2)
                pts = [P1.point(a_[0]) for a_, _ in res]
            except Exception as e:      # noqa
                res, pts = e, []
            missing = [A_.point(u_) for u_, _ in truth if not any(abs(A_.point(u_) - q_) <= 1e-3 for q_ in pts)]
            if isinstance(res, Exception) or not truth or missing:
                ck.disagree(key='Path.intersect/crossing-lost-next-to-a-shared-vertex', site='svgpathtools/path.py:Path.intersect', what='paths sharing the vertex %r: crossings of the touching members at %r are missing from %r' % (A_.end, missing, res),
                            case={'B': repr(B_), 'swapped': sw}, expected=[str(A_.point(u_)) for u_, _ in truth], observed=repr(res), driver='completeness')
    big = sp.CubicBezier(0j, 300 + 400j, 600 - 200j, 1000 + 300j)
    big.length(), big.bbox()
    for nm_, w_ in zip(('start', 'control1', 'control2', 'end'), (0j, 3e-5 + 4e-5j, 6e-5 - 2e-5j, 1e-4 + 3e-5j)):
        setattr(big, nm_, w_)
    fresh = sp.CubicBezier(*big.bpoints())
    for partner in (sp.QuadraticBezier(1e-5 + 5e-5j, 4e-5 - 3e-5j, 9e-5 + 4e-5j), sp.CubicBezier(1e-5 + 5e-5j, 4e-5 - 3e-5j, 7e-5 + 6e-5j, 9e-5 - 4e-5j)):
        ck.case(fp=('measured-then-made-tiny', type(partner).__name__), nontrivial=True)
        try:
            a_, b_ = sorted(big.intersect(partner)), sorted(fresh.intersect(partner))
            ok = len(a_) == len(b_) and len(b_) >= 1 and all(abs(x_[0] - y_[0]) <= 1e-4 and abs(x_[1] - y_[1]) <= 1e-4 for x_, y_ in zip(a_, b_))
        except Exception as e:      # noqa
            ok, a_, b_ = False, e, None
        if not ok:
            ck.disagree(key='intersect/C%s/after-the-curve-was-made-tiny-in-place' % cm.kind(partner), site='svgpathtools/path.py:CubicBezier.intersect', what='a cubic of size 1000, measured, set to size 1e-4 in place, x %r: %r; a new object: %r' % (partner, a_, b_),
                        case={'partner': repr(partner)}, expected=repr(b_), observed=repr(a_), driver='history')
    # nearly straight, nearly axis-parallel strokes (long thin boxes) against curves: evenly spaced control points make the stroke's parameter the Line's, so the
    # Line spelling of the stroke gives the true parameters (Line x Bezier is decided by the families above)
    others = [sp.CubicBezier(1 - 4j, 4.3 + 6j, 6.1 - 6j, 9 + 4.4j), sp.QuadraticBezier(2.2 - 3j, 5.3 + 9j, 8.1 - 3.3j)]
    for rise in (1e-3, 1e-6, 1e-8, 1e-10, 1e-12):
        for turn in (0, 90, 180):
            A_, B_ = 0j, complex(10, rise)
            strokes = [sp.CubicBezier(A_, A_ + (B_ - A_) / 3, A_ + 2 * (B_ - A_) / 3, B_), sp.QuadraticBezier(A_, (A_ + B_) / 2, B_)]
            for st in strokes:
                for ot in others:
                    st_, ot_, ln_ = (st.rotated(turn, origin=5 + 0j), ot.rotated(turn, origin=5 + 0j), sp.Line(A_, B_).rotated(turn, origin=5 + 0j)) if turn else (st, ot, sp.Line(A_, B_))
                    truth = ln_.intersect(ot_)
                    if not truth or any(abs(u_ * 64 - round(u_ * 64)) < 1e-3 or abs(v_ * 64 - round(v_ * 64)) < 1e-3 for u_, v_ in truth) or cm.angle_between(ln_, ot_, truth[0][0], truth[0][1]) < 6.0:
                        continue
                    if any(abs(u1 - u2) < 0.05 for i_, (u1, _) in enumerate(truth) for (u2, _) in truth[i_ + 1:]):
                        continue
                    ck.case(fp=('thin-stroke', rise, turn, type(st).__name__, type(ot).__name__), nontrivial=True)
                    for x_, y_, kn in ((st_, ot_, [(u_, v_, ln_.point(u_)) for u_, v_ in truth]), (ot_, st_, [(v_, u_, ln_.point(u_)) for u_, v_ in truth])):
                        report_case(ck, 'thin stroke rising by %g, turned by %d' % (rise, turn), x_, y_, kn, {'rise': rise, 'turn': turn, 'stroke': type(st).__name__, 'other': repr(ot)})
    # point-symmetric pairs derived from the model's curves: a curve against its own half-turn about M = (B(1/3) + B(2/3))/2 crosses it at the
    # parameter pairs (1/3, 2/3) and (2/3, 1/3) - two well separated crossings with mirrored parameters
    seen_sym = set()
    nsym = 0
    for c in cases:
        pr = c['pr']
        if pr['n1'] < 2 or (tuple(pr['x1']), tuple(pr['y1'])) in seen_sym or nsym >= (12 if quick else 120):
            continue
        seen_sym.add((tuple(pr['x1']), tuple(pr['y1'])))
        a = cm.mk(pr['x1'], [v * (1 if i % 2 else -1) for i, v in enumerate(pr['y1'])])      # alternate the sign of y: an S / zig-zag shape whose tangent turns
        M = (a.point(1 / 3.0) + a.point(2 / 3.0)) / 2
        b = type(a)(*[2 * M - w for w in a.bpoints()])
        if cm.angle_between(a, b, 1 / 3.0, 2 / 3.0) < 10 or abs(a.point(1 / 3.0) - a.point(2 / 3.0)) < 0.5:
            continue
        nsym += 1
        ck.case(fp=('sym', str(pr['x1']), str(pr['y1'])), nontrivial=True)
        report_case(ck, 'point-symmetric pair', a, b, [(1 / 3.0, 2 / 3.0, a.point(1 / 3.0)), (2 / 3.0, 1 / 3.0, a.point(2 / 3.0))], {'x1': pr['x1'], 'y1': pr['y1'], 'sym': True})
    ck.count('point_symmetric_pairs', nsym)
    # exact counts: long horizontal line against a quadratic
    r = ck.tlc('Crossings', 'SPECIFICATION Spec\nCONSTANTS Q = 3\n Fams = {"count"}\nINVARIANT Dump\n', workers=1, coverage=False)
    cases = [c for c in r.cases if c['count'] >= 0]
    rnd.shuffle(cases)
    nax = 0
    for c in cases[:150 if quick else 1500]:
        pr = c['pr']
        a = cm.mk([x / 2.0 for x in pr['x1']], [y / 2.0 for y in pr['y1']])
        b = cm.mk([x / 2.0 for x in pr['x2']], [y / 2.0 for y in pr['y2']])
        ck.case(fp=('count', str(pr)), nontrivial=c['count'] > 0)
        report_case(ck, 'count', a, b, [], {'pr': pr, 'count': c['count']}, exact_count=c['count'])
        report_case(ck, 'count swapped', b, a, [], {'pr': pr, 'count': c['count']}, exact_count=c['count'])
        # the same configuration turned by 90 / 180 / 270 degrees (exact) and with the line running the other way: axis-parallel lines in all four directions
        w = [1j, -1, -1j][nax % 3]
        tw = lambda sg, w=w: type(sg)(*[z * w for z in sg.bpoints()])       # noqa
        for x_, y_, tg in ((tw(a), tw(b), 'count turned by %r' % w), (tw(a), sp.Line(tw(b).end, tw(b).start), 'count turned by %r, line reversed' % w),
                           (sp.Line(b.end, b.start), a, 'count, line reversed, swapped')):
            ck.case(fp=('count', tg, str(pr)), nontrivial=c['count'] > 0)
            report_case(ck, tg, x_, y_, [], {'pr': pr, 'count': c['count'], 'turn': str(w)}, exact_count=c['count'])
        # the same configuration spelled with Beziers only, so that it goes through bezier_intersections: the quadratic degree-elevated to a cubic
        # (exactly vanishing third difference) and the line as a quadratic with equally spaced collinear control points.  All coordinates x 3/2: exact.
        ex = lambda v: [3 * v[0], v[0] + 2 * v[1], 2 * v[1] + v[2], 3 * v[2]]
        a3 = cm.mk([x / 2.0 for x in ex(pr['x1'])], [y / 2.0 for y in ex(pr['y1'])])
        xm = (pr['x2'][0] + pr['x2'][1]) / 2.0
        bq = cm.mk([1.5 * pr['x2'][0], 1.5 * xm, 1.5 * pr['x2'][1]], [1.5 * pr['y2'][0]] * 3)
        # ... turned and stretched by 3+4j (exact) so that the straight one is not axis-parallel; the axis-parallel spelling itself is a recorded finding
        rot = lambda sg: type(sg)(*[w * (3 + 4j) for w in sg.bpoints()])
        for x_, y_, tg in ((rot(a3), rot(bq), 'count as Beziers'), (rot(bq), rot(a3), 'count as Beziers swapped')) + (((a3, bq, 'count as Beziers, axis-parallel'),) if nax < 12 else ()):
            nax += 'axis' in tg
            ck.case(fp=(tg, str(pr)), nontrivial=c['count'] > 0)
            try:
                res = x_.intersect(y_)
            except Exception as e:      # noqa
                res = e
            clusters = []
            if not isinstance(res, Exception):
                for u, v in res:
                    if not any(abs(u - cu) < 1e-4 and abs(v - cv) < 1e-4 for cu, cv in clusters):
                        clusters.append((u, v))
            if isinstance(res, Exception) or len(clusters) != c['count']:
                axp = 'axis-parallel' in tg and not isinstance(res, Exception) and len(clusters) < c['count']
                # a crossing at dyadic parameters of both curves (a corner of the subdivision) is the recorded open finding: the parameters are those the
                # Line spelling of the same pair reports (same parameterisation of both curves)
                dy = False
                if not axp and not isinstance(res, Exception) and len(clusters) < c['count']:
                    isdy = lambda t_: abs(t_ * 4096 - round(t_ * 4096)) < 1e-7      # noqa
                    ref_ = [(float(u_), float(v_)) for u_, v_ in a.intersect(b)]
                    if 'swapped' in tg:
                        ref_ = [(v_, u_) for u_, v_ in ref_]
                    missing = [r_ for r_ in ref_ if not any(abs(r_[0] - cu) < 1e-4 and abs(r_[1] - cv) < 1e-4 for cu, cv in clusters)]
                    dy = bool(missing) and all(isdy(u_) and isdy(v_) for u_, v_ in missing)
                ck.disagree(key='bezier_intersections/' + ('axis-parallel-straight-bezier-crossing-lost' if axp else 'dyadic-crossing-lost' if dy else 'wrong-number-of-crossings'),
                            site='svgpathtools/bezier.py:bezier_intersections',
                            what='[%s] %r x %r: %s distinct crossings reported, exact number %d' % (tg, x_, y_, res if isinstance(res, Exception) else len(clusters), c['count']),
                            case={'pr': pr, 'count': c['count'], 'bez': True}, expected=c['count'], observed=repr(res), driver='completeness')
                break
            if len(res) != len(clusters):
                ck.disagree(key='bezier_intersections/duplicate-crossing', site='svgpathtools/bezier.py:bezier_intersections',
                            what='[%s] %r x %r: %d crossings reported as %d pairs' % (tg, x_, y_, len(clusters), len(res)),
                            case={'pr': pr, 'count': c['count'], 'bez': True}, expected=c['count'], observed=[(float(u), float(v)) for u, v in res], driver='completeness')
                break
    ck.sample('count', cases[0])
    # two crossings that terminate at the same level of the subdivision, in both operand orders (one was dropped unvisited before 650ddc2)
    for zq_, zc_ in (([-36 - 10.5j, 37.5j, 36 + 85.5j], [0j, -18 + 26j, -16 + 37j, 6 + 33j]), ([-24 - 19.5j, 12 + 28.5j, 48 + 76.5j], [12 - 9j, -6 + 17j, -4 + 28j, 18 + 24j])):
        lq_, cc_ = cm.mk([w.real for w in zq_], [w.imag for w in zq_]), cm.mk([w.real for w in zc_], [w.imag for w in zc_])
        ref_ = cc_.intersect(sp.Line(lq_.start, lq_.end))
        for x_, y_, sw_ in ((cc_, lq_, False), (lq_, cc_, True)):
            ck.case(fp=('two-crossings-same-level', str(zq_), sw_), nontrivial=True)
            known_ = [((v_, u_) if sw_ else (u_, v_)) + (cc_.point(u_),) for u_, v_ in ref_]
            report_case(ck, 'straight quadratic x degree-elevated quadratic, two crossings', x_, y_, [(float(a_), float(b_), c_) for a_, b_, c_ in known_],
                        {'zq': [str(w) for w in zq_], 'zc': [str(w) for w in zc_], 'swapped': sw_})
    # the recorded example of the open duplicate finding is replayed on every run (so the KNOWN-FINDING line does not depend on the seed)
    za = [1 + 4j, 1 + 0j, 4 + 4j, -3j]
    zb = [-3 + 1j, 4 - 3j, 6 + 4j, 1 + 4j]
    a, b = cm.mk([w.real for w in za], [w.imag for w in za]), cm.mk([w.real for w in zb], [w.imag for w in zb])
    res = a.intersect(b)
    ck.case(fp=('recorded-duplicate-example',), nontrivial=True)
    if any(abs(p_[0] - q_[0]) < 1e-4 and abs(p_[1] - q_[1]) < 1e-4 for i_, p_ in enumerate(res) for q_ in res[i_ + 1:]):
        ck.disagree(key='bezier_intersections/duplicate-crossing', site='svgpathtools/bezier.py:bezier_intersections',
                    what='%r x %r: one crossing reported several times: %s' % (a, b, res), case={'za': [str(w) for w in za], 'zb': [str(w) for w in zb]},
                    expected=1, observed=[(float(u), float(v)) for u, v in res], driver='generic')
    # generic lattice Bezier pairs: whatever is reported must be reported once (no two pairs within 1e-4 of each other)
    vals = [-3, 0, 1, 4, 6]
    for it in range(50 if quick else 500):
        za = [complex(rnd.choice(vals), rnd.choice(vals)) for _ in range(rnd.choice([3, 4]))]
        zb = [complex(rnd.choice(vals), rnd.choice(vals)) for _ in range(rnd.choice([3, 4]))]
        if len(set(za)) < 3 or len(set(zb)) < 3:
            continue
        a, b = cm.mk([w.real for w in za], [w.imag for w in za]), cm.mk([w.real for w in zb], [w.imag for w in zb])
        ck.case(fp=('generic', tuple(za), tuple(zb)), nontrivial=True)
        try:
            res = a.intersect(b)
        except Exception:      # noqa  (overlapping / degenerate pairs may not terminate cleanly; not this property)
            continue
        dup = [(p, q) for i, p in enumerate(res) for q in res[i + 1:] if abs(p[0] - q[0]) < 1e-4 and abs(p[1] - q[1]) < 1e-4]
        # only transversal crossings are claimed
        if dup and cm.angle_between(a, b, dup[0][0][0], dup[0][0][1]) >= 6.0:
            ck.disagree(key='bezier_intersections/duplicate-crossing', site='svgpathtools/bezier.py:bezier_intersections',
                        what='%r x %r: the crossing near %r is reported %d times' % (a, b, dup[0][0], 1 + sum(1 for d_ in dup if d_[0] == dup[0][0])),
                        case={'za': [str(w) for w in za], 'zb': [str(w) for w in zb]}, expected=1, observed=[(float(u), float(v)) for u, v in res], driver='generic')
    for name, a, b, known in cm.arc_families() + cm.ellipse_families():
        ck.case(fp=('arc', name, repr(a), repr(b)), nontrivial=True)
        report_case(ck, name, a, b, known, {'family': name, 'a': repr(a), 'b': repr(b)}, exact_count=len(known), ptol=1e-4)
        report_case(ck, name + ' swapped', b, a, [(k[1], k[0], k[2]) for k in known], {'family': name}, exact_count=len(known), ptol=1e-4)
        # the same pair a hundred times larger, and moved far from the origin: the parameters of the crossings do not change
        for tag_, f_ in (('x100', lambda sg: sg.scaled(100)), ('moved by 3000-2000j', lambda sg: sg.translated(3000 - 2000j)), ('x0.05', lambda sg: sg.scaled(0.05))):
            a2, b2 = f_(a), f_(b)
            ck.case(fp=('arc', name, tag_), nontrivial=True)
            report_case(ck, name + ' ' + tag_, a2, b2, [(k[0], k[1], a2.point(k[0])) for k in known], {'family': name, 'variant': tag_}, exact_count=len(known), ptol=1e-4)
    for name, p1, p2, exp in cm.path_families():
        ck.case(fp=('path', name), nontrivial=True)
        far = 200000 + 300000j          # the same configuration far from the origin: same crossings
        n_near = len(p1.intersect(p2))
        n_far = len(p1.translated(far).intersect(p2.translated(far)))
        if n_far != n_near:
            ck.disagree(key='Path.intersect/far-from-origin', site='svgpathtools/path.py:Path.intersect', what='%s translated by %r: %d crossings reported, %d near the origin' % (name, far, n_far, n_near),
                        case={'family': name, 'far': True}, expected=n_near, observed=n_far, driver='path')
        # a history: intersect, move an end point through the Path interface so that a *new* crossing appears on the moved segment,
        # intersect again: must agree with a Path freshly built from the same segments
        import copy
        for src, other in ((p1, p2), (p2, p1)):
            q = sp.Path(*[copy.deepcopy(s_) for s_ in src])
            if not isinstance(q[-1], sp.Line):
                continue
            q.intersect(other)
            xmin, xmax, ymin, ymax = other.bbox()
            q.end = complex(2 * xmax - xmin + 3, 2 * ymax - ymin + 5) if abs(q[-1].start - complex(xmin, ymin)) < abs(q[-1].start - complex(xmax, ymax)) else complex(2 * xmin - xmax - 3, 2 * ymin - ymax - 5)
            n_hist = len(q.intersect(other))
            n_fresh = len(sp.Path(*[copy.deepcopy(s_) for s_ in q]).intersect(other))
            ck.case(fp=('path-history', name, src is p1), nontrivial=True)
            if n_hist != n_fresh:
                ck.disagree(key='Path.intersect/after-moving-an-end-point', site='svgpathtools/path.py:Path.intersect', what='%s: intersect; path.end = z; intersect reports %d crossings, a fresh Path of the same segments %d' % (name, n_hist, n_fresh),
                            case={'family': name, 'history': True}, expected=n_fresh, observed=n_hist, driver='path')
        for A, B, sw in ((p1, p2, False), (p2, p1, True)):
            res = A.intersect(B)
            for (i1, i2, pt) in exp:
                ia, ib = (i2, i1) if sw else (i1, i2)
                hits = [r_ for r_ in res if r_[0][1] is A[ia] and r_[1][1] is B[ib]]
                if pt is not None and sum(1 for e_ in exp if e_[0] == i1 and e_[1] == i2) > 1:
                    hits = [r_ for r_ in hits if abs(r_[0][1].point(r_[0][2]) - pt) <= 1e-4 * 12]      # several crossings on one pair of segments: told apart by their points
                if len(hits) != 1 or (pt is not None and not (abs(hits[0][0][1].point(hits[0][0][2]) - pt) <= 1e-6 * max(12, abs(pt)))):
                    ck.disagree(key='Path.intersect/%s' % ('crossing-lost' if not hits else 'crossing-reported-twice' if len(hits) > 1 else 'wrong-point'),
                                site='svgpathtools/path.py:Path.intersect', what='%s: crossing of segment %d with segment %d (at %r) reported %d times' % (name, ia, ib, pt, len(hits)),
                                case={'family': name, 'swapped': sw}, expected=1, observed=len(hits), driver='path')
            if len(res) != len(exp):
                ck.disagree(key='Path.intersect/wrong-number-of-crossings', site='svgpathtools/path.py:Path.intersect', what='%s: %d crossings reported, %d expected' % (name, len(res), len(exp)),
                            case={'family': name, 'swapped': sw}, expected=len(exp), observed=len(res), driver='path')


def replay(rec):
    print(rec['what'])
    print('expected', rec['expected'], 'observed', rec['observed'])
    return 1
