"""C20 - smoothed_path removes kinks without moving the path.

P  Smooth.tla: the joint loop of smoothed_path as a state machine (AlreadySmooth, the three elbow
   constructions, the closing joint rewriting the first item): Continuous, NoKinks, EndpointsKept,
   StaysClosed, SmoothUntouched, SingleUnchanged, EverySegmentKept over every pattern of <= 4
   line / cubic segments x smooth / kink joints x open / closed.
G  every scenario of the model is realised geometrically (corner angles 25..155 degrees, segment
   lengths shorter and much longer than maxjointsize, several maxjointsize / tightness values) and
   pushed through the real smoothed_path: the result must be continuous, free of kinks (incl. the
   closing joint), keep the end points (open) / stay closed, leave smooth joints where they were
   with the same tangent, return a single segment unchanged, and stay within maxjointsize of the
   input.
"""
import cmath
import math
import random

from .. import pathmodel as pm

sp = pm.sp


def ang(u, v):
    """unsigned angle between two directions, degrees"""
    c = (u.real * v.real + u.imag * v.imag) / (abs(u) * abs(v))
    return math.degrees(math.acos(max(-1.0, min(1.0, c))))


def build(kinds, kink, closed, rnd, scale):
    """a concrete path with the given joint pattern, or None if this random draw is degenerate"""
    n = len(kinds)
    # vertices
    if closed:
        R = scale * rnd.choice([1.0, 2.5])
        offs = sorted(rnd.uniform(0, 2 * math.pi) for _ in range(n))
        if any((b - a) < 0.5 for a, b in zip(offs, offs[1:] + [offs[0] + 2 * math.pi])):
            return None
        V = [R * cmath.exp(1j * a) * rnd.uniform(0.8, 1.2) for a in offs]
        V.append(V[0])
        njoints = n
    else:
        V = [0j]
        th = rnd.uniform(0, 2 * math.pi)
        for k in range(n):
            L = scale * rnd.choice([0.05, 0.3, 1.0, 4.0])
            if k > 0:
                th += math.radians(rnd.choice([-1, 1]) * rnd.uniform(30, 150)) if kink[k - 1] else (0 if kinds[k - 1] == 'L' and kinds[k] == 'L' else math.radians(rnd.uniform(-40, 40)))
            V.append(V[-1] + L * cmath.exp(1j * th))
        njoints = n - 1
    chord = [V[k + 1] - V[k] for k in range(n)]
    if any(abs(c) < 1e-6 * scale for c in chord):
        return None
    # tangent directions at the start / end of every segment
    ds = [c / abs(c) for c in chord]
    de = [c / abs(c) for c in chord]
    for k in range(n):
        if kinds[k] == 'C':
            ds[k] = ds[k] * cmath.exp(1j * math.radians(rnd.choice([-1, 1]) * rnd.uniform(10, 35)))
            de[k] = de[k] * cmath.exp(1j * math.radians(rnd.choice([-1, 1]) * rnd.uniform(10, 35)))
    for j in range(1, njoints + 1):
        k0, k1 = j - 1, j % n
        if kink[j - 1]:
            continue
        # smooth joint: common tangent
        if kinds[k0] == 'L' and kinds[k1] == 'L':
            if ang(de[k0], ds[k1]) > 1e-9:
                return None
        elif kinds[k0] == 'L':
            ds[k1] = de[k0]
        elif kinds[k1] == 'L':
            de[k0] = ds[k1]
        else:
            t = de[k0] + ds[k1]
            if abs(t) < 0.5:
                return None
            de[k0] = ds[k1] = t / abs(t)
    segs = []
    for k in range(n):
        a, b = V[k], V[k + 1]
        if kinds[k] == 'L':
            segs.append(sp.Line(a, b))
        else:
            if ang(ds[k], chord[k]) > 75 or ang(de[k], chord[k]) > 75:
                return None
            h = abs(chord[k]) / 3.0
            segs.append(sp.CubicBezier(a, a + h * ds[k], b - h * de[k], b))
    # verify the realised joint pattern
    for j in range(1, njoints + 1):
        k0, k1 = j - 1, j % n
        a_ = ang(de[k0], ds[k1])
        if kink[j - 1] and not (25 <= a_ <= 155):
            return None
        if not kink[j - 1] and a_ > 1e-7:
            return None
    if closed:
        segs[-1] = type(segs[-1])(*(list(segs[-1].bpoints())[:-1] + [segs[0].start]))
    return sp.Path(*segs), V, ds, de


def scenario(ck, c, rnd, mjs, tight, scale):
    kinds, kink, closed = c['kinds'], c['kink'], c['closed']
    n = len(kinds)
    if closed and n == 2 and kinds == ['L', 'L']:
        return                      # two lines forth and back: 180-degree reversals, excluded by the property
    if closed and n >= 3 and any((not kink[j]) and kinds[j] == 'L' and kinds[(j + 1) % n] == 'L' for j in range(n)):
        return                      # a straight joint inside a closed polygon needs collinear vertices; covered by the open scenarios
    built = None
    for attempt in range(60):
        built = build(kinds, kink, closed, rnd, scale)
        if built:
            break
    if not built:
        ck.count('scenarios_not_realised')
        return
    path, V, ds, de = built
    size = max(abs(v) for v in V) + scale
    ck.case(fp=('sc', str(kinds), str(kink), closed, mjs, tight, scale), nontrivial=any(kink))
    site = 'svgpathtools/smoothing.py:smoothed_path/smoothed_joint'

    def bad(key, what, exp=None, obs=None):
        ck.disagree(key='smoothed_path/' + key, site=site, what='%s [kinds=%s kink=%s closed=%s maxjointsize=%r tightness=%r]\ninput %r' % (what, kinds, kink, closed, mjs, tight, path),
                    case={'kinds': kinds, 'kink': kink, 'closed': closed, 'mjs': mjs, 'tight': tight, 'path': repr(path)}, expected=exp, observed=obs, driver='scenario')
        return False
    try:
        sm = sp.smoothed_path(path, maxjointsize=mjs, tightness=tight)
    except Exception as e:      # noqa
        return bad('raises-' + type(e).__name__, 'raised %r' % e, 'a path', repr(e))
    if n == 1:
        if sm != path:
            return bad('single-segment-changed', 'a single segment was not returned unchanged', repr(path), repr(sm))
        return True
    m = len(sm)
    if any(w != w for sg in sm for w in sg.bpoints()):
        return bad('not-a-number', 'the result has NaN control points: %r' % sm)
    for i in range(m - 1):
        if not (abs(sm[i].end - sm[i + 1].start) <= 1e-9 * size):
            return bad('not-continuous', 'pieces %d and %d do not join: %r vs %r' % (i, i + 1, sm[i].end, sm[i + 1].start))
    if closed and not (abs(sm[-1].end - sm[0].start) <= 1e-9 * size):
        return bad('closed-path-opened', 'the result is not closed: %r vs %r' % (sm[-1].end, sm[0].start))
    if not closed and (not (abs(sm[0].start - path[0].start) <= 1e-9 * size) or not (abs(sm[-1].end - path[-1].end) <= 1e-9 * size)):
        return bad('endpoints-moved', 'end points %r / %r' % (sm[0].start, sm[-1].end), [str(path[0].start), str(path[-1].end)], [str(sm[0].start), str(sm[-1].end)])
    joints = list(range(m - 1)) + ([m - 1] if closed else [])
    for i in joints:
        try:
            u, v = sm[i].unit_tangent(1), sm[(i + 1) % m].unit_tangent(0)
        except Exception as e:      # noqa
            return bad('tangent-undefined', 'unit tangent at joint %d of the result raised %r' % (i, e))
        if not (abs(u - v) <= 1e-6):
            where = 'closing-joint' if i == m - 1 else 'joint'
            return bad('kink-left/' + where, 'kink at %s %d of the result: tangents %r / %r' % (where, i, u, v), 'equal tangents', [str(u), str(v)])
    # smooth joints keep their position and tangent
    for j in range(1, (n if closed else n - 1) + 1):
        if kink[j - 1]:
            continue
        q = V[j] if j < len(V) else V[0]
        hit = [i for i in range(m) if abs(sm[i].end - q) <= 1e-9 * size]
        if not hit:
            return bad('smooth-joint-moved', 'the smooth joint at %r is no longer a joint of the result' % q)
        i = hit[0]
        if not (abs(sm[i].unit_tangent(1) - de[j - 1] / abs(de[j - 1])) <= 1e-6):
            return bad('smooth-joint-tangent-changed', 'tangent at the smooth joint %r changed' % q)
    # stays within maxjointsize of the input
    for i in range(m):
        for t in (0.25, 0.5, 0.75):
            pt = sm[i].point(t)
            d = path.radialrange(pt)[0][0]
            if not (d <= mjs + 1e-9 * size):
                return bad('moved-too-far', 'point %r of the result is %r away from the input (maxjointsize %r)' % (pt, d, mjs), mjs, d)
    return True


def generic_check(ck, path, mjs, tight, tag, single=False):
    """the clauses that need no knowledge of how the input was made: continuity, end points / closedness, no kinks, distance bound, single segment unchanged"""
    closed = path[0].start == path[-1].end          # (from the segments themselves, not from what the object remembers about its ends)
    size = max(abs(z) for sg in path for z in sg.bpoints()) + 1
    ext = max(abs(z - path[0].start) for sg in path for z in sg.bpoints()) + 1e-9
    ck.case(fp=('generic', tag, repr(path), mjs, tight), nontrivial=True)

    def bad(key, what, exp=None, obs=None):
        ck.disagree(key='smoothed_path/' + key, site='svgpathtools/smoothing.py:smoothed_path/smoothed_joint', what='%s [%s, maxjointsize=%r tightness=%r]\ninput %r' % (what, tag, mjs, tight, path),
                    case={'tag': tag, 'mjs': mjs, 'tight': tight, 'path': repr(path)}, expected=exp, observed=obs, driver='generic')
        return False
    try:
        sm = sp.smoothed_path(path, maxjointsize=mjs, tightness=tight)
    except Exception as e:      # noqa
        return bad('raises-' + type(e).__name__, 'raised %r' % e, 'a path', repr(e))
    if single:
        if list(sm) != list(path):
            return bad('single-segment-changed', 'a single segment was not returned unchanged: %r' % sm, repr(path), repr(sm))
        return True
    m = len(sm)
    for i in range(m - 1):
        if not (abs(sm[i].end - sm[i + 1].start) <= 1e-9 * size):
            return bad('not-continuous', 'pieces %d and %d do not join: %r vs %r' % (i, i + 1, sm[i].end, sm[i + 1].start))
    if closed and not (abs(sm[-1].end - sm[0].start) <= 1e-9 * size):
        return bad('closed-path-opened', 'the result is not closed: %r vs %r' % (sm[-1].end, sm[0].start))
    if not closed and (not (abs(sm[0].start - path[0].start) <= 1e-9 * size) or not (abs(sm[-1].end - path[-1].end) <= 1e-9 * size)):
        return bad('endpoints-moved', 'end points %r / %r, input %r / %r' % (sm[0].start, sm[-1].end, path[0].start, path[-1].end),
                   [str(path[0].start), str(path[-1].end)], [str(sm[0].start), str(sm[-1].end)])
    for i in list(range(m - 1)) + ([m - 1] if closed else []):
        try:
            u, v = sm[i].unit_tangent(1), sm[(i + 1) % m].unit_tangent(0)
        except Exception as e:      # noqa
            return bad('tangent-undefined', 'unit tangent at joint %d of the result raised %r' % (i, e))
        # (far from the origin the direction of a short piece is only known to (rounding of the coordinates) / (its length))
        bp0, bp1 = sm[i].bpoints(), sm[(i + 1) % m].bpoints()
        h0, h1 = abs(bp0[-1] - bp0[-2]) or abs(bp0[-1] - bp0[0]), abs(bp1[1] - bp1[0]) or abs(bp1[-1] - bp1[0])
        short = max(min(h0, h1), 1e-300)      # the handles that define the two tangents (the chord where a handle has zero length)
        if not (abs(u - v) <= 1e-6 + 64 * math.ulp(size) / short):
            return bad('kink-left/' + ('closing-joint' if i == m - 1 else 'joint'), 'kink at joint %d of the result: tangents %r / %r' % (i, u, v), 'equal tangents', [str(u), str(v)])
    for i in range(m):
        for t in (0.25, 0.5, 0.75):
            d = path.radialrange(sm[i].point(t))[0][0]
            if not (d <= mjs + 1e-9 * size):
                return bad('moved-too-far', 'point %r of the result is %r away from the input' % (sm[i].point(t), d), mjs, d)
    return True


def extra_families(ck, rnd, quick):
    """inputs outside the scenario generator: a single closed cubic; open paths whose ends nearly meet, far from the origin; cubics whose
    handle at a kinked joint has zero length (the tangent there is the direction to the next control point)"""
    combos = [(3, 1.99), (0.7, 1.5), (0.3, 1.0)]
    for O in (0j, 100 + 100j, -2500 + 40j):
        for sc in (1.0, 10.0):
            # teardrop: one cubic returning to its start with a corner there
            for (c1, c2) in ((3 + 4j, -3 + 4j), (5 + 1j, 1 + 5j), (4 - 4j, 6 + 2j)):
                tear = sp.Path(sp.CubicBezier(O, O + sc * c1, O + sc * c2, O))
                generic_check(ck, tear, 3, 1.99, 'single closed cubic', single=True)
            # nearly closed open polygons / mixed paths: corner at the gap, first segment a Line
            for gap in (5e-4, 1e-5, 1e-7):
                for verts in ((0j, 8 + 0j, 8 + 6j, 1 + 7j), (0j, 6 - 3j, 9 + 4j, 2 + 9j, -3 + 4j)):
                    V = [O + sc * v for v in verts]
                    segs = [sp.Line(V[i], V[i + 1]) for i in range(len(V) - 1)]
                    last_end = V[0] + gap * (1 + 0.5j) if abs(O) > 0 else V[0] + gap * 1e-3 * (1 + 0.5j)
                    segs.append(sp.Line(V[-1], last_end) if len(verts) % 2 == 0 else sp.CubicBezier(V[-1], V[-1] + sc * (-2 - 1j), last_end + sc * (-1 + 2j), last_end))
                    for mjs, tight in combos[:2]:
                        generic_check(ck, sp.Path(*segs), mjs, tight, 'open path whose ends nearly meet (gap %g)' % gap)
            # corner angles towards both ends of (0, 180): turns of 0.002 .. 5 degrees and 175 .. 179.99 degrees (a turn below 0.0006 degrees counts as smooth)
            if sc == 1.0:
                for turn in (0.002, 0.01, 0.1, 0.2, 1.0, 5.0, 175.0, 179.0, 179.8, 179.9, 179.99):
                    d1 = cmath.exp(1j * math.radians(turn))
                    p1 = O + 10.0
                    p2 = p1 + 10 * d1
                    for kinds in ('LL', 'LC', 'CL', 'CC'):
                        s0 = sp.Line(O, p1) if kinds[0] == 'L' else sp.CubicBezier(O, O + 3 + 1j, p1 - 3, p1)
                        s1 = sp.Line(p1, p2) if kinds[1] == 'L' else sp.CubicBezier(p1, p1 + 3 * d1, p2 - 3 * d1 + 1j, p2)
                        generic_check(ck, sp.Path(s0, s1), 3, 1.99, 'corner turning by %r degrees (%s)' % (turn, kinds))
            # an S-shaped connector whose two end tangents are parallel (it is not straight) between lines it meets at corners
            for (p0, c1, c2, p1) in ((0j, 50 + 0j, 50 + 100j, 100 + 100j), (0j, 30 + 0j, 10 + 40j, 40 + 40j), (0j, 0 + 20j, 30 - 5j, 30 + 15j)):
                conn = sp.CubicBezier(O + sc * p0, O + sc * c1, O + sc * c2, O + sc * p1)
                d0, d1 = conn.unit_tangent(0), conn.unit_tangent(1)
                pre = sp.Line(conn.start - sc * 30 * d0 * cmath.exp(1j * math.radians(55)), conn.start)
                post = sp.Line(conn.end, conn.end + sc * 30 * d1 * cmath.exp(-1j * math.radians(70)))
                for mjs, tight in combos:
                    generic_check(ck, sp.Path(pre, conn, post), mjs * sc, tight, 'S-shaped connector with parallel end tangents between two corners')
                    generic_check(ck, sp.Path(pre, conn), mjs * sc, tight, 'line -> S-shaped connector')
            # zero-length handle at a kinked joint
            for (a, b, c2, e) in ((0j, 6 + 0j, 7 + 4j, 12 + 5j), (0j, 5 + 2j, 3 + 7j, -2 + 9j), (0j, 4 - 3j, 9 - 1j, 10 + 6j)):
                a, b, c2, e = (O + sc * z for z in (a, b, c2, e))
                for mjs, tight in combos:
                    generic_check(ck, sp.Path(sp.Line(a, b), sp.CubicBezier(b, b, c2, e)), mjs * sc, tight, 'line -> cubic with control1 == start')
                    generic_check(ck, sp.Path(sp.CubicBezier(e, c2, b, b), sp.Line(b, a)), mjs * sc, tight, 'cubic with control2 == end -> line')
                    generic_check(ck, sp.Path(sp.CubicBezier(e, c2, b, b), sp.CubicBezier(b, b, 2 * b - c2 + sc * (3 + 1j), a)), mjs * sc, tight, 'cubic -> cubic, both handles at the joint of zero length')

    # nothing is remembered from one call to the next: a call on a path with a 180-degree reversal (refused, or let through with ignore_unfixable_kinks) is followed
    # by calls on ordinary paths
    back = sp.Path(sp.Line(0j, 5 + 0j), sp.Line(5 + 0j, 2 + 0j), sp.Line(2 + 0j, 2 + 4j))
    for kw in ({'ignore_unfixable_kinks': True},):          # (without the flag the library writes a picture of the offending path into the temporary directory and raises)
        try:
            sp.smoothed_path(back, maxjointsize=1, tightness=1.99, **kw)
        except Exception:      # noqa  (the reversal itself is outside the property)
            pass
        generic_check(ck, sp.Path(sp.Line(0j, 6 + 0j), sp.Line(6 + 0j, 6 + 5j), sp.Line(6 + 5j, 1 + 7j)), 1.0, 1.99, 'ordinary polyline after a call on a path with a reversal (%s)' % (kw or 'refused'))
    # coordinates of numpy types (what rotated / scaled / translated return), also with a zero-length handle at the kinked joint
    import numpy as np
    for tag_, pth in (('line -> cubic with control1 == start', sp.Path(sp.Line(0j, 6 + 0j), sp.CubicBezier(6 + 0j, 6 + 0j, 7 + 4j, 12 + 5j))),
                      ('cubic with control2 == end -> line', sp.Path(sp.CubicBezier(12 + 5j, 7 + 4j, 6 + 0j, 6 + 0j), sp.Line(6 + 0j, 0j))),
                      ('polyline', sp.Path(sp.Line(0j, 6 + 0j), sp.Line(6 + 0j, 6 + 5j), sp.Line(6 + 5j, 1 + 7j)))):
        for how, f in (('rotated(30)', lambda q: q.rotated(30, origin=0j)), ('scaled(2)', lambda q: q.scaled(2)), ('translated', lambda q: q.translated(np.complex128(3 + 1j))),
                       ('rebuilt from numpy scalars', lambda q: sp.Path(*[type(s_)(*[np.complex128(w) for w in s_.bpoints()]) for s_ in q]))):
            generic_check(ck, f(pth), 1.0, 1.99, '%s, %s (numpy-typed coordinates)' % (tag_, how))
    # the same corners in other units and elsewhere (maxjointsize scaled along): large drawings (1e6), small ones (1e-4), map-like coordinates (offsets of 5e6)
    for sc, O in ((1e6, 0j), (1e-4, 0j), (1.0, 5e6 + 4e6j), (1.0, -3e7 + 1e6j), (1e3, 2e6 - 1e6j)):
        f = lambda z: O + sc * z      # noqa
        shapes = [('polyline with unit steps', [sp.Line(f(0j), f(2 + 0j)), sp.Line(f(2 + 0j), f(2 + 3j)), sp.Line(f(2 + 3j), f(5 + 4j)), sp.Line(f(5 + 4j), f(6 + 1j))], 0.5),
                  ('cubic -> cubic corner', [sp.CubicBezier(f(0j), f(3 + 1j), f(6 + 1j), f(9 + 0j)), sp.CubicBezier(f(9 + 0j), f(10 + 4j), f(8 + 7j), f(9 + 10j))], 2.0),
                  ('line -> cubic -> line', [sp.Line(f(0j), f(8 + 0j)), sp.CubicBezier(f(8 + 0j), f(9 + 4j), f(5 + 6j), f(4 + 9j)), sp.Line(f(4 + 9j), f(-3 + 9j))], 1.5),
                  ('closed triangle', [sp.Line(f(0j), f(10 + 0j)), sp.Line(f(10 + 0j), f(4 + 8j)), sp.Line(f(4 + 8j), f(0j))], 1.0)]
        for nm_, segs_, mjs_ in shapes:
            for tight in (1.99, 1.0):
                generic_check(ck, sp.Path(*segs_), mjs_ * sc, tight, '%s at scale %g, offset %r' % (nm_, sc, O))
    # paths made by editing in place (negative indices, pop, the end setter) after they were queried: what counts is what the path is now
    def poly(pts):
        return sp.Path(*[sp.Line(a_, b_) for a_, b_ in zip(pts, pts[1:])])
    A_, B_, C_, D_ = 1 + 1j, 11 + 1j, 12 + 9j, 3 + 8j
    for how in ('path[-1] = closing line', 'pop the closing line', 'end = start', 'insert at -1', 'del path[-1]'):
        if how == 'path[-1] = closing line':
            pth = poly([A_, B_, C_, D_, 6 + 5j])
            pth.length(), pth.isclosed(), pth.point(0.5)
            pth[-1] = sp.Line(D_, A_)
        elif how == 'pop the closing line':
            pth = poly([A_, B_, C_, D_, A_])
            pth.length(), pth.isclosed(), pth.point(0.5)
            pth.pop()
        elif how == 'end = start':
            pth = poly([A_, B_, C_, D_, 6 + 5j])
            pth.length(), pth.isclosed()
            pth.end = A_
        elif how == 'insert at -1':
            pth = poly([A_, B_, C_, A_])
            pth.length(), pth.isclosed()
            pth[-1] = sp.Line(D_, A_)
            pth.insert(-1, sp.Line(C_, D_))
        else:
            pth = poly([A_, B_, C_, D_, A_, 5 + 5j])
            pth.length(), pth.isclosed()
            del pth[-1]
        for tight in (1.99, 1.2):
            generic_check(ck, pth, 1.0, tight, 'polygon after "%s"' % how)


def run(ck):
    rnd = random.Random(ck.seed)
    quick = ck.tier == 'quick'
    ck.rules.append('case = (scenario of Smooth.tla: kinds x joint pattern x closed, maxjointsize, tightness, coordinate scale) realised with seeded geometry; '
                    'non-trivial = at least one kink')
    ck.assumptions += ['corner angles in [25, 155] degrees; 180-degree reversals are excluded by the property and not generated',
                       'the distance bound is sampled at three interior points per output segment']
    ck.tlc('Smooth', 'Smooth_MC.cfg', need_actions=['AlreadySmooth', 'FixLL', 'FixLC', 'FixCL', 'FixCC'])
    r = ck.tlc('Smooth', 'SPECIFICATION Spec\nCONSTANTS MaxN = %d\nINVARIANT Dump\n' % 4, workers=1, coverage=False)
    cases = r.cases
    rnd.shuffle(cases)
    combos = [(3, 1.99, 10.0), (3, 0.5, 1.0), (0.7, 1.5, 10.0), (10, 1.99, 3.0), (0.2, 1.99, 10.0), (0.3, 1.0, 25.0)]
    for i, c in enumerate(cases):
        for (mjs, tight, scale) in (combos + combos if not quick else [combos[i % 6], combos[(i + 1) % 6], combos[(i + 4) % 6]]):
            scenario(ck, c, rnd, mjs, tight, scale)
    ck.sample('scenario', cases[0])
    extra_families(ck, rnd, quick)


def replay(rec):
    print(rec['what'])
    print('expected', rec['expected'], 'observed', rec['observed'])
    return 1
