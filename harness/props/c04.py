"""C04 - Arc realises the SVG endpoint parameterisation (F.6.5) for all parameters.

P  ArcLattice.tla: F65Unique (the flags select exactly one of the four arcs through the end points),
   LargeIffOver180, CurInSweep / MonotoneDir / EndsAtEnd along the walk, ReverseOK, CropOK,
   MirrorFlipsSweep, SmallOK (minimal enlargement factor).
G  every lattice arc is turned into constructor arguments; the real Arc's centre, radii, theta,
   delta, the points at every 15-degree step of the walk, membership of the stored ellipse,
   monotone eccentric angle, derivative(t, n) for n = 1..6, end points of the cubic / quadratic
   approximations, negative-signed radii, and the too-small-radius family are compared with the model.
"""
import math
import random

from .. import arcmodel as am

sp = am.sp


def check_fit(ck, c, rnd, full):
    A = c['arc']
    fa, fs = bool(c['flags'][0]), bool(c['flags'][1])
    n = abs(A['dl'])
    size = max(A['r']) + abs(complex(*A['c'])) + 1
    ck.case(fp=('fit', tuple(A['r']), A['phi'], A['th'], A['dl'], tuple(A['c'])), nontrivial=True)
    site = 'svgpathtools/path.py:Arc'

    def bad(key, what, exp, obs):
        ck.disagree(key='Arc/' + key, site=site, what='%s for lattice arc %s' % (what, A), case={'arc': A, 'what': key},
                    expected=repr(exp), observed=repr(obs), driver='fit')
        return False
    try:
        arc = am.concretise(A, neg_radius=(A['th'] + A['dl']) % 5 == 0)
    except Exception as e:      # noqa
        return bad('constructor-raises', 'constructor raised %r' % e, 'an Arc', repr(e))
    cen = complex(*A['c'])
    if not (abs(arc.center - cen) <= 1e-7 * size):
        return bad('center', 'centre %r' % arc.center, cen, arc.center)
    if not (abs(arc.radius.real - A['r'][0]) <= 1e-9 * A['r'][0]) or not (abs(arc.radius.imag - A['r'][1]) <= 1e-9 * A['r'][1]):
        return bad('radius-changed', 'radius %r (fits: must be unchanged)' % arc.radius, A['r'], arc.radius)
    if not (abs(am.angle_diff(arc.theta, 15.0 * A['th'])) <= 1e-5):
        return bad('theta', 'theta %r' % arc.theta, 15.0 * A['th'], arc.theta)
    if not (abs(arc.delta - 15.0 * A['dl']) <= 1e-5):
        return bad('delta', 'delta %r' % arc.delta, 15.0 * A['dl'], arc.delta)
    if (not (abs(arc.delta) <= 180 + 1e-5)) != fa and n != 12:
        return bad('large_arc', 'spans %r degrees with large_arc=%s' % (arc.delta, fa), fa, arc.delta)
    if not (arc.delta == arc.delta) or (arc.delta > 0) != fs:
        return bad('sweep-direction', 'delta %r with sweep=%s' % (arc.delta, fs), fs, arc.delta)
    # the walk: every 15-degree step
    sg = 1 if A['dl'] > 0 else -1
    k = math.radians(15.0 * A['dl'])
    prev = None
    total = 0.0
    for j in range(n + 1):
        t = j / float(n)
        pt = arc.point(t)
        exp = am.lat_point(A, A['th'] + sg * j)
        if not (abs(pt - exp) <= 1e-6 * size):
            return bad('point', 'point(%d/%d) = %r' % (j, n, pt), exp, pt)
        if not (abs(am.on_ellipse_residual(arc, pt)) <= 1e-7):
            return bad('point-off-ellipse', 'point(%d/%d) off the stored ellipse by %g' % (j, n, am.on_ellipse_residual(arc, pt)), 0, pt)
        ang = am.ecc_angle(arc, pt)
        if prev is not None:
            step = am.angle_diff(ang, prev)
            if not (abs(step - sg * 15.0) <= 1e-4):
                return bad('eccentric-angle-not-monotone', 'eccentric angle step %r at j=%d' % (step, j), sg * 15.0, step)
            total += step
        prev = ang
        if full or j in (0, n, n // 2):
            for order in range(1, 7):
                got = arc.derivative(t, order)
                expd = (k ** order) * am.lat_point(A, A['th'] + sg * j + 6 * order, centred=True)
                if not (abs(got - expd) <= 1e-6 * (abs(k) ** order) * size):
                    return bad('derivative-order-%d' % order, 'derivative(%r, n=%d) = %r' % (t, order, got), expd, got)
    # acos near +-1 loses half the digits (theta = 0 or 180): end points are reproduced to ~1e-7 relative, not to rounding
    if not (abs(arc.point(0) - arc.start) <= 1e-6 * size) or not (abs(arc.point(1) - arc.end) <= 1e-6 * size):
        return bad('endpoints', 'point(0)/point(1) = %r/%r' % (arc.point(0), arc.point(1)), (arc.start, arc.end), (arc.point(0), arc.point(1)))
    if full:
        # beyond the listed clauses: phase2t / point_to_t invert point() on the lattice (point_to_t is documented for unrotated arcs only)
        for j in sorted(set(x for x in (1, n // 2, n - 1) if 0 < x < n)):      # interior steps: at the exact start angle rounding may wrap phase2t around (outside the listed clauses)
            alpha = A['th'] + sg * j
            try:
                tj = arc.phase2t(math.radians(15.0 * alpha))
            except Exception as e:      # noqa
                return bad('phase2t-raises', 'phase2t raised %r' % e, j / float(n), repr(e))
            if not (abs(tj - j / float(n)) <= 1e-6):
                return bad('phase2t', 'phase2t(angle of step %d) = %r' % (j, tj), j / float(n), tj)
            if A['phi'] % 24 == 0:
                try:
                    tp = arc.point_to_t(am.lat_point(A, alpha))
                except Exception as e:      # noqa
                    return bad('point_to_t-raises', 'point_to_t raised %r' % e, j / float(n), repr(e))
                if tp is None or not (abs(tp - j / float(n)) <= 1e-5):
                    return bad('point_to_t', 'point_to_t(point at step %d) = %r' % (j, tp), j / float(n), tp)
        if A['phi'] % 24 == 0 and n <= 20:
            off = am.lat_point(A, A['th'] + sg * (n + 2))         # a point of the ellipse beyond the end of the arc
            if arc.point_to_t(off) is not None:
                return bad('point_to_t-off-arc', 'point_to_t of a point beyond the sweep = %r' % arc.point_to_t(off), None, arc.point_to_t(off))
        for m in (1, 3):
            for name in ('as_cubic_curves', 'as_quad_curves'):
                try:
                    curves = list(getattr(arc, name)(m))
                except Exception as e:      # noqa
                    return bad(name + '-raises', '%s(%d) raised %r' % (name, m, e), 'curves', repr(e))
                if not curves or not (abs(curves[0].start - arc.start) <= 1e-9 * size) or not (abs(curves[-1].end - arc.end) <= 1e-9 * size) \
                        or any(not (abs(a.end - b.start) <= 1e-9 * size) for a, b in zip(curves, curves[1:])):
                    return bad(name + '-endpoints', '%s(%d) does not start/end at the arc end points' % (name, m),
                               (arc.start, arc.end), (curves[0].start, curves[-1].end) if curves else None)
    return True


def check_small(ck, c):
    A, S = c['arc'], c['small']
    ck.case(fp=('small', str(A)), nontrivial=True)
    h = float(A['h'])
    rt = am.rot(A['phi'])
    cen = complex(*A['c'])
    if A['ax'] == 'x':
        start, end = cen + rt * complex(-h, 0), cen + rt * complex(h, 0)
    else:
        start, end = cen + rt * complex(0, -h), cen + rt * complex(0, h)
    exp = complex(S['num'][0] / float(S['den']), S['num'][1] / float(S['den']))
    given = complex(*A['r'])
    if A.get('near'):
        given = exp * (1 - (1e-6 if A['near'] == 1 else 2e-8))     # nearly fitting radii: same shape, too small by a hair
    try:
        arc = sp.Arc(start, given, 15.0 * A['phi'], bool(A['fa']), bool(A['fs']), end)
    except Exception as e:      # noqa
        ck.disagree(key='Arc/small-radius-raises', site='svgpathtools/path.py:Arc._parameterize', what='too-small radii %s raised %r' % (A, e),
                    case={'arc': A}, expected='enlarged radii', observed=repr(e), driver='small')
        return
    ok = abs(arc.radius.real - exp.real) <= 1e-11 * exp.real and abs(arc.radius.imag - exp.imag) <= 1e-11 * exp.imag
    ok = ok and abs(arc.center - cen) <= 1e-7 * (h + abs(cen)) and abs(abs(arc.delta) - 180) < 1e-5 and (arc.delta > 0) == bool(A['fs'])
    ok = ok and abs(arc.point(0) - start) < 1e-7 * (h + abs(cen) + 1) and abs(arc.point(1) - end) < 1e-7 * (h + abs(cen) + 1)
    if not ok:
        ck.disagree(key='Arc/small-radius-enlargement', site='svgpathtools/path.py:Arc._parameterize',
                    what='radii %s too small for half chord %s: got radius %r centre %r delta %r; minimal enlargement gives %r' % (
                        A['r'], A['h'], arc.radius, arc.center, arc.delta, exp), case={'arc': A}, expected=repr(exp), observed=repr(arc.radius), driver='small')
    # autoscale off must refuse
    try:
        sp.Arc(start, given, 15.0 * A['phi'], bool(A['fa']), bool(A['fs']), end, autoscale_radius=False)
        ck.disagree(key='Arc/small-radius-no-autoscale-accepted', site='svgpathtools/path.py:Arc._parameterize',
                    what='autoscale_radius=False accepted radii that fit no ellipse: %s' % A, case={'arc': A}, expected='ValueError', observed='Arc', driver='small')
    except ValueError:
        pass


def ref_center(start, radius, rotation, large_arc, sweep, end):
    """SVG 1.1 F.6.5 (end point -> centre), written out independently; returns (centre, rx, ry)"""
    phi = math.radians(rotation)
    rx, ry = abs(radius.real), abs(radius.imag)
    dx, dy = (start.real - end.real) / 2.0, (start.imag - end.imag) / 2.0
    x1 = math.cos(phi) * dx + math.sin(phi) * dy
    y1 = -math.sin(phi) * dx + math.cos(phi) * dy
    lam = x1 * x1 / (rx * rx) + y1 * y1 / (ry * ry)
    if lam > 1:
        rx, ry = rx * math.sqrt(lam), ry * math.sqrt(lam)
    den = rx * rx * y1 * y1 + ry * ry * x1 * x1
    co = math.sqrt(max(0.0, (rx * rx * ry * ry - den) / den)) * (-1 if large_arc == sweep else 1)
    cxp, cyp = co * rx * y1 / ry, -co * ry * x1 / rx
    return complex(math.cos(phi) * cxp - math.sin(phi) * cyp + (start.real + end.real) / 2.0,
                   math.sin(phi) * cxp + math.cos(phi) * cyp + (start.imag + end.imag) / 2.0), rx, ry


def construction_sequences(ck):
    """Arcs are built one after the other in one process; inputs that differ only where CPython's hash cannot tell them apart
    (hash(-1) == hash(-2), also for floats and complex numbers) must still be parameterised each from its own inputs."""
    base = dict(start=3 + 1j, radius=9 + 5j, rotation=20.0, large_arc=False, sweep=True, end=-4 + 6j)
    variants = [('rotation', -1.0, -2.0), ('rotation', -1, -2), ('start', -1 + 0j, -2 + 0j), ('start', 2 - 1j, 2 - 2j), ('end', -1 + 6j, -2 + 6j),
                ('end', -4 - 1j, -4 - 2j), ('radius', 9 - 1j, 9 - 2j), ('radius', -1 + 50j, -2 + 50j)]
    for field, v1, v2 in variants:
        for order in ((v1, v2, v1), (v2, v1)):
            for la, sw in ((False, True), (True, False)):
                for v in order:
                    kw = dict(base, large_arc=la, sweep=sw)
                    kw[field] = v
                    ck.case(fp=('seq', field, str(order), la, sw, str(v)), nontrivial=True)
                    args = (kw['start'], kw['radius'], kw['rotation'], kw['large_arc'], kw['sweep'], kw['end'])
                    cen, rx, ry = ref_center(*args)
                    try:
                        arc = sp.Arc(*args)
                        obs = (arc.center, arc.radius, arc.point(0), arc.point(1), am.on_ellipse_residual(arc, arc.point(0.37)))
                    except Exception as e:      # noqa
                        obs = e
                    size = 60.0
                    if isinstance(obs, Exception) or not (abs(obs[0] - cen) <= 1e-7 * size) or not (abs(obs[1] - complex(rx, ry)) <= 1e-9 * size) \
                            or not (abs(obs[2] - kw['start']) <= 1e-7 * size) or not (abs(obs[3] - kw['end']) <= 1e-7 * size) or not (abs(obs[4]) <= 1e-7):
                        ck.disagree(key='Arc/parameterisation-depends-on-earlier-arcs', site='svgpathtools/path.py:Arc._parameterize',
                                    what='Arc%r built after arcs differing only in %s (%r / %r): centre, radius, point(0), point(1), residual = %r; F.6.5 gives centre %r radii (%r, %r)'
                                         % (args, field, v1, v2, obs, cen, rx, ry), case={'field': field, 'order': [str(x) for x in order], 'args': [str(x) for x in args]},
                                    expected=[str(cen), rx, ry], observed=repr(obs), driver='sequence')
                        return


PLACEMENTS = [(1e-4, 0j), (1e-7, 0j), (1e5, 0j), (1.0, -1e6 + 2e6j), (100.0, 3e6 - 1e6j), (0.01, 2000 + 1000j)]


def similar_copies(ck, arc, A):
    """the same arc drawn in other units and elsewhere: centre, angles, points, derivatives and the Bezier approximations are those of the base arc, mapped
    (an arc has no preferred unit of length and no preferred origin)"""
    size = abs(arc.radius.real) + abs(arc.radius.imag) + abs(arc.end - arc.start)
    for k, off in PLACEMENTS:
        ck.case(fp=('placed', str(A), k, str(off)), nontrivial=True)
        tol = 1e-6 * size * k + 4e-10 * abs(off)
        try:
            cp = sp.Arc(off + k * arc.start, k * arc.radius, arc.rotation, arc.large_arc, arc.sweep, off + k * arc.end)
            bad = None
            if not (abs(cp.center - (off + k * arc.center)) <= tol):
                bad = ('center', off + k * arc.center, cp.center)
            elif not (abs(cp.delta - arc.delta) <= 1e-4 + 1e-3 * abs(off) / (k * size) * 1e-6) or not (abs(am.angle_diff(cp.theta, arc.theta)) <= 1e-4 + 1e-3 * abs(off) / (k * size) * 1e-6):
                bad = ('theta/delta', (arc.theta, arc.delta), (cp.theta, cp.delta))
            elif not (abs(cp.radius - k * arc.radius) <= 1e-9 * k * size + 1e-12 * abs(off)):
                bad = ('radius', k * arc.radius, cp.radius)
            else:
                for t in (0.0, 0.3, 0.5, 1.0):
                    if not (abs(cp.point(t) - (off + k * arc.point(t))) <= tol):
                        bad = ('point(%r)' % t, off + k * arc.point(t), cp.point(t))
                        break
                    if not (abs(cp.derivative(t) - k * arc.derivative(t)) <= 1e-5 * size * k + 1e-8 * abs(off)):
                        bad = ('derivative(%r)' % t, k * arc.derivative(t), cp.derivative(t))
                        break
            if bad is None:
                for m in (1, 2, 3, 5, 8):
                    for name in ('as_cubic_curves', 'as_quad_curves'):
                        curves = list(getattr(cp, name)(m))
                        if len(curves) != m or not (abs(curves[0].start - cp.start) <= 1e-9 * k * size + 4e-16 * abs(off)) or not (abs(curves[-1].end - cp.end) <= 1e-9 * k * size + 4e-16 * abs(off)) \
                                or any(not (abs(a_.end - b_.start) <= 1e-9 * k * size + 4e-16 * abs(off)) for a_, b_ in zip(curves, curves[1:])):
                            bad = ('%s(%d)' % (name, m), (m, cp.start, cp.end), (len(curves), curves[0].start if curves else None, curves[-1].end if curves else None))
                            break
                    if bad:
                        break
        except Exception as e:      # noqa
            bad = ('raises', 'an Arc', repr(e))
        if bad:
            ck.disagree(key='Arc/similar-copy/' + bad[0].split('(')[0], site='svgpathtools/path.py:Arc', what='lattice arc %s drawn at scale %g, offset %r: %s = %r, the base arc mapped gives %r' % (A, k, off, bad[0], bad[2], bad[1]),
                        case={'arc': A, 'scale': k, 'off': str(off)}, expected=repr(bad[1]), observed=repr(bad[2]), driver='placement')
            return


def nearly_closed_large_arcs(ck):
    """large_arc = 1 with the end a hair away from the start: (almost) the whole ellipse, in the direction of sweep"""
    for r, rot in ((2 + 1j, 20), (5 + 5j, 0), (1 + 3j, -40)):
        for gap in (1e-9, 5e-9, 2e-8, 1e-6, 1e-3):
            for sw in (True, False):
                for dirn in (1 + 0j, 0.6 - 0.8j):
                    s0 = 3 + 4j
                    ck.case(fp=('nearly-closed', str(r), rot, gap, sw, str(dirn)), nontrivial=True)
                    try:
                        a = sp.Arc(s0, r, rot, True, sw, s0 + gap * dirn)
                        far = abs(a.point(0.5) - s0)
                        ok = abs(a.delta) > 180 and (a.delta > 0) == sw and far >= min(r.real, r.imag) and abs(a.point(0) - s0) <= 1e-6 and abs(a.point(1) - a.end) <= 1e-6
                        got = (a.delta, a.point(0.5))
                    except Exception as e:      # noqa
                        ok, got = False, repr(e)
                    if not ok:
                        ck.disagree(key='Arc/nearly-closed-large-arc', site='svgpathtools/path.py:Arc._parameterize', what='Arc(%r, %r, %r, large_arc=True, sweep=%s, start + %g): delta, point(.5) = %r' % (s0, r, rot, sw, gap, got),
                                    case={'r': str(r), 'rot': rot, 'gap': gap, 'sweep': sw}, expected='|delta| > 180 in the direction of sweep, the far side of the ellipse at t = 1/2', observed=repr(got), driver='placement')


def arcs_replaced_inside_paths(ck):
    """Path.approximate_arcs_with_cubics / _quads: every arc of the path is replaced by curves that start and end at *that arc's* end points, also when the path
    jumps right before or after the arc (several sub-paths)"""
    a1 = sp.Arc(4 + 0j, 3 + 2j, 20, False, True, 8 + 3j)
    a2 = sp.Arc(20 + 5j, 2 + 2j, 0, True, False, 21 + 8j)
    layouts = [('continuous', [sp.Line(0j, 4 + 0j), a1, sp.Line(8 + 3j, 9 + 9j)]), ('jump before the arc', [sp.Line(0j, 3 + 1j), a1, sp.Line(8 + 3j, 9 + 9j)]),
               ('jump after the arc', [sp.Line(0j, 4 + 0j), a1, sp.Line(10 + 3j, 9 + 9j)]), ('arc first, then a jump', [a1, sp.Line(12 + 0j, 13 + 1j)]),
               ('two arcs in separate sub-paths', [sp.Line(0j, 4 + 0j), a1, a2, sp.Line(21 + 8j, 25 + 8j)]), ('arc alone', [a1])]
    import copy
    for opname in ('approximate_arcs_with_cubics', 'approximate_arcs_with_quads'):
        for tag_, segs in layouts:
            pth = sp.Path(*[copy.deepcopy(s_) for s_ in segs])
            if not hasattr(pth, opname):
                continue
            ck.case(fp=('arcs-in-path', opname, tag_), nontrivial=True)
            try:
                getattr(pth, opname)()
                ends = [(s_.start, s_.end) for s_ in segs]
                # walk: the non-arc members are kept; every arc becomes a chain from its start to its end
                i_ = 0
                ok = not any(isinstance(s_, sp.Arc) for s_ in pth)
                for s0 in segs:
                    if not isinstance(s0, sp.Arc):
                        ok = ok and i_ < len(pth) and pth[i_].start == s0.start and pth[i_].end == s0.end
                        i_ += 1
                    else:
                        ok = ok and i_ < len(pth) and abs(pth[i_].start - s0.start) <= 1e-9
                        while ok and i_ < len(pth) and abs(pth[i_].end - s0.end) > 1e-9:
                            ok = ok and i_ + 1 < len(pth) and abs(pth[i_].end - pth[i_ + 1].start) <= 1e-9
                            i_ += 1
                        i_ += 1
                ok = ok and i_ == len(pth)
            except Exception as e:      # noqa
                ok, pth = False, e
            if not ok:
                ck.disagree(key='Path.%s/does-not-start-and-end-at-the-arcs-end-points' % opname, site='svgpathtools/path.py:Path.' + opname, what='%s: %r' % (tag_, pth), case={'op': opname, 'layout': tag_},
                            expected='chains from each arc\'s start to its end', observed=repr(pth), driver='placement')


def run(ck):
    rnd = random.Random(ck.seed)
    quick = ck.tier == 'quick'
    nearly_closed_large_arcs(ck)
    arcs_replaced_inside_paths(ck)
    ck.rules.append('case = one lattice arc [radii, rotation, start angle, sweep, centre] (angles in units of 15 degrees, rotations incl. -90 and '
                    '390) walked in 15-degree steps; distinct by the abstract arc; all non-trivial; plus the too-small-radius family')
    ck.assumptions += ['theta/delta compared to 1e-5 degrees (acos near +-1 loses half the digits); centre 1e-7, points 1e-6 relative',
                       'angles off the 15-degree lattice and radii outside the listed families go through the same code paths but are not decided']
    mc = open(am.__file__.rsplit('/', 2)[0] + '/spec/ArcLattice_MC.cfg').read()
    if quick:
        mc = mc.replace('DlsAll', 'DlsSome')
    ck.tlc('ArcLattice', mc, need_actions=['Advance'], timeout=3000)
    ck.tlc('ArcLattice', mc.replace('DlsAll', 'DlsSome').replace('PhisA', 'PhisB').replace('CHECK_DEADLOCK', 'INVARIANT CropOK\nCHECK_DEADLOCK'), timeout=3000)
    st = {'n': 0}

    def on_case(c):
        st['n'] += 1
        if c['arc']['kind'] == 'fit':
            ok_ = check_fit(ck, c, rnd, full=(st['n'] % (4 if quick else 2) == 0))
            if ok_ and st['n'] % (40 if quick else 8) == 0:
                similar_copies(ck, am.concretise(c['arc'], neg_radius=False), c['arc'])
            ck.sample('fit', c)
        else:
            check_small(ck, c)
            ck.sample('small', c)
    d = ('SPECIFICATION Spec\nCONSTANTS Radii <- %s\n Phis <- %s\n Ths <- ThsAll\n Dls <- %s\n Centers <- %s\n SmallH <- SmallB\n SmallR <- SmallRA\n'
         'CONSTRAINT AtStart\nINVARIANT Dump\n')
    ck.tlc('ArcLattice', d % (('RadiiA', 'PhisA', 'DlsSome', 'CentersB') if quick else ('RadiiB', 'PhisA', 'DlsAll', 'CentersA')),
           workers=1, coverage=False, on_case=on_case, timeout=6000)
    ck.count('arcs', st['n'])
    construction_sequences(ck)


def replay(rec):
    A = rec['case']['arc']
    print(rec['what'])
    print('expected', rec['expected'], 'observed', rec['observed'])
    if A.get('kind') == 'fit':
        arc = am.concretise(A)
        print('now:', arc, 'center', arc.center, 'theta', arc.theta, 'delta', arc.delta)
    return 1
