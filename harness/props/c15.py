"""C15 - unit_tangent, normal and curvature are the differential geometry of the curve.

P  BezierTan.tla: TaylorAt0 / TaylorAt1 (with coincident leading / trailing control points the first
   non-vanishing derivative at the end is a positive multiple, in the direction of travel, of the
   first non-vanishing control difference); Bezier.tla derivative identities; ArcLattice walk.
G  every BezierTan curve (degrees 2-3, 0-2 coincident control points at either end, 12 headings):
   unit_tangent(0/1) = the model's direction (sign included), modulus 1, normal = -i tangent,
   unit_tangent / curvature at t = 1/2 from the exact derivatives; lines; lattice arcs (1/r on
   circles, closed form on ellipses, tangent along the sweep); covariance under translation,
   rotation by lattice angles, scaling (curvature / |s|) and reversal.
"""
import cmath
import math
import random

from .. import arcmodel as am
from .. import pathmodel as pm

sp = pm.sp


def make(z):
    z = pm.typed(z)
    return {2: sp.Line, 3: sp.QuadraticBezier, 4: sp.CubicBezier}[len(z)](*z)


def unit(v):
    z = complex(v[0], v[1])
    return z / abs(z)


def bez_case(ck, c, M=None, tag='plain'):
    """M: optional (name, point map, tangent map, curvature factor) similarity"""
    P = c['P']
    z = [complex(p[0], p[1]) for p in P]
    fpt, ftan, fk = (lambda w: w), (lambda w: w), 1.0
    api = None
    if M is not None:
        tag, fpt, ftan, fk = M[:4]
        api = M[4] if len(M) > 4 else None
    if api is not None:
        seg = api(make(z))              # through the library's own rotated / scaled / translated (numpy-valued control points)
        z = list(seg.bpoints())
    else:
        z = [fpt(w) for w in z]
        seg = make(z)
    n = len(P) - 1
    name = type(seg).__name__
    ck.case(fp=('bez', str(P), tag), nontrivial=c['k0'] > 1 or c['k1'] > 1)
    site = 'svgpathtools/path.py:bezier_unit_tangent/segment_curvature'

    def bad(fn, what, exp, obs):
        vanish = (fn.endswith('(0)') and c['k0'] > 1) or (fn.endswith('(1)') and c['k1'] > 1)
        ck.disagree(key='%s.%s%s' % (name, fn.split('(')[0], '/vanishing-derivative' if vanish else ''), site=site,
                    what='%s [%s]: %s (control points %s)' % (fn, tag, what, z), case={'P': P, 'tag': tag, 'fn': fn}, expected=repr(exp), observed=repr(obs), driver='bezier')
        return False
    try:
        for t, key in ((0, 'tan0'), (1, 'tan1')):
            if tag.startswith('api.scaled') and (c['k0'] if t == 0 else c['k1']) > 1:
                continue        # scale() goes through the power basis: coincident control points come back an ulp apart, the end derivative is rounding noise
            exp = ftan(unit(c[key]))
            got = seg.unit_tangent(t)
            if not (abs(abs(got) - 1) <= 1e-9) or not (abs(got - exp) <= 1e-6):
                return bad('unit_tangent(%d)' % t, 'got %r, direction of travel %r' % (got, exp), exp, got)
            nr = seg.normal(t)
            if not (abs(nr - (-1j) * got) <= 1e-9):
                return bad('normal(%d)' % t, 'normal %r is not -i * unit_tangent %r' % (nr, got), -1j * got, nr)
        d1 = complex(*c['d1half']) / 2.0 ** (n - 1)
        d2 = complex(*c['d2half']) / 2.0 ** max(n - 2, 0)
        if not (abs(d1) <= 0):
            exp = ftan(d1 / abs(d1))
            got = seg.unit_tangent(0.5)
            if not (abs(got - exp) <= 1e-9):
                return bad('unit_tangent(0.5)', 'got %r, derivative direction %r' % (got, exp), exp, got)
            kexp = abs(d1.real * d2.imag - d1.imag * d2.real) / abs(d1) ** 3 * fk
            kgot = seg.curvature(0.5)
            if not (abs(kgot - kexp) <= 1e-9 * max(1, kexp, fk)):
                return bad('curvature(0.5)', 'got %r, exact %r' % (kgot, kexp), kexp, kgot)
        # reversal
        rv = seg.reversed()
        for t in (0, 0.5, 1):
            if t == 0.5 and abs(d1) == 0:
                continue
            if tag.startswith('api.scaled') and t != 0.5:
                continue
            a, b = rv.unit_tangent(1 - t), seg.unit_tangent(t)
            if not (abs(a + b) <= 1e-6):
                return bad('reversed.unit_tangent(%r)' % (1 - t), 'reversed tangent %r is not the opposite of %r' % (a, b), -b, a)
        if not (abs(d1) <= 0) and not (abs(rv.curvature(0.5) - seg.curvature(0.5)) <= 1e-9 * max(1, seg.curvature(0.5), fk)):
            return bad('reversed.curvature(0.5)', 'curvature changes under reversal', seg.curvature(0.5), rv.curvature(0.5))
    except Exception as e:      # noqa
        return bad('raises-' + type(e).__name__, 'raised %r' % e, 'value', repr(e))
    return True


def similarities():
    out = [('translated', lambda w: w + (3 - 7j), lambda u: u, 1.0),
           ('api.translated', None, lambda u: u, 1.0, lambda sg: sg.translated(3 - 7j))]
    for deg in (90, 180, 270, 30, -45):
        r = cmath.exp(1j * math.radians(deg))
        out.append(('rotated(%d)' % deg, (lambda w, r=r: r * w), (lambda u, r=r: r * u), 1.0))
        out.append(('api.rotated(%d)' % deg, None, (lambda u, r=r: r * u), 1.0, (lambda sg, deg=deg: sg.rotated(deg, origin=1 + 2j))))
    for s in (2.0, 0.5, -3.0, 1e-10, 1e7):
        out.append(('scaled(%g)' % s, (lambda w, s=s: s * w), (lambda u, s=s: u * (1 if s > 0 else -1)), 1 / abs(s)))
        out.append(('api.scaled(%g)' % s, None, (lambda u, s=s: u * (1 if s > 0 else -1)), 1 / abs(s), (lambda sg, s=s: sg.scaled(s))))
    return out


def arc_case(ck, c):
    A = c['arc']
    arc = am.concretise(A)
    n = abs(A['dl'])
    sg = 1 if A['dl'] > 0 else -1
    rx, ry = A['r']
    ck.case(fp=('arc', tuple(A['r']), A['phi'], A['th'], A['dl']), nontrivial=True)
    for j in (0, n // 2, n):
        t = j / float(n)
        ang = A['th'] + sg * j
        d = sg * am.lat_point(A, ang + 6, centred=True)       # derivative direction: radius vector advanced by 90 degrees, along the sweep
        exp = d / abs(d)
        a = math.radians(15.0 * ang)
        kexp = rx * ry / (rx * rx * math.sin(a) ** 2 + ry * ry * math.cos(a) ** 2) ** 1.5
        try:
            got = arc.unit_tangent(t)
            kgot = arc.curvature(t)
            nr = arc.normal(t)
        except Exception as e:      # noqa
            ck.disagree(key='Arc.tangent/raises-' + type(e).__name__, site='svgpathtools/path.py:Arc', what='lattice arc %s raised %r' % (A, e), case={'arc': A},
                        expected='value', observed=repr(e), driver='arc')
            return
        if not (abs(got - exp) <= 1e-6) or not (abs(nr + 1j * got) <= 1e-9):
            ck.disagree(key='Arc.unit_tangent', site='svgpathtools/path.py:Arc.unit_tangent', what='lattice arc %s: unit_tangent(%r) = %r, along the sweep %r' % (A, t, got, exp),
                        case={'arc': A, 't': t}, expected=repr(exp), observed=repr(got), driver='arc')
            return
        if not (abs(kgot - kexp) <= 1e-6 * kexp):
            ck.disagree(key='Arc.curvature' + ('/circle' if rx == ry else ''), site='svgpathtools/path.py:segment_curvature', what='lattice arc %s: curvature(%r) = %r, exact %r' % (A, t, kgot, kexp),
                        case={'arc': A, 't': t}, expected=kexp, observed=kgot, driver='arc')
            return


def small_arc_case(ck, c):
    """radii too small for the chord: the arc is the half ellipse with the minimally enlarged radii of ArcLattice.tla - curvature from *those* radii"""
    A, S = c['arc'], c['small']
    if A.get('near'):
        return
    h = float(A['h'])
    rt = am.rot(A['phi'])
    cen = complex(*A['c'])
    start, end = (cen + rt * complex(-h, 0), cen + rt * complex(h, 0)) if A['ax'] == 'x' else (cen + rt * complex(0, -h), cen + rt * complex(0, h))
    rx, ry = S['num'][0] / float(S['den']), S['num'][1] / float(S['den'])
    ck.case(fp=('small-arc', str(A)), nontrivial=True)
    k_ends, k_mid = (rx / ry ** 2, ry / rx ** 2) if A['ax'] == 'x' else (ry / rx ** 2, rx / ry ** 2)
    try:
        arc = sp.Arc(start, complex(*A['r']), 15.0 * A['phi'], bool(A['fa']), bool(A['fs']), end)
        got = [arc.curvature(0), arc.curvature(0.5), arc.curvature(1)]
        sc = arc.scaled(3.0).curvature(0.5) if rx == ry else None
    except Exception as e:      # noqa
        ck.disagree(key='Arc.curvature/small-radii/raises-' + type(e).__name__, site='svgpathtools/path.py:Arc.curvature', what='arc with too-small radii %s raised %r' % (A, e),
                    case={'arc': A}, expected='value', observed=repr(e), driver='arc')
        return
    exp = [k_ends, k_mid, k_ends]
    if any(not (abs(g - e_) <= 1e-6 * e_) for g, e_ in zip(got, exp)) or (sc is not None and not (abs(sc - k_mid / 3.0) <= 1e-6 * k_mid)):
        ck.disagree(key='Arc.curvature/radii-enlarged-to-fit' + ('/circle' if rx == ry else ''), site='svgpathtools/path.py:Arc.curvature',
                    what='arc with given radii %s enlarged to (%r, %r): curvature at 0, 1/2, 1 = %r, exact %r; scaled by 3: %r' % (A['r'], rx, ry, got, exp, sc),
                    case={'arc': A}, expected=exp, observed=got, driver='arc')


def extra_cases(ck):
    site = 'svgpathtools/path.py'
    # (a) arcs under similarities applied through the API: the tangent turns with the map (a negative uniform factor is a half turn), the curvature divides by |s|
    for A in ({'r': [5, 5], 'phi': 0, 'th': 2, 'dl': 7, 'c': [3, -2]}, {'r': [5, 3], 'phi': 2, 'th': -5, 'dl': -17, 'c': [0, 0]}, {'r': [2, 7], 'phi': 3, 'th': 9, 'dl': 13, 'c': [1, 1]}):
        arc = am.concretise(A)
        for name, f, tmap, kf in (('scaled(-1)', lambda a: a.scaled(-1), lambda u: -u, 1.0), ('scaled(-2.5)', lambda a: a.scaled(-2.5), lambda u: -u, 1 / 2.5),
                                  ('scaled(3)', lambda a: a.scaled(3), lambda u: u, 1 / 3.0), ('rotated(90)', lambda a: a.rotated(90), lambda u: 1j * u, 1.0),
                                  ('rotated(-30, origin=1+2j)', lambda a: a.rotated(-30, origin=1 + 2j), lambda u: cmath.exp(-1j * math.pi / 6) * u, 1.0),
                                  ('translated(4-7j)', lambda a: a.translated(4 - 7j), lambda u: u, 1.0), ('reversed', lambda a: a.reversed(), lambda u: -u, 1.0)):
            ck.case(fp=('arc-similarity', str(A), name), nontrivial=True)
            try:
                img = f(arc)
                for t in (0.0, 0.3, 0.5, 1.0):
                    ti = 1 - t if name == 'reversed' else t
                    u, v = tmap(arc.unit_tangent(t)), img.unit_tangent(ti)
                    k0, k1 = arc.curvature(t) * kf, img.curvature(ti)
                    nr = img.normal(ti)
                    if not (abs(u - v) <= 1e-6) or not (abs(k0 - k1) <= 1e-6 * k0) or not (abs(nr + 1j * v) <= 1e-9):
                        ck.disagree(key='Arc.tangent-or-curvature/under-%s' % name.split('(')[0], site=site + ':scale/rotate/translate/reversed (Arc)',
                                    what='lattice arc %s %s at t=%r: tangent %r (expected %r), curvature %r (expected %r), normal %r' % (A, name, t, v, u, k1, k0, nr),
                                    case={'arc': A, 'op': name, 't': t}, expected=[str(u), k0], observed=[str(v), k1], driver='arc-similarity')
                        raise StopIteration
            except StopIteration:
                pass
            except Exception as e:      # noqa
                ck.disagree(key='Arc.tangent/raises-' + type(e).__name__, site=site, what='lattice arc %s %s raised %r' % (A, name, e), case={'arc': A, 'op': name},
                            expected='values', observed=repr(e), driver='arc-similarity')
    # (b) a Line queried, then an end point reassigned (directly / through Path.start, Path.end) - also to values that hash like the old ones - and queried again
    for a0, b0, a1, b1 in ((0j, -1 + 0j, 0j, -2 + 0j), (0j, 3 - 1j, 0j, 3 - 2j), (-1 + 5j, 4j, -2 + 5j, 4j), (1j, 5 + 0j, complex(1000003, 0), 5 + 0j), (0j, 3 + 4j, 0j, -4 + 3j)):
        for how in ('attributes', 'path setters'):
            ln = sp.Line(a0, b0)
            pth = sp.Path(ln)
            ln.unit_tangent(0.5), ln.normal(0.5), pth.unit_tangent(0.5)
            if how == 'attributes':
                ln.start, ln.end = a1, b1
            else:
                pth.start, pth.end = a1, b1
            ck.case(fp=('line-history', str((a0, b0, a1, b1)), how), nontrivial=True)
            exp = (b1 - a1) / abs(b1 - a1)
            got = (ln.unit_tangent(0.5), ln.normal(0.5), pth.unit_tangent(0.3), pth.normal(0.3))
            if not (abs(got[0] - exp) <= 1e-12) or not (abs(got[1] + 1j * exp) <= 1e-12) or not (abs(got[2] - exp) <= 1e-12) or not (abs(got[3] + 1j * exp) <= 1e-12):
                ck.disagree(key='Line.tangent/after-reassigning-an-end-point', site=site + ':Line.unit_tangent/normal',
                            what='Line(%r, %r) queried, end points set to %r, %r via %s: tangent / normal %r, expected tangent %r' % (a0, b0, a1, b1, how, got, exp),
                            case={'line': [str(x) for x in (a0, b0, a1, b1)], 'how': how}, expected=str(exp), observed=[str(x) for x in got], driver='line-history')
    # (c) curves that return to their own start (the chord vanishes, the curve does not): curvature from the exact derivatives
    for z in ([0j, 4 + 1j, 1 + 4j, 0j], [0j, 150 + 120j, 150 - 120j, 0j], [2 + 2j, 6 + 2j, 2 + 6j, 2 + 2j]):
        seg = sp.CubicBezier(*z) if len(z) == 4 else sp.QuadraticBezier(*z)
        for mapname, g, kf in (('as given', lambda s_: s_, 1.0), ('translated', lambda s_: s_.translated(7 - 3j), 1.0), ('rotated', lambda s_: s_.rotated(30), 1.0),
                               ('scaled(2)', lambda s_: s_.scaled(2), 0.5), ('reversed', lambda s_: s_.reversed(), 1.0)):
            img = g(seg)
            for t in (0.25, 0.5, 0.8):
                d1, d2 = seg.derivative(t, 1), seg.derivative(t, 2)
                kexp = abs(d1.real * d2.imag - d1.imag * d2.real) / abs(d1) ** 3 * kf
                ck.case(fp=('loop-curvature', str(z), mapname, t), nontrivial=True)
                try:
                    kgot = img.curvature(1 - t if mapname == 'reversed' else t)
                except Exception as e:      # noqa
                    kgot = e
                if isinstance(kgot, Exception) or not (abs(kgot - kexp) <= 1e-9 * max(kexp, 1e-6)) or (kexp > 1e-6 and kgot == 0):
                    ck.disagree(key='%s.curvature/segment-returning-to-its-start' % type(seg).__name__, site=site + ':segment_curvature',
                                what='%r %s: curvature(%r) = %r, |x\'y\'\'-y\'x\'\'|/|z\'|^3 = %r' % (seg, mapname, t, kgot, kexp), case={'z': [str(w) for w in z], 'map': mapname, 't': t},
                                expected=kexp, observed=repr(kgot), driver='loop')
                    break

    # (d) an interior parameter where the derivative vanishes without changing direction (B' = c (t - t0)^2): the tangent is that direction, on both sides and at t0
    for z, t0 in (([0j, 8 + 4j, 0j, 8 + 4j], 0.5), ([1 + 1j, 3 - 1j, 2 + 0j, 3 - 1j], None)):
        seg = sp.CubicBezier(*z)
        if t0 is None:
            continue
        dirn = (seg.point(t0 + 0.1) - seg.point(t0 - 0.1))
        dirn /= abs(dirn)
        for mapname, g, tm in (('as given', lambda s_: s_, lambda u: u), ('translated', lambda s_: s_.translated(3 - 2j), lambda u: u), ('rotated(90)', lambda s_: s_.rotated(90, origin=0j), lambda u: 1j * u),
                               ('scaled(-1)', lambda s_: s_.scaled(-1), lambda u: -u), ('reversed', lambda s_: s_.reversed(), lambda u: -u)):
            img = g(seg)
            for t in (t0, t0 - 0.01, t0 + 0.01):
                ck.case(fp=('interior-stationary', str(z), mapname, t), nontrivial=True)
                try:
                    got = img.unit_tangent(1 - t if mapname == 'reversed' else t)
                    nrm = img.normal(1 - t if mapname == 'reversed' else t)
                except Exception as e:      # noqa
                    got, nrm = e, None
                if isinstance(got, Exception) or not (abs(got - tm(dirn)) <= 1e-6) or not (abs(nrm + 1j * got) <= 1e-9):
                    ck.disagree(key='CubicBezier.unit_tangent/interior-stationary-point', site=site + ':bezier_unit_tangent', what='%r %s: unit_tangent(%r) = %r, the curve runs along %r there' % (seg, mapname, t, got, tm(dirn)),
                                case={'z': [str(w) for w in z], 'map': mapname, 't': t}, expected=str(tm(dirn)), observed=repr(got), driver='stationary')
                    break
    # (e) a path whose joint is open by a rounding error, a member ending in a repeated control point: transforming the *path* keeps the end tangent of that member
    for gap in (1e-13, 3e-14, 0.0):
        a_ = sp.CubicBezier(0j, 2 + 3j, 5 + 1j, 5 + 1j)            # control2 == end: the end tangent is the direction control1 -> end
        b_ = sp.Line(5 + 1j + gap, 9 + 0j)
        q_ = sp.QuadraticBezier(-3 + 0j, 0j, 0j + gap * 1j)        # control == end (up to the gap)
        pth = sp.Path(sp.Line(-6 - 2j, -3 + 0j), sp.QuadraticBezier(-3 + 0j, 0j, 0j), a_, b_)
        for mapname, g, tm in (('translated', lambda s_: s_.translated(0.1 + 0.7j), lambda u: u), ('rotated(30)', lambda s_: s_.rotated(30, origin=1 + 1j), lambda u: cmath.exp(1j * math.pi / 6) * u),
                               ('rotated(-90)', lambda s_: s_.rotated(-90, origin=0j), lambda u: -1j * u)):
            # (scaled() goes through the power basis and returns coincident control points an ulp apart: end tangents of such results are rounding noise, 9.4)
            ck.case(fp=('hairline-joint-tangent', gap, mapname), nontrivial=True)
            try:
                img = g(pth)
                got = [img[2].unit_tangent(1), img[1].unit_tangent(1), img[2].unit_tangent(0)]
                exp = [tm(pth[2].unit_tangent(1)), tm(pth[1].unit_tangent(1)), tm(pth[2].unit_tangent(0))]
                ok = all(abs(g_ - e_) <= 1e-6 for g_, e_ in zip(got, exp))
            except Exception as e:      # noqa
                ok, got, exp = False, repr(e), None
            if not ok:
                ck.disagree(key='Path-transform/end-tangent-of-a-member-with-a-repeated-control-point', site=site + ':transform_segments_together', what='joint open by %g, path %s: end tangents %r, expected %r' % (gap, mapname, got, exp),
                            case={'gap': gap, 'map': mapname}, expected=repr(exp), observed=repr(got), driver='stationary')


def run(ck):
    rnd = random.Random(ck.seed)
    extra_cases(ck)
    quick = ck.tier == 'quick'
    ck.rules.append('Bezier case = (BezierTan.tla curve, similarity applied); arc case = lattice arc at start / middle / end; non-trivial = a '
                    'derivative vanishes at an end (coincident control points)')
    ck.assumptions += ['interior cusps (derivative vanishing inside (0,1)) are not generated: the limit there is two-sided ambiguous',
                       'curvature at an end where the derivative vanishes is not compared']
    ck.tlc('BezierTan', 'BezierTan_MC.cfg')
    r = ck.tlc('BezierTan', 'SPECIFICATION Spec\nCONSTANTS Dirs <- DirsA\n Others <- OthersA\nINVARIANT Dump\n', workers=1, coverage=False)
    sims = similarities()
    seen = set()
    for c in r.cases:
        if str(c['P']) in seen:
            continue
        seen.add(str(c['P']))
        bez_case(ck, c)
        for M in (sims if not quick else rnd.sample(sims, 6)):
            bez_case(ck, c, M)
    ck.sample('bezier', r.cases[len(r.cases) // 2])
    # lines
    for a, b in ((0j, 3 + 4j), (1 + 1j, 1 - 5j), (-2 + 0j, -7 + 0j)):
        ln = sp.Line(a, b)
        ck.case(fp=('line', a, b), nontrivial=True)
        if not (abs(ln.unit_tangent(0.3) - (b - a) / abs(b - a)) <= 1e-12) or ln.curvature(0.3) != 0 or not (abs(ln.normal(0.3) + 1j * ln.unit_tangent(0.3)) <= 1e-12):
            ck.disagree(key='Line.tangent', site='svgpathtools/path.py:Line', what='line %r tangent/normal/curvature' % ln, case={'a': str(a), 'b': str(b)},
                        expected='direction, 0', observed=[str(ln.unit_tangent(0.3)), ln.curvature(0.3)], driver='line')
    st = {'n': 0}

    def on_arc(c):
        if c['arc']['kind'] == 'fit':
            st['n'] += 1
            if st['n'] % (5 if quick else 1) == 0:
                arc_case(ck, c)
        else:
            small_arc_case(ck, c)
    ck.tlc('ArcLattice', open(pm.__file__.rsplit('/', 2)[0] + '/spec/ArcLattice_MC.cfg').read().replace('DlsAll', 'DlsSome'), need_actions=['Advance'], timeout=3000)
    d = ('SPECIFICATION Spec\nCONSTANTS Radii <- RadiiA\n Phis <- PhisA\n Ths <- ThsAll\n Dls <- DlsSome\n Centers <- CentersB\n SmallH <- SmallA\n SmallR <- SmallRA\n'
         'CONSTRAINT AtStart\nINVARIANT Dump\n')
    ck.tlc('ArcLattice', d, workers=1, coverage=False, on_case=on_arc, timeout=3000)
    ck.sample('arc', {'r': [5, 3], 'phi': 3, 'th': 2, 'dl': -17})


def replay(rec):
    print(rec['what'])
    print('expected', rec['expected'], 'observed', rec['observed'])
    return 1
