"""C02 - parse_path implements the SVG path-data semantics for every command sequence.

P  PathData.tla / PathLex.tla: machine invariants + spelling-equivalence theorems (TLC).
G  every terminal behaviour of PathData (program + expected segments) rendered under several
   lexical spellings and parsed by the real parse_path; every string accepted by PathLex fed to
   the real parser (numbers as H arguments, flags inside an arc argument list).
V  random long programs and the d-strings of /repo/test parsed prefix by prefix by the real
   code; one event per argument group validated by PathData_Trace.tla.
"""
import glob
import os
import random
import re
from fractions import Fraction

from .. import pathmodel as pm
from .. import tracecheck
from ..core import REPO

sp = pm.sp
STYLES = ['spaces', 'minimal', 'numforms', 'mixed']


def has_st_after_z(groups):
    for a, b in zip(groups, groups[1:]):
        if a['c'] in 'Zz' and b['c'] in 'SsTt':
            return True
    return False


def classify(groups, exc, compact):
    if isinstance(exc, TypeError) and has_st_after_z(groups):
        return 'parse_path/S-or-T-directly-after-Z'
    if compact and exc is not None:
        return 'tokenize/compact-arc-flags'
    return 'parse_path/' + (type(exc).__name__ if exc is not None else 'wrong-segments')


def check_program(ck, groups, exp_segs, d, compact=False, driver='program'):
    try:
        got = list(sp.parse_path(d))
        exc = None
    except Exception as e:      # noqa
        got, exc = None, e
    if exc is None and got == exp_segs:
        return True
    key = classify(groups, exc, compact) if not (compact and exc is None) else 'tokenize/compact-arc-flags'
    ck.disagree(key=key, site='svgpathtools/path.py:_parse_path/_tokenize_path',
                what='parse_path(%r) %s' % (d[:200], 'raised %r' % exc if exc is not None else 'returned other segments'),
                case={'d': d, 'groups': groups, 'compact': compact},
                expected=[repr(s) for s in exp_segs], observed=repr(exc) if exc is not None else [repr(s) for s in got],
                driver=driver)
    return False


def replay_case(ck, case, rnd):
    groups, segs = case['groups'], case['segs']
    exp = [pm.mkseg(s) for s in segs]
    letters = ''.join(g['c'] for g in groups if g['first'])
    nontriv = len(segs) > 0
    has_arc = any(g['c'] in 'Aa' for g in groups)
    has_impl = any(not g['first'] for g in groups)
    d0 = pm.render(groups, rnd, 'plain')
    ck.case(fp=d0, nontrivial=nontriv)
    ck.sample('program/' + str(len(letters)), {'d': d0, 'segments': segs})
    check_program(ck, groups, exp, d0)
    st = rnd.choice(STYLES)
    check_program(ck, groups, exp, pm.render(groups, rnd, st), driver='program/' + st)
    ck.count('spelling_' + st)
    if has_impl:
        check_program(ck, groups, exp, pm.render(groups, rnd, 'plain', explicit=True), driver='program/explicit')
        ck.count('spelling_explicit_letters')
    if has_arc:
        st2 = rnd.choice(['spaces', 'minimal', 'mixed'])
        d = pm.render(groups, rnd, st2, compact_flags=True)
        check_program(ck, groups, exp, d, compact=True, driver='program/compact-flags')
        ck.count('spelling_compact_flags')
        ck.sample('compact-flags', {'d': d})


def tokval(t):
    return Fraction(t[0]) * Fraction(10) ** t[1]


def lexer_conformance(ck, maxlen_nums, maxlen_flags):
    """Every string accepted by the lexer DFA -> the real parser must read the same numbers."""
    r = ck.tlc('PathLex', 'SPECIFICATION Spec\nCONSTANTS MaxLen = %d\n Mode = "nums"\nINVARIANT Dump\n' % maxlen_nums,
               workers=1, coverage=False)
    for c in r.cases:
        s = ''.join(c['s'])
        vals = [float(tokval(t)) for t in c['toks']]
        ck.case(fp='lex:' + s, nontrivial=len(vals) > 1 or any(ch in s for ch in '.eE+-'))
        d = 'M0 0H' + s
        try:
            p = sp.parse_path(d)
            got = [seg.end.real for seg in p]
            ok = got == vals and all(isinstance(seg, sp.Line) and seg.end.imag == 0 for seg in p)
        except Exception as e:      # noqa
            got, ok = repr(e), False
        if not ok:
            ck.disagree(key='tokenize/number-lexing', site='svgpathtools/path.py:FLOAT_RE/_tokenize_path',
                        what='numbers of %r read as %r, grammar says %r' % (d, got, vals),
                        case={'d': d, 'lex': c}, expected=vals, observed=got, driver='lexer')
    ck.count('lexer_number_strings', len(r.cases))
    ck.sample('lexer', {'s': ''.join(r.cases[len(r.cases) // 2]['s']), 'toks': r.cases[len(r.cases) // 2]['toks']})
    r = ck.tlc('PathLex', 'SPECIFICATION Spec\nCONSTANTS MaxLen = %d\n Mode = "flags"\nINVARIANT Dump\n' % maxlen_flags,
               workers=1, coverage=False)
    for c in r.cases:
        s = ''.join(c['s'])
        fa, fs = c['toks'][0][0], c['toks'][1][0]
        ck.case(fp='flags:' + s, nontrivial=True)
        d = 'M0 0A5 5 0' + s + '7,1'
        exp = [sp.Arc(0j, 5 + 5j, 0, bool(fa), bool(fs), 7 + 1j)]
        compact = re.search(r'[01][01]', s) is not None or s[-1] in '01'
        try:
            got = list(sp.parse_path(d))
            ok = got == exp
            exc = None
        except Exception as e:      # noqa
            got, ok, exc = None, False, e
        if not ok:
            key = 'tokenize/compact-arc-flags' if compact else 'tokenize/arc-flags-separated'
            ck.disagree(key=key, site='svgpathtools/path.py:_tokenize_path',
                        what='arc flags in %r: %s' % (d, 'raised %r' % exc if exc else 'wrong arc'),
                        case={'d': d, 'lex': c}, expected=[repr(x) for x in exp],
                        observed=repr(exc) if exc else [repr(x) for x in got], driver='lexer-flags')
    ck.count('lexer_flag_strings', len(r.cases))
    ck.sample('lexer-flags', {'s': ''.join(r.cases[-1]['s']), 'toks': r.cases[-1]['toks']})


# ------------------------------------------------------------------ V: traces of the real parser
NPTS = {'M': 1, 'L': 1, 'C': 3, 'S': 2, 'Q': 2, 'T': 1}


def random_groups(rnd, ncmd):
    letters = [rnd.choice('Mm')] + [rnd.choice('MmLlHhVvCcSsQqTtAaZz') for _ in range(ncmd)]
    out = []
    for c in letters:
        u = c.upper()
        for g in range(1 if u == 'Z' else rnd.choice([1, 1, 1, 2, 3])):
            first = g == 0
            eu = pm.EFF(c, first)
            if u == 'Z':
                a = []
            elif eu in 'HV':
                a = [rnd.randint(-9, 9)]
            elif eu == 'A':
                a = [rnd.choice([[2, 3], [5, 5], [0, 1], [4, 0], [30, 30], [1, 40]]), rnd.choice([0, 30, -45, 400]),
                     rnd.randint(0, 1), rnd.randint(0, 1), [rnd.randint(-9, 9), rnd.randint(-9, 9)]]
            else:
                a = [[rnd.randint(-9, 9), rnd.randint(-9, 9)] for _ in range(NPTS[eu])]
            out.append({'c': c, 'first': first, 'a': a})
    return out


def record(groups, rnd, style, scale=1, texts=None):
    """Parse every prefix with the real parser; event i = group i + the segments it added.
    Returns None if a prefix hits a degenerate arc (start == end; outside the property)."""
    events, prev = [], []
    for i in range(1, len(groups) + 1):
        d = texts[i - 1] if texts else pm.render(groups[:i], random.Random(rnd), style)
        g = groups[i - 1]
        try:
            segs = list(sp.parse_path(d))
        except AssertionError:
            return None
        except Exception as e:      # noqa
            events.append({'c': g['c'], 'first': g['first'], 'a': g['a'], 'segs': [['ERROR']], 'err': type(e).__name__, 'd': d})
            return events
        new = segs[len(prev):]
        if segs[:len(prev)] != prev:
            new = [['PREFIX-CHANGED']]
        ps = []
        for s in new:
            if isinstance(s, list):
                ps.append(['ERROR'])
                continue
            rad = g['a'][0] if pm.EFF(g['c'], g['first']) == 'A' else None
            q = pm.proj_seg(s, scale, radius=rad, rotkey=pm.rotkey)
            ps.append(q if pm.wellformed_seg(q) else ['ERROR'])
        a = g['a']
        if pm.EFF(g['c'], g['first']) == 'A' and not texts:
            a = [a[0], pm.rotkey(a[1]), a[2], a[3], a[4]]
        events.append({'c': g['c'], 'first': g['first'], 'a': a, 'segs': ps, 'd': d})
        prev = segs
    return events


def test_suite_dstrings():
    found = set()
    for f in sorted(glob.glob(os.path.join(REPO, 'test', '*.py')) + glob.glob(os.path.join(REPO, 'test', '*.svg'))
                    + glob.glob(os.path.join(REPO, '*.svg'))):
        try:
            txt = open(f, errors='replace').read()
        except OSError:
            continue
        for m in re.finditer(r'''(?:["'])\s*([Mm][^"'<>]*?)(?:["'])''', txt):
            s = m.group(1)
            if len(s) < 4000 and re.match(r'^[MmZzLlHhVvCcSsQqTtAa0-9eE+\-., \t\r\n]+$', s):
                found.add(s)
    return sorted(found)


def prefix_texts(d, groups):
    """Texts of the prefixes of d that end after each argument group (by re-lexing prefixes)."""
    cuts = []
    # a cut after position j is valid for group i iff ref_parse_d(d[:j]) has exactly i groups and
    # d[:j] does not end inside a number; scan positions once.
    want = 1
    for j in range(1, len(d) + 1):
        if j < len(d) and (d[j] in '0123456789.eE' or (d[j] in '+-' and d[j - 1] in 'eE')):
            continue
        g = pm.ref_parse_d(d[:j])
        if g is not None and len(g) == want:
            cuts.append(d[:j])
            want += 1
            if want > len(groups):
                break
    return cuts if len(cuts) == len(groups) else None


def trace_validation(ck, rnd, ntraces, maxcmds):
    traces, meta = [], []
    while len(traces) < ntraces:
        groups = random_groups(rnd, rnd.randint(1, maxcmds))
        ev = record(groups, rnd.randint(0, 10 ** 9), rnd.choice(['plain', 'mixed', 'minimal']))
        if ev is None:
            continue
        traces.append(ev)
        meta.append(('random', groups))
    nrand = len(traces)
    nsuite = 0
    for d in test_suite_dstrings():
        g = pm.ref_parse_d(d)
        if not g:
            continue
        sg = pm.scale_groups(g)
        if sg is None:
            continue
        ig, scale = sg
        texts = prefix_texts(d, g)
        if texts is None:
            continue
        ev = record(ig, 0, None, scale=scale, texts=texts)
        if ev is None:
            continue
        traces.append(ev)
        meta.append(('test-suite', ig))
        nsuite += 1
    ck.count('traces_random', nrand)
    ck.count('traces_from_repo_tests', nsuite)
    clean = [[{k: v for k, v in e.items() if k not in ('d', 'err')} for e in t] for t in traces]
    acc, reach = tracecheck.validate(ck, 'PathData_Trace', 'PathData_Trace.cfg', 'PathData_TraceAt.cfg', clean)
    ck.trace_ok(len(acc))
    ck.count('trace_events', sum(len(t) for t in traces))
    ck.sample('trace', {'events': clean[0][:4]})
    for i, t in enumerate(traces):
        ck.case(fp='trace:%d:%s' % (i, t[-1]['d']), nontrivial=len(t) > 2)
        if i in acc:
            continue
        at = reach.get(i, 0)
        ev = t[min(at, len(t) - 1)]
        groups = meta[i][1]
        exc = None
        if ev.get('err'):
            exc = {'TypeError': TypeError(), 'IndexError': IndexError(), 'ValueError': ValueError()}.get(ev['err'], Exception(ev['err']))
        key = classify(groups[:at + 1], exc, False)
        ck.disagree(key=key, site='svgpathtools/path.py:_parse_path',
                    what='trace of the real parser rejected by PathData_Trace at event %d (%s): %r' % (at + 1, meta[i][0], ev['d'][-120:]),
                    case={'d': ev['d'], 'groups': groups[:at + 1], 'event': {k: v for k, v in ev.items() if k != 'd'}},
                    expected='segments prescribed by PathSem.Group', observed=ev['segs'], driver='trace')


def radius_extremes(ck):
    """an arc becomes a line exactly when a radius is zero - however it is spelled - and not when it is merely tiny (too-small radii are scaled up)"""
    for rtxt, zero in (('0', True), ('0.0', True), ('-0', True), ('0e5', True), ('.0', True), ('1e-9', False), ('.000000001', False), ('1e-12', False), ('-1e-9', False),
                       ('1E-300', False), ('5e-324', False)):
        for which in ('rx', 'ry', 'both'):
            rx, ry = (rtxt if which in ('rx', 'both') else '3'), (rtxt if which in ('ry', 'both') else '3')
            for d, (st, en) in (('M1 2A%s %s 0 0 1 11 2' % (rx, ry), (1 + 2j, 11 + 2j)), ('M1 2a%s,%s 30 1,0 10,0L0 0' % (rx, ry), (1 + 2j, 11 + 2j))):
                ck.case(fp=('radius-extreme', d), nontrivial=True)
                try:
                    p = sp.parse_path(d)
                    obs = (type(p[0]).__name__, p[0].start, p[0].end)
                except Exception as e:      # noqa
                    obs = e
                exp = ('Line' if zero else 'Arc', st, en)
                if isinstance(obs, Exception) or obs[0] != exp[0] or not (abs(obs[1] - st) <= 1e-12) or not (abs(obs[2] - en) <= 1e-12):
                    ck.disagree(key='parse_path/zero-radius-rule', site='svgpathtools/path.py:Path._parse_path (A)',
                                what='%r: first segment %r; a radius of %s makes it %s' % (d, obs, rtxt, 'a line' if zero else 'an arc (scaled up to fit)'),
                                case={'d': d}, expected=repr(exp), observed=repr(obs), driver='radius')


def reparse_after_edits(ck):
    """the result of parse_path belongs to the caller: editing it in place (through the list interface, the start / end setters or a segment attribute) must not
    leak into what a later parse of the same text returns - by any entry point (parse_path with and without current_pos, Path(d), Path(d, ...))"""
    texts = ['M 1,2 L 4,6 L 8,2 Z', 'M0,0 C 1,2 3,2 4,0 S 7,-2 8,0', 'm 3 3 q 2 4 4 0 t 4 0 a 3 2 20 0 1 5 1', 'M 2,2 h 5 v 5 H 2 z m 10 0 l 3 3']
    edits = [('append', lambda q: q.append(sp.Line(q.end, q.end + 5))), ('del last', lambda q: q.__delitem__(-1)), ('del first', lambda q: q.__delitem__(0)),
             ('setitem', lambda q: q.__setitem__(0, sp.Line(q[0].start, q[0].end + 1j))), ('insert', lambda q: q.insert(1, sp.Line(q[0].end, q[1].start))),
             ('start=', lambda q: setattr(q, 'start', q.start - 3)), ('segment attribute', lambda q: setattr(q[0], 'end', q[0].end + 2j)), ('reverse', lambda q: q.reverse())]
    entries = [('parse_path', lambda d: sp.parse_path(d)), ('parse_path(current_pos=0j)', lambda d: sp.parse_path(d, 0j)), ('Path(d)', lambda d: sp.Path(d))]
    for d in texts:
        want = repr(sp.parse_path(d + ' '))      # another spelling of the same data
        for en, ef in entries:
            for ed_name, ed in edits:
                ck.case(fp=('reparse', d, en, ed_name), nontrivial=True)
                try:
                    first = ef(d)
                    before = repr(first)
                    ed(first)
                    second = ef(d)
                    third = sp.parse_path(d)
                    ok = before == want and repr(second) == want and repr(third) == want
                    got = repr(second)
                except Exception as e:      # noqa
                    ok, got = False, repr(e)
                if not ok:
                    ck.disagree(key='parse_path/result-depends-on-an-earlier-result-being-edited', site='svgpathtools/parser.py:parse_path / Path._parse_path',
                                what='%s(%r), %s on the result, %s(%r) again: %s' % (en, d, ed_name, en, d, got), case={'d': d, 'entry': en, 'edit': ed_name},
                                expected=want, observed=got, driver='history')


def run(ck):
    rnd = random.Random(ck.seed)
    radius_extremes(ck)
    reparse_after_edits(ck)
    quick = ck.tier == 'quick'
    ck.rules.append('G: every terminal behaviour of PathData.tla (program over the 20 letters with explicit '
                    'arguments + expected segments) rendered in >=2 spellings and parsed by the real parse_path; '
                    'non-trivial = program yields >=1 segment, distinct by canonical d-string. '
                    'Lexer: every string accepted by PathLex.tla. V: per-group events of the real parser on random '
                    'and test-suite programs accepted by PathData_Trace.tla')
    ck.assumptions += ['numbers with a trailing dot are not generated (SVG 1.1 and SVG 2 disagree)',
                       'arcs from a point to itself are not generated', 'arguments are integers (|v| < 60)']
    acts = ['MoveTo', 'LineTo', 'HLine', 'VLine', 'Curve', 'Smooth', 'Quad', 'SmoothQuad', 'ArcTo', 'Close']
    mc = open(os.path.join(pm.__file__.rsplit('/', 2)[0], 'spec', 'PathData_MC.cfg')).read()
    if not quick:
        mc = mc.replace('MaxCmds = 2', 'MaxCmds = 3')
    ck.tlc('PathData', mc, need_actions=acts)
    ck.tlc('PathLex', 'PathLex_MC.cfg', need_actions=['Feed'])
    ck.tlc('PathLex', open(os.path.join(pm.__file__.rsplit('/', 2)[0], 'spec', 'PathLex_MC.cfg')).read()
           .replace('"nums"', '"flags"').replace('= 5', '= 7'), need_actions=['Feed'])

    def dump(k, r):
        return 'SPECIFICATION Spec\nCONSTANTS MaxCmds = %d\n MaxRep = %d\nINVARIANT Dump\n' % (k, r)
    runs = [(2, 2, None), (3, 1, None)] if quick else [(3, 2, None)]
    for k, rep, sim in runs:
        ck.tlc('PathData', dump(k, rep), workers=1, coverage=False, timeout=3000,
               on_case=lambda c: replay_case(ck, c, rnd))
    # long programs by simulation
    nsim, depth = (1500, 7) if quick else (20000, 9)
    ck.tlc('PathData', dump(depth - 1, 3), workers=1, coverage=False, simulate=nsim, depth=depth, timeout=3000,
           on_case=lambda c: replay_case(ck, c, rnd))
    ck.exhaustive = True
    lexer_conformance(ck, 6 if quick else 7, 7 if quick else 9)
    trace_validation(ck, rnd, 1500 if quick else 12000, 12 if quick else 40)


def replay(rec):
    case = rec['case']
    print('d =', repr(case['d']))
    print('expected:', rec.get('expected'))
    try:
        got = list(sp.parse_path(case['d']))
        print('observed:', got)
    except Exception as e:      # noqa
        print('observed: raised', repr(e))
        got = None
    if case.get('groups') and isinstance(rec.get('expected'), list) and got is not None:
        ok = [repr(s) for s in got] == rec['expected']
        print('AGREES' if ok else 'DISAGREES')
        return 0 if ok else 1
    return 1 if got is None else 0
