"""Check context: bookkeeping shared by every property driver.

A driver does
    ck = Check('C02', tier, seed)
    r = ck.tlc('PathData', 'PathData_MC.cfg')          # P: invariants, statistics, coverage
    for case in ck.tlc_cases('PathData', ...): ...      # G: cases to replay into the code
        ck.case(fp, nontrivial=...)
        ck.disagree(key=..., site=..., case=..., expected=..., observed=...)
    ck.finish()
and gets evidence, replay files, KNOWN-FINDING / VIOLATION lines and the exit status.
"""
import hashlib
import json
import os
import sys
import time

from . import tlc as tlcmod

VERIF = os.path.dirname(os.path.dirname(os.path.abspath(__file__)))
REPO = os.environ.get('VERIF_REPO', '/repo')
OUT = os.environ.get('VERIF_OUT') or VERIF          # where evidence/ and replays/ are written (tools/try_mutants_parallel.sh redirects it)


def import_repo():
    """Import svgpathtools from /repo's working tree (never an installed copy)."""
    if REPO not in sys.path:
        sys.path.insert(0, REPO)
    import warnings
    warnings.simplefilter('ignore')
    import svgpathtools
    got = os.path.dirname(os.path.dirname(os.path.abspath(svgpathtools.__file__)))
    if os.path.realpath(got) != os.path.realpath(REPO):
        raise tlcmod.TLCError('svgpathtools imported from %s, not %s' % (got, REPO))
    return svgpathtools


class Machinery(Exception):
    pass


class Check(object):
    def __init__(self, pid, tier='quick', seed=1, level='model_checking'):
        self.pid = pid
        self.tier = tier
        self.seed = int(seed)
        self.level = level
        self.t0 = time.time()
        self.states = 0
        self.transitions = 0
        self.coverage = {}
        self.cmds = []
        self.evaluations = 0
        self.fps = set()
        self.nontrivial = set()
        self.traces_validated = 0
        self.samples = []
        self.sample_keys = set()
        self.violations = []     # (key, replay path)
        self.known_hits = {}     # finding key -> count
        self.drifts = {}         # implementation-shaped model clauses the code no longer follows (not violations)
        self.drift_notes = []
        self.viol_counts = {}
        self.assumptions = []
        self.rules = []
        self.parts = {}          # free-form per-part counters for the evidence file
        self.exhaustive = True
        self.machinery_errors = []
        self.max_violation_files = 25
        self._findings = self._load_findings()

    # ------------------------------------------------------------------ findings
    def _load_findings(self):
        path = os.path.join(VERIF, 'known_findings.json')
        if not os.path.exists(path):
            return []
        with open(path) as f:
            data = json.load(f)
        return [e for e in data.get('findings', []) if e.get('property') == self.pid]

    def _open_finding(self, key):
        for e in self._findings:
            if e.get('status') == 'open' and e.get('key') == key:
                return e
        return None

    # ------------------------------------------------------------------ TLC
    def tlc(self, module, cfg, must_hold=True, need_actions=None, **kw):
        """Run TLC; accumulate statistics.  With must_hold, an invariant violation *in the model*
        is a machinery failure (the design spec is wrong), not a property violation of the code."""
        kw.setdefault('seed', self.seed if kw.get('simulate') else None)
        try:
            r = tlcmod.run_tlc(module, cfg, **kw)
        except tlcmod.TLCError as e:
            self.machinery_errors.append(str(e))
            raise Machinery(str(e))
        self.states += r.distinct
        self.transitions += r.generated
        for a, (d, t) in r.coverage.items():
            c = self.coverage.setdefault('%s.%s' % (module, a), [0, 0])
            c[0] += d
            c[1] += t
        self.cmds.append(r.cmd)
        if r.error_text:
            self.machinery_errors.append('TLC error in %s: %s' % (module, r.error_text[:1500]))
            raise Machinery(r.error_text)
        if must_hold and r.violated is not None:
            msg = 'model invariant %s violated in %s/%s\n%s' % (r.violated, module, cfg if '\n' not in cfg else '<gen>', r.trace_text[:3000])
            self.machinery_errors.append(msg)
            raise Machinery(msg)
        if need_actions:
            for a in need_actions:
                if r.coverage.get(a, [0, 0])[1] == 0:
                    msg = 'vacuity: action %s of %s never taken' % (a, module)
                    self.machinery_errors.append(msg)
                    raise Machinery(msg)
        return r

    def apalache(self, module, inv, expect_error=False, timeout=300):
        """Symbolic check with Apalache over unbounded integers (spec/apalache/<module>.tla, --length=0).  Returns True iff the
        outcome is the expected one; an unexpected outcome is a machinery failure (the oracle itself would be wrong)."""
        import shutil
        import subprocess
        import tempfile
        tmp = tempfile.mkdtemp(prefix='apa_', dir=os.environ.get('VERIF_TMP'))
        try:
            cmd = ['apalache-mc', 'check', '--inv=' + inv, '--length=0', '--out-dir=' + tmp, os.path.join(VERIF, 'spec', 'apalache', module + '.tla')]
            try:
                pr = subprocess.run(cmd, stdout=subprocess.PIPE, stderr=subprocess.STDOUT, text=True, timeout=timeout, cwd=tmp)
                out = pr.stdout
            except Exception as e:      # noqa
                out = 'apalache failed to run: %r' % e
            ok = ('EXITCODE: OK' in out and 'NoError' in out) if not expect_error else ('invariant 0 violated' in out and 'EXITCODE: ERROR (12)' in out)      # 12 = counterexample; parse / type errors exit with other codes
            self.cmds.append('apalache-mc check --inv=%s --length=0 spec/apalache/%s.tla' % (inv, module))
            self.parts['apalache_%s_%s' % (module, inv)] = 'refuted as expected' if (ok and expect_error) else ('proved for all integers' if ok else 'UNEXPECTED')
            if not ok:
                msg = 'apalache %s/%s: unexpected outcome\n%s' % (module, inv, out[-1500:])
                self.machinery_errors.append(msg)
                raise Machinery(msg)
            return True
        finally:
            shutil.rmtree(tmp, ignore_errors=True)

    # ------------------------------------------------------------------ cases
    @staticmethod
    def fp(obj):
        return hashlib.sha1(json.dumps(obj, sort_keys=True, default=str).encode()).hexdigest()[:16]

    def case(self, obj=None, nontrivial=True, fp=None, sample_kind=None):
        """Count one evaluated case.  `obj` (JSON-able) or `fp` identifies it for distinctness."""
        self.evaluations += 1
        if fp is None:
            fp = self.fp(obj)
        if nontrivial:
            self.nontrivial.add(fp)
        if sample_kind is not None and sample_kind not in self.sample_keys and len(self.samples) < 12:
            self.sample_keys.add(sample_kind)
            self.samples.append({'kind': sample_kind, 'case': obj})

    def sample(self, kind, obj):
        if kind not in self.sample_keys and len(self.samples) < 16:
            self.sample_keys.add(kind)
            self.samples.append({'kind': kind, 'case': obj})

    def count(self, part, n=1):
        self.parts[part] = self.parts.get(part, 0) + n

    def trace_ok(self, n=1):
        self.traces_validated += n

    # ------------------------------------------------------------------ disagreements
    def disagree(self, key, site, what, case, expected=None, observed=None, driver=None):
        """A disagreement between model and code.  `key` = stable class id (site + input class)
        used for matching known findings; `case` must be enough to re-run it (`--replay`)."""
        e = self._open_finding(key)
        if e is not None:
            self.known_hits[key] = self.known_hits.get(key, 0) + 1
            return 'known'
        self.viol_counts[key] = self.viol_counts.get(key, 0) + 1
        if self.viol_counts[key] > 3:
            return 'violation'
        rec = {'property': self.pid, 'key': key, 'site': site, 'what': what, 'driver': driver,
               'case': case, 'expected': expected, 'observed': observed, 'seed': self.seed, 'tier': self.tier}
        d = os.path.join(OUT, 'replays', self.pid)
        os.makedirs(d, exist_ok=True)
        path = os.path.join(d, self.fp(rec) + '.json')
        with open(path, 'w') as f:
            json.dump(rec, f, indent=1, default=str)
        self.violations.append((key, path))
        return 'violation'

    def drift(self, key, what):
        """The code no longer follows the *implementation-shaped* part of a model (the order of probes, the commands written, the pieces of a loop) while no
        clause of the property has been seen to fail.  That is not a violation: the property may well hold for another algorithm.  It is reported (MODEL-DRIFT line,
        evidence) because the model-level results of that module then say nothing about the code any more; the decision rests on the semantic checks alone."""
        self.drifts[key] = self.drifts.get(key, 0) + 1
        if self.drifts[key] == 1:
            self.drift_notes.append('%s: %s' % (key, what[:600]))

    # ------------------------------------------------------------------ finish
    def finish(self):
        wall = time.time() - self.t0
        cov = {
            'states': self.states, 'transitions': self.transitions,
            'traces_validated_against_impl': self.traces_validated,
            'samples': self.samples or [{'kind': 'none', 'case': None}],
            'evaluations': self.evaluations,
            'distinct_nontrivial': len(self.nontrivial),
            'rule': ' | '.join(self.rules),
            'checker_cmd': ' ;; '.join(self.cmds[:12]),
            'exhaustive': bool(self.exhaustive),
            'action_coverage': {k: v[1] for k, v in sorted(self.coverage.items())},
            'parts': self.parts,
            'known_findings_hit': self.known_hits,
            'model_drift': self.drifts,
            'machinery_errors': self.machinery_errors[:5],
        }
        ev = {'property_id': self.pid, 'tier': self.tier, 'seed': self.seed, 'level': self.level,
              'coverage': cov, 'assumptions': self.assumptions, 'wall_s': round(wall, 2),
              'violations': sum(self.viol_counts.values())}
        os.makedirs(os.path.join(OUT, 'evidence'), exist_ok=True)
        with open(os.path.join(OUT, 'evidence', self.pid + '.json'), 'w') as f:
            json.dump(ev, f, indent=1, default=str)
            f.write('\n')
        for key, n in sorted(self.known_hits.items()):
            e = self._open_finding(key)
            print('KNOWN-FINDING: property=%s %s [%s; %d cases this run]' % (self.pid, e.get('what', key), key, n))
        for note in self.drift_notes[:6]:
            print('MODEL-DRIFT: property=%s %s [%d cases]' % (self.pid, note.replace('\n', ' '), self.drifts[note.split(':', 1)[0]]))
        if self.machinery_errors:
            for m in self.machinery_errors[:5]:
                print('MACHINERY-FAILURE property=%s %s' % (self.pid, m[:2000]))
            return 2
        if self.violations:
            for key, path in self.violations:
                print('VIOLATION property=%s replay=%s key=%s (%d cases of this class)' % (self.pid, path, key, self.viol_counts[key]))
            print('%s: %d disagreement(s) in %d evaluations, %.1fs' % (self.pid, sum(self.viol_counts.values()), self.evaluations, wall))
            return 1
        print('%s OK tier=%s seed=%d states=%d transitions=%d evaluations=%d distinct_nontrivial=%d traces=%d wall=%.1fs' % (
            self.pid, self.tier, self.seed, self.states, self.transitions, self.evaluations,
            len(self.nontrivial), self.traces_validated, wall))
        return 0
