"""Rendering SvgDoc.tla documents to SVG text and comparing flattened real paths with the model."""
import math
import os

import numpy as np

from . import pathmodel as pm

sp = pm.sp
NS = 'http://www.w3.org/2000/svg'
PATH_D = ['M1 2 L 4 2 C 5 3 5 5 3 6 Z', 'M 0 0 A 5 3 30 0 1 6 2 L 1 1 Q 2 4 -1 3']


class _Num(object):
    """an integer that prints in a seeded legal SVG number spelling (3 -> 3.0, 30e-1, .3e1, +3 ...)"""
    def __init__(self, v, rnd):
        self.v, self.rnd = v, rnd

    def __str__(self):
        if self.rnd is None or self.rnd.random() < 0.5:
            return str(self.v)
        return pm.spell_int(self.v, self.rnd, 'forms')


def op_text(o, rnd=None):
    k = o['k']
    sep = ',' if (rnd is None or rnd.random() < 0.5) else ' '
    a = [_Num(v, rnd) for v in (o['a'] if k != 'rotate' and k != 'rotatec' and not k.startswith('skew') else [])] or o['a']
    if k in ('translate', 'scale'):
        return '%s(%s%s%s)' % (k, a[0], sep, a[1])
    if k in ('translate1', 'scale1'):
        return '%s(%s)' % (k[:-1], a[0])
    if k == 'matrix':
        return 'matrix(%s)' % sep.join(str(v) for v in a)
    if k in ('translate', 'scale'):
        return '%s(%d%s%d)' % (k, a[0], sep, a[1])
    if k in ('translate1', 'scale1'):
        return '%s(%d)' % (k[:-1], a[0])
    if k == 'rotate':
        return 'rotate(%d)' % (90 * a[0])
    if k == 'rotatec':
        return 'rotate(%d%s%d%s%d)' % (90 * a[0], sep, a[1], sep, a[2])
    if k == 'skewX':
        return 'skewX(%d)' % (45 * a[0])
    if k == 'skewY':
        return 'skewY(%d)' % (45 * a[0])
    if k == 'matrix':
        return 'matrix(%s)' % sep.join(str(v) for v in a)
    raise ValueError(k)


def tf_attr(ops, rnd=None):
    if not ops:
        return ''
    items = [op_text(o, rnd) for o in ops]
    if rnd is None:
        return ' transform="%s"' % ' '.join(items)
    # legal spellings of the list (SVG 1.1, 7.6): items separated by white space and / or one comma; white space around names and parentheses
    out = ''
    for n, it in enumerate(items):
        if rnd.random() < 0.25:
            it = it.replace('(', rnd.choice([' (', '( ', ' ( ']), 1).replace(')', ' )')
        out += it
        if n < len(items) - 1:
            out += rnd.choice([' ', ' ', ', ', ',', ' , ', '\n  ', '  ', ''])
    if rnd.random() < 0.15:
        out = ' ' + out + ' '
    return ' transform="%s"' % out


def points_text(pts, rnd):
    """a points attribute in one of the spellings SVG 1.1 (9.7.1) allows: comma and / or white space inside and between the pairs, a minus sign
    abutting the previous number, integers written as 3.0 / 30e-1 / .3e1 / +3"""
    if rnd is None or rnd.random() < 0.4:
        return ' '.join('%d,%d' % tuple(p) for p in pts)
    num = lambda v: str(v) if rnd.random() < 0.6 else pm.spell_int(v, rnd, 'forms')      # noqa
    inner = rnd.choice([',', ' ', ' , ', ', ', '\n'])
    outer = rnd.choice([' ', ',', '\n  ', ' ,', '\t'])
    out = ''
    for n, (x, y) in enumerate(pts):
        xs, ys = num(x), num(y)
        sep_in = '' if (ys.startswith('-') and rnd.random() < 0.5) else inner
        pair = xs + sep_in + ys
        if n:
            out += '' if (pair.startswith('-') and rnd.random() < 0.3) else outer
        out += pair
    return (' ' if rnd.random() < 0.2 else '') + out + (' ' if rnd.random() < 0.2 else '')


def shape_xml(kind, k, attrs, tf, extra='', G=None, rnd=None):
    if G is not None and kind != 'path':
        sc, off = G
        P = lambda v: repr(v * sc + off)       # positions
        S = lambda v: repr(v * sc)             # sizes
        i = ' id="n%d"%s%s' % (k, tf, extra)
        if kind == 'line':
            return '<line%s x1="%s" y1="%s" x2="%s" y2="%s"/>' % (i, P(attrs['x1']), P(attrs['y1']), P(attrs['x2']), P(attrs['y2']))
        if kind in ('polyline', 'polygon'):
            return '<%s%s points="%s"/>' % (kind, i, ' '.join('%s,%s' % (P(p[0]), P(p[1])) for p in attrs['pts']))
        if kind == 'rect':
            return '<rect%s x="%s" y="%s" width="%s" height="%s"/>' % (i, P(attrs['x']), P(attrs['y']), S(attrs['w']), S(attrs['h']))
        if kind == 'rrect':
            rx = ' rx="%s"' % S(attrs['rx']) if attrs['rx'] else ''
            ry = ' ry="%s"' % S(attrs['ry']) if attrs['ry'] else ''
            return '<rect%s x="%s" y="%s" width="%s" height="%s"%s%s/>' % (i, P(attrs['x']), P(attrs['y']), S(attrs['w']), S(attrs['h']), rx, ry)
        if kind == 'circle':
            return '<circle%s cx="%s" cy="%s" r="%s"/>' % (i, P(attrs['cx']), P(attrs['cy']), S(attrs['r']))
        if kind == 'ellipse':
            return '<ellipse%s cx="%s" cy="%s" rx="%s" ry="%s"/>' % (i, P(attrs['cx']), P(attrs['cy']), S(attrs['rx']), S(attrs['ry']))
    i = ' id="n%d"%s%s' % (k, tf, extra)
    if kind == 'path':
        return '<path%s d="%s"/>' % (i, PATH_D[attrs['d']])
    if rnd is not None and rnd.random() < 0.5 and kind in ('line', 'rect', 'circle', 'ellipse'):
        # positions that are 0 may be left out: the specification's default ("if the attribute is not specified, the effect is as if a value of 0 were specified")
        pos = {'line': ('x1', 'y1', 'x2', 'y2'), 'rect': ('x', 'y'), 'circle': ('cx', 'cy'), 'ellipse': ('cx', 'cy')}[kind]
        names = {'w': 'width', 'h': 'height'}
        order = {'line': ('x1', 'y1', 'x2', 'y2'), 'rect': ('x', 'y', 'w', 'h'), 'circle': ('cx', 'cy', 'r'), 'ellipse': ('cx', 'cy', 'rx', 'ry')}[kind]
        if any(attrs[a] == 0 for a in pos):
            body = ''.join(' %s="%d"' % (names.get(a, a), attrs[a]) for a in order if not (a in pos and attrs[a] == 0))
            return '<%s%s%s/>' % (kind, i, body)
    if kind == 'line':
        return '<line%s x1="%d" y1="%d" x2="%d" y2="%d"/>' % (i, attrs['x1'], attrs['y1'], attrs['x2'], attrs['y2'])
    if kind in ('polyline', 'polygon'):
        return '<%s%s points="%s"/>' % (kind, i, points_text(attrs['pts'], rnd))
    if rnd is not None and rnd.random() < 0.3 and kind in ('line', 'rect', 'circle', 'ellipse'):
        # the same integers in other legal number spellings
        N = lambda v: pm.spell_int(v, rnd, 'forms')      # noqa
        if kind == 'line':
            return '<line%s x1="%s" y1="%s" x2="%s" y2="%s"/>' % (i, N(attrs['x1']), N(attrs['y1']), N(attrs['x2']), N(attrs['y2']))
        if kind == 'rect':
            return '<rect%s x="%s" y="%s" width="%s" height="%s"/>' % (i, N(attrs['x']), N(attrs['y']), N(attrs['w']), N(attrs['h']))
        if kind == 'circle':
            return '<circle%s cx="%s" cy="%s" r="%s"/>' % (i, N(attrs['cx']), N(attrs['cy']), N(attrs['r']))
        return '<ellipse%s cx="%s" cy="%s" rx="%s" ry="%s"/>' % (i, N(attrs['cx']), N(attrs['cy']), N(attrs['rx']), N(attrs['ry']))
    if kind == 'rect':
        return '<rect%s x="%d" y="%d" width="%d" height="%d"/>' % (i, attrs['x'], attrs['y'], attrs['w'], attrs['h'])
    if kind == 'rrect':
        rx = ' rx="%d"' % attrs['rx'] if attrs['rx'] else ''
        ry = ' ry="%d"' % attrs['ry'] if attrs['ry'] else ''
        return '<rect%s x="%d" y="%d" width="%d" height="%d"%s%s/>' % (i, attrs['x'], attrs['y'], attrs['w'], attrs['h'], rx, ry)
    if kind == 'circle':
        return '<circle%s cx="%d" cy="%d" r="%d"/>' % (i, attrs['cx'], attrs['cy'], attrs['r'])
    if kind == 'ellipse':
        return '<ellipse%s cx="%d" cy="%d" rx="%d" ry="%d"/>' % (i, attrs['cx'], attrs['cy'], attrs['rx'], attrs['ry'])
    raise ValueError(kind)


def render(case, rnd=None, svg_attrs='', G=None):
    nodes = case['nodes']
    n = len(nodes)
    kids = {k: [j for j in range(1, n + 1) if nodes[j - 1]['parent'] == k] for k in range(1, n + 1)}

    def rec(k, ind):
        nd = nodes[k - 1]
        tf = tf_attr(case['lists'][k - 1], rnd)
        if nd['kind'] == 'g':
            inner = ''.join(rec(j, ind + ' ') for j in kids[k])
            if k == 1:
                return '<svg xmlns="%s" version="1.1"%s%s>\n%s</svg>\n' % (NS, tf, svg_attrs, inner)
            return '%s<g id="n%d"%s>\n%s%s</g>\n' % (ind, k, tf, inner, ind)
        return ind + shape_xml(nd['kind'], k, case['attrs'][k - 1], tf, G=G, rnd=rnd) + '\n'
    return rec(1, '')


def mat(M):
    return np.array([[M[0], M[2], M[4]], [M[1], M[3], M[5]], [0, 0, 1]], dtype=float)


def app(M, z):
    return complex(M[0] * z.real + M[2] * z.imag + M[4], M[1] * z.real + M[3] * z.imag + M[5])


def ref_segments(kind, attrs, geom):
    """reference path of a shape in its own frame: real segment objects, or ('E', centre, radii)"""
    if kind == 'path':
        return list(sp.parse_path(PATH_D[attrs['d']]))
    out = []
    for s in geom:
        if s[0] == 'E':
            return ('E', complex(*s[1]), complex(*s[2]))
        out.append(pm.mkseg(s))
    return out


TS = [0.0, 0.25, 0.5, 0.75, 1.0]


def compare_path(real, ref, M, tol=1e-6):
    """None if `real` is `ref` mapped by M, else a description of the difference"""
    size = 1.0
    if isinstance(ref, tuple):
        _, c, r = ref
        if len(real) < 2 or not all(isinstance(s, sp.Arc) for s in real):
            return 'expected arcs only, got %s' % [type(s).__name__ for s in real]
        size = abs(app(M, c)) + abs(r) * (abs(M[0]) + abs(M[1]) + abs(M[2]) + abs(M[3])) + 1
        Minv = np.linalg.inv(mat(M))
        if not (abs(real[0].start - real[-1].end) <= tol * size) or any(not (abs(a.end - b.start) <= tol * size) for a, b in zip(real, real[1:])):
            return 'ellipse outline not closed / not continuous'
        pts = [s.point(t) for s in real for t in (0.0, 0.125, 0.25, 0.375, 0.5, 0.625, 0.75, 0.875, 1.0)]
        for p in pts:
            v = Minv.dot(np.array([p.real, p.imag, 1.0]))
            w = complex((v[0] - c.real) / r.real, (v[1] - c.imag) / r.imag)
            if not (abs(abs(w) - 1) <= 1e-5):
                return 'point %r is not on the mapped ellipse (residual %g)' % (p, abs(w) - 1)
        for q in (c + r.real, c - r.real, c + 1j * r.imag, c - 1j * r.imag):
            qm = app(M, q)
            if not (min(abs(p - qm) for p in pts) <= tol * size * 10):
                return 'quadrant point %r of the ellipse is not on the path' % qm
        return None
    # a zero-length line (a rounded rect whose radius is half a side) carries no geometry: its presence is not prescribed
    nz = lambda L_: [s_ for s_ in L_ if not (isinstance(s_, sp.Line) and abs(s_.end - s_.start) <= 1e-9 * (1 + abs(s_.start)))]      # noqa
    real, ref = nz(real), nz(ref)
    if len(real) != len(ref):
        return 'expected %d segments, got %d: %r' % (len(ref), len(real), real)
    for a, b in zip(real, ref):
        same_type = type(a) is type(b)
        size = max(abs(app(M, b.point(t))) for t in TS) + 1
        if not same_type:
            return 'segment kind %s, expected %s' % (type(a).__name__, type(b).__name__)
        for t in TS:
            if not (abs(a.point(t) - app(M, b.point(t))) <= tol * size):
                return '%s.point(%r) = %r, expected %r' % (type(a).__name__, t, a.point(t), app(M, b.point(t)))
    return None
