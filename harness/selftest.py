"""./check selftest - the machinery checks itself (DESIGN.md section 7).

1. Non-vacuity of the model invariants: every state-machine module that carries Variant in {"correct","code"} must satisfy its invariants as
   "correct" and violate them as "code" (the defect of the pinned tree transcribed into the model).
2. Binding of the trace specifications: a trace recorded from the real code is accepted; the same trace with one field corrupted, or one
   event dropped, is rejected.
Exit 0 iff everything behaves as stated."""
import copy
import os
import random
import sys

from . import tlc as tlcmod
from . import tracecheck
from .core import Check

SPEC = tlcmod.SPEC_DIR


def variant_runs():
    out = []
    for module, cfg, inv in (('PathD', 'PathD_MC.cfg', 'RoundTrip'), ('PathSeq', 'PathSeq_MC.cfg', None), ('SegCache', 'SegCache_MC.cfg', 'AnswerGoodEnough'),
                             ('Roots', 'Roots_MC.cfg', None), ('Bisect', 'Bisect_MC.cfg', None), ('Rejoin', 'Rejoin_MC.cfg', 'JointsKept')):
        text = open(os.path.join(SPEC, cfg)).read()
        if module == 'PathSeq':
            text = text.replace('MaxOps = 5', 'MaxOps = 3')
        r1 = tlcmod.run_tlc(module, text, coverage=False)
        r2 = tlcmod.run_tlc(module, text.replace('"correct"', '"code"'), coverage=False)
        ok = r1.ok and (r2.violated is not None)
        out.append((module, ok, 'correct: %s; code: violated %s' % ('holds' if r1.ok else 'FAILS ' + str(r1.violated or r1.error_text[:80]), r2.violated)))
    return out


def trace_binding():
    out = []
    ck = Check('selftest', 'quick', 1)
    rnd = random.Random(7)
    # --- PathData_Trace: real parser traces
    from .props import c02
    traces = []
    while len(traces) < 40:
        ev = c02.record(c02.random_groups(rnd, rnd.randint(3, 8)), rnd.randint(0, 10 ** 6), 'plain')
        if ev:
            traces.append([{k: v for k, v in e.items() if k not in ('d', 'err')} for e in ev])
    good = [t for t in traces if len(t) >= 4]
    bad1 = copy.deepcopy(good)
    for t in bad1:          # corrupt one logged field: an end point of the last produced segment
        for e in reversed(t):
            if e['segs']:
                e['segs'][-1][-1] = [e['segs'][-1][-1][0] + 1, e['segs'][-1][-1][1]]
                break
    bad2 = [t[:1] + t[2:] for t in good]       # drop one event
    a, _ = tracecheck.validate(ck, 'PathData_Trace', 'PathData_Trace.cfg', None, good)
    b, _ = tracecheck.validate(ck, 'PathData_Trace', 'PathData_Trace.cfg', None, bad1)
    c, _ = tracecheck.validate(ck, 'PathData_Trace', 'PathData_Trace.cfg', None, bad2)
    out.append(('PathData_Trace', len(a) == len(good) and len(b) == 0 and len(c) < len(good) // 2,
                'accepted %d/%d real traces, %d corrupted, %d with a dropped event' % (len(a), len(good), len(b), len(c))))
    # --- PathSeq_Trace
    from .props import c16
    traces = [[c16.norm_event(h) for h in c16.record_random(rnd, 30)] for _ in range(25)]
    bad1 = copy.deepcopy(traces)
    for t in bad1:
        t[-1]['len'] = t[-1]['len'] + 1         # a stale answer
    bad2 = [t[:3] + t[4:] for t in traces]
    a, _ = tracecheck.validate(ck, 'PathSeq_Trace', 'PathSeq_Trace.cfg', None, traces)
    b, _ = tracecheck.validate(ck, 'PathSeq_Trace', 'PathSeq_Trace.cfg', None, bad1)
    c, _ = tracecheck.validate(ck, 'PathSeq_Trace', 'PathSeq_Trace.cfg', None, bad2)
    out.append(('PathSeq_Trace', len(a) == len(traces) and len(b) == 0 and len(c) < len(traces) // 2,
                'accepted %d/%d real histories, %d with a corrupted answer, %d with a dropped event' % (len(a), len(traces), len(b), len(c))))
    # --- Bisect_Trace
    from .props import c07
    runs = []
    for name, mk, uni in c07.shapes()[3:6]:
        curve = mk(1.0)
        L = curve.length()
        for f in (0.2, 0.55, 0.9):
            o, probes = c07.run_recorded(curve, L * f, {})
            ev, _, _ = c07.make_trace(curve, L * f, {}, o, probes)
            runs.append(ev)
    bad1 = copy.deepcopy(runs)
    for t in bad1:
        t[2]['cmp'] = -t[2]['cmp'] if t[2]['cmp'] else 1        # the recorded comparison contradicts the next probe
    bad2 = [t[:2] + t[3:] for t in runs]
    a, _ = tracecheck.validate(ck, 'Bisect_Trace', 'Bisect_Trace.cfg', None, runs)
    b, _ = tracecheck.validate(ck, 'Bisect_Trace', 'Bisect_Trace.cfg', None, bad1)
    c, _ = tracecheck.validate(ck, 'Bisect_Trace', 'Bisect_Trace.cfg', None, bad2)
    out.append(('Bisect_Trace', len(a) == len(runs) and len(b) == 0 and len(c) == 0,
                'accepted %d/%d real runs, %d with a flipped comparison, %d with a dropped probe' % (len(a), len(runs), len(b), len(c))))
    # --- Roots_Trace
    good = [[{'roots': [{'c': 1, 'k': 'in'}, {'c': 2, 'k': 'in'}, {'c': 1, 'k': 'in'}, {'c': 3, 'k': 'out'}], 'out': [1, 1, 0]}]]
    bad = [[{'roots': [{'c': 1, 'k': 'in'}, {'c': 2, 'k': 'in'}, {'c': 1, 'k': 'in'}, {'c': 3, 'k': 'out'}], 'out': [1, 0, 1]}]]     # the simple root is missing
    a, _ = tracecheck.validate(ck, 'Roots_Trace', 'Roots_Trace.cfg', None, good)
    b, _ = tracecheck.validate(ck, 'Roots_Trace', 'Roots_Trace.cfg', None, bad)
    out.append(('Roots_Trace', len(a) == 1 and len(b) == 0, 'accepted %d/1 good survivor mask, %d/1 mask that lost the simple root' % (len(a), len(b))))
    # --- Subdiv.tla vs the real subdivision loop: exact conformance, lost when the box test of the code is changed behind the model's back
    from . import subdivmodel as sd
    r = tlcmod.run_tlc('Subdiv', sd.CFG % (6, 1, 6, 'code', 'Lat2', 'same', 'InputsAnchored', 'INVARIANT Dump\n'), workers=1, coverage=False)
    cases = r.cases[::7]
    good = sum(1 for c in cases if sd.compare(ck, c, 1, 6, 'same'))
    orig = sd.bz.interval_intersection_width
    sd.bz.interval_intersection_width = lambda a, b, c, d: 1 if max(a, c) <= min(b, d) else 0        # closed boxes
    try:
        still = sum(1 for c in cases if sd.compare(ck, c, 1, 6, 'same'))
    finally:
        sd.bz.interval_intersection_width = orig
    out.append(('Subdiv (behaviours)', good == len(cases) and still < len(cases),
                '%d/%d behaviours of the model equal the real loop visit by visit; %d still do when boxes_intersect is made closed in the code only' % (good, len(cases), still)))
    return out


def main(tier, seed):
    rows = variant_runs() + trace_binding()
    allok = True
    for name, ok, what in rows:
        print('%-16s %s  %s' % (name, 'ok  ' if ok else 'FAIL', what))
        allok = allok and ok
    print('selftest', 'PASSED' if allok else 'FAILED')
    return 0 if allok else 1
