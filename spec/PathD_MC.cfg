SPECIFICATION Spec
CONSTANTS MaxSeg = 2
  Variant = "correct"
INVARIANT RoundTrip
INVARIANT NoDrop
INVARIANT StartsWithM
INVARIANT ZIffClosed
INVARIANT CaseIsRel
INVARIANT STOnlyIfAsked
CHECK_DEADLOCK FALSE
