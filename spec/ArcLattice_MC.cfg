SPECIFICATION Spec
CONSTANTS Radii <- RadiiA
  Phis <- PhisA
  Ths <- ThsAll
  Dls <- DlsAll
  Centers <- CentersB
  SmallH <- SmallB
  SmallR <- SmallRA
INVARIANT F65Unique
INVARIANT F65Self
INVARIANT LargeIffOver180
INVARIANT CurInSweep
INVARIANT EndsAtEnd
INVARIANT ReverseOK
INVARIANT MirrorFlipsSweep
INVARIANT RotKeepsFlags
INVARIANT SmallOK
PROPERTY MonotoneDir
CHECK_DEADLOCK FALSE
