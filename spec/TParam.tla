------------------------------ MODULE TParam ------------------------------
(* Path parameter T, segment parameter (k,t) and arc-length fractions (C05; used by C09).         *)
(* A path is abstracted to the integer lengths of its segments and the pattern of its joints      *)
(* (consecutive end points coincide or not; the closing joint coincides or not).  T ranges over   *)
(* the grid j/(2*total): every segment boundary and every mid-cell value.  All quantities are     *)
(* exact rationals <<num, den>>.  The walk along T (action Advance) makes this a state machine:   *)
(* (k,t) must move forward monotonically as T grows.                                              *)
EXTENDS Integers, Sequences, FiniteSets, TLC, Json
CONSTANTS MaxN,        \* max number of segments
          LenSet       \* admissible segment lengths (0 allowed; never in leading position)

RECURSIVE SumTo(_, _)
SumTo(q, k) == IF k = 0 THEN 0 ELSE q[k] + SumTo(q, k-1)
Tot(q) == SumTo(q, Len(q))
\* rationals as <<n, d>>, d > 0, compared by cross multiplication
REq(a, b) == a[1] * b[2] = b[1] * a[2]
RLe(a, b) == a[1] * b[2] <= b[1] * a[2]

(* T = j / (2 tot).  T2t: first segment whose end fraction reaches T (a boundary value belongs to *)
(* the earlier segment, with t = 1); T = 0 is (1, 0), T = 1 is (n, 1).                            *)
SegOf(q, j) == IF j = 0 THEN 1 ELSE IF j = 2 * Tot(q) THEN Len(q)
               ELSE CHOOSE k \in 1..Len(q) : 2 * SumTo(q, k) >= j /\ \A m \in 1..(k-1) : 2 * SumTo(q, m) < j
TOf(q, j) == LET k == SegOf(q, j) IN
             IF j = 0 THEN <<0, 1>> ELSE IF j = 2 * Tot(q) THEN <<1, 1>>
             ELSE <<j - 2 * SumTo(q, k-1), 2 * q[k]>>
(* t2T(k, t) with t = a/b : (cum[k-1] + t len_k) / tot *)
t2T(q, k, t) == <<t[2] * SumTo(q, k-1) + t[1] * q[k], t[2] * Tot(q)>>
(* occupancy: the closed T-interval of segment k *)
Occ(q, k) == << <<SumTo(q, k-1), Tot(q)>>, <<SumTo(q, k), Tot(q)>> >>

(* continuous subpaths: maximal runs of segments whose joints coincide.  jn[i] = joint between    *)
(* segment i and i+1 coincides.  Runs as <<first, last>> index pairs.                             *)
RECURSIVE Runs(_, _, _)
Runs(jn, n, from) == IF from > n THEN <<>>
                     ELSE LET last == CHOOSE e \in from..n : (\A i \in from..(e-1) : jn[i]) /\ (e = n \/ ~jn[e])
                          IN <<<<from, last>>>> \o Runs(jn, n, last + 1)

VARIABLES lens, jn, closing, j
vars == <<lens, jn, closing, j>>
Paths(n) == { q \in [1..n -> LenSet] : q[1] > 0 }
Init == \E n \in 1..MaxN : /\ lens \in Paths(n) /\ jn \in [1..(n-1) -> BOOLEAN] /\ closing \in BOOLEAN /\ j = 0
Advance == j < 2 * Tot(lens) /\ j' = j + 1 /\ UNCHANGED <<lens, jn, closing>>
Next == Advance
Spec == Init /\ [][Next]_vars

n == Len(lens)
K == SegOf(lens, j)
Tt == TOf(lens, j)
TT == <<j, 2 * Tot(lens)>>
\* ---------- invariants
TInRange == RLe(<<0,1>>, Tt) /\ RLe(Tt, <<1,1>>) /\ K \in 1..n
(* t2T inverts T2t *)
RoundTripT == REq(t2T(lens, K, Tt), TT)
(* T lies in the occupancy interval of its segment, and zero-length segments are never selected   *)
InOccupancy == RLe(Occ(lens, K)[1], TT) /\ RLe(TT, Occ(lens, K)[2]) /\ (lens[K] > 0 \/ j = 2 * Tot(lens))
(* T2t inverts t2T except at the boundary convention: (k, 0) for k > 1 is reported as (k', 1) on  *)
(* the last earlier segment of positive length                                                    *)
TZeroOnlyAtStart == (j > 0) => Tt[1] > 0            \* t = 0 only at T = 0 (boundaries belong to the earlier segment)
(* the walk is monotone: the segment index never decreases, and within a segment t increases      *)
Monotone == [][K' > K \/ (K' = K /\ ~RLe(Tt', Tt))]_vars
(* subpaths partition 1..n into maximal runs *)
RunsOK == LET r == Runs(jn, n, 1) IN
            /\ r[1][1] = 1 /\ r[Len(r)][2] = n
            /\ \A i \in 1..Len(r) : r[i][1] <= r[i][2] /\ \A m \in r[i][1]..(r[i][2]-1) : jn[m]
            /\ \A i \in 1..(Len(r)-1) : r[i+1][1] = r[i][2] + 1 /\ ~jn[r[i][2]]
ContIffOneRun == (\A i \in 1..(n-1) : jn[i]) <=> Len(Runs(jn, n, 1)) = 1
Dump == j = 0 => PrintT(ToJson([lens |-> lens, jn |-> jn, closing |-> closing, runs |-> Runs(jn, n, 1),
                                 ts |-> [i \in 1..(2 * Tot(lens) + 1) |-> <<i-1, SegOf(lens, i-1), TOf(lens, i-1)>>]]))
=============================================================================
