SPECIFICATION Spec
INVARIANT Bounded
INVARIANT Progress
CHECK_DEADLOCK FALSE
