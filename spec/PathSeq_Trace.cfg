SPECIFICATION TSpec
CONSTANTS MaxLen = 64
  MaxOps = 100000
  Pool <- Pool4
  Pts <- Pts3
  Variant = "correct"
INVARIANT CacheCoherent
INVARIANT Progress
CHECK_DEADLOCK FALSE
