SPECIFICATION Spec
CONSTANTS MaxLen = 3
  MaxOps = 5
  Pool <- Pool4
  Pts <- Pts3
  Variant = "correct"
VIEW View
INVARIANT TypeOK
INVARIANT CacheCoherent
INVARIANT AnswerFresh
PROPERTY MutInvalidates
CHECK_DEADLOCK FALSE
