------------------------- MODULE PathData_Trace -------------------------
(* Validates traces recorded from the real parser against PathSem (C02; also used by C01 on the  *)
(* tokens of Path.d() output).  TRACE_FILE holds a JSON array of traces; a trace is an array of  *)
(* events [c, first, a, segs]: one argument group as the harness fed it, and the segments the    *)
(* real parse_path appended for it (projected to integers).  Batch idiom: tid ranges over the    *)
(* traces in Init; a trace is accepted iff every event is matched by the Step action.            *)
EXTENDS PathSem, TLC, Json, IOUtils
Traces == JsonDeserialize(IOEnv.TRACE_FILE)
VARIABLES tid, l, st
vars == <<tid, l, st>>
Init == tid \in 1..Len(Traces) /\ l = 1 /\ st = St0
Ev == Traces[tid][l]
Step == LET nst == Group(st, Ev.c, Ev.first, Ev.a)
            new == SubSeq(nst.segs, Len(st.segs) + 1, Len(nst.segs))
        IN /\ Ev.c \in Letters
           /\ new = Ev.segs                 \* the code produced exactly the segments the spec prescribes
           /\ st' = nst
Next == l <= Len(Traces[tid]) /\ l' = l + 1 /\ UNCHANGED tid /\ Step
Spec == Init /\ [][Next]_vars
PenAtEnd == IF st.last \in {"M","Z",""} THEN st.cur = st.sub
            ELSE st.segs # <<>> /\ st.cur = End(st.segs[Len(st.segs)])
Progress == l = Len(Traces[tid]) + 1 => PrintT(<<"ACCEPT", tid>>)
Reach == PrintT(<<"AT", tid, l>>)
=============================================================================
