---------------------------- MODULE PathSem ----------------------------
(* Reference semantics of SVG path data (SVG 1.1 section 8.3 / SVG 2 section 9.3), written from  *)
(* the specification text, not from svgpathtools.  Pure operators only: the interpreter state    *)
(* is a record, one call of Group = one argument group of one command letter.  Shared by         *)
(*   PathData        (programs over the 20 letters, TLC enumerates them; C02)                    *)
(*   PathData_Trace  (validates events recorded from the real parser; C02, C01)                  *)
(*   PathD           (serialiser design + round-trip theorem; C01)                               *)
(* Points are integer pairs <<x,y>>.  Segments:                                                  *)
(*   <<"L",s,e>>  <<"Q",s,c,e>>  <<"C",s,c1,c2,e>>  <<"A",s,r,rot,fa,fs,e>>  (r = <<rx,ry>>)      *)
EXTENDS Integers, Sequences

Upper(c) == CASE c="m"->"M" [] c="l"->"L" [] c="h"->"H" [] c="v"->"V" [] c="c"->"C" [] c="s"->"S"
              [] c="q"->"Q" [] c="t"->"T" [] c="a"->"A" [] c="z"->"Z" [] OTHER -> c
Lower(c) == CASE c="M"->"m" [] c="L"->"l" [] c="H"->"h" [] c="V"->"v" [] c="C"->"c" [] c="S"->"s"
              [] c="Q"->"q" [] c="T"->"t" [] c="A"->"a" [] c="Z"->"z" [] OTHER -> c
IsAbs(c) == c = Upper(c)
Letters == {"M","m","L","l","H","h","V","v","C","c","S","s","Q","q","T","t","A","a","Z","z"}

Add(p,q) == <<p[1]+q[1], p[2]+q[2]>>
Sub2(p,q) == <<p[1]-q[1], p[2]-q[2]>>
Kind(s) == s[1]
Start(s) == s[2]
End(s) == s[Len(s)]

(* interpreter state.  last = effective upper-case letter of the previous group ("" initially). *)
St0 == [cur |-> <<0,0>>, sub |-> <<0,0>>, last |-> "", segs |-> <<>>, closed |-> FALSE]

(* The effective command of a group: after a moveto, further argument groups without a letter   *)
(* are implicit lineto commands of the same absoluteness (SVG 1.1 8.3.2).                        *)
Eff(c, first) == IF Upper(c) = "M" /\ ~first THEN "L" ELSE Upper(c)

(* First control point of S (resp. control point of T): the reflection of the previous segment's *)
(* last control point about the current point if the previous command was C/S (resp. Q/T);      *)
(* otherwise the current point (SVG 1.1 8.3.6, 8.3.7).                                           *)
ReflC(st) == IF st.last \in {"C","S"} THEN Sub2(Add(st.cur, st.cur), st.segs[Len(st.segs)][4]) ELSE st.cur
ReflQ(st) == IF st.last \in {"Q","T"} THEN Sub2(Add(st.cur, st.cur), st.segs[Len(st.segs)][3]) ELSE st.cur

(* Arguments a of a group, by effective command:                                                 *)
(*   M L T : <<p>>      H V : <<n>>      C : <<p1,p2,p3>>     S Q : <<p1,p2>>                     *)
(*   A : <<r, rot, fa, fs, p>>           Z : <<>>                                                *)
Group(st, c, first, a) ==
  LET u == Eff(c, first)
      abs == IsAbs(c)
      Rel(p) == IF abs THEN p ELSE Add(st.cur, p)
      seg(s) == [st EXCEPT !.segs = Append(st.segs, s), !.cur = End(s), !.last = u]
  IN CASE u = "M" -> [st EXCEPT !.cur = Rel(a[1]), !.sub = Rel(a[1]), !.last = "M"]
       [] u = "L" -> seg(<<"L", st.cur, Rel(a[1])>>)
       [] u = "H" -> seg(<<"L", st.cur, <<IF abs THEN a[1] ELSE st.cur[1] + a[1], st.cur[2]>> >>)
       [] u = "V" -> seg(<<"L", st.cur, <<st.cur[1], IF abs THEN a[1] ELSE st.cur[2] + a[1]>> >>)
       [] u = "C" -> seg(<<"C", st.cur, Rel(a[1]), Rel(a[2]), Rel(a[3])>>)
       [] u = "S" -> seg(<<"C", st.cur, ReflC(st), Rel(a[1]), Rel(a[2])>>)
       [] u = "Q" -> seg(<<"Q", st.cur, Rel(a[1]), Rel(a[2])>>)
       [] u = "T" -> seg(<<"Q", st.cur, ReflQ(st), Rel(a[1])>>)
       [] u = "A" -> IF a[1][1] = 0 \/ a[1][2] = 0          \* zero radius: straight line (F.6.2)
                       THEN seg(<<"L", st.cur, Rel(a[5])>>)
                       ELSE seg(<<"A", st.cur, a[1], a[2], a[3], a[4], Rel(a[5])>>)
       [] u = "Z" -> [st EXCEPT !.segs = IF st.cur = st.sub THEN st.segs
                                          ELSE Append(st.segs, <<"L", st.cur, st.sub>>),
                                !.cur = st.sub, !.last = "Z", !.closed = TRUE]

(* a program = sequence of groups [c, first, a] *)
RECURSIVE Interp(_, _)
Interp(st, gs) == IF gs = <<>> THEN st ELSE Interp(Group(st, Head(gs).c, Head(gs).first, Head(gs).a), Tail(gs))
Parse(gs) == Interp(St0, gs).segs

(* ---- program transformations that must not change the meaning ("different spellings") ---- *)
(* absolute form of one group in state st *)
AbsGroup(st, g) ==
  LET u == Eff(g.c, g.first)
      R(p) == IF IsAbs(g.c) THEN p ELSE Add(st.cur, p)
      a == g.a
      na == CASE u \in {"M","L","T"} -> <<R(a[1])>>
              [] u = "H" -> <<IF IsAbs(g.c) THEN a[1] ELSE st.cur[1] + a[1]>>
              [] u = "V" -> <<IF IsAbs(g.c) THEN a[1] ELSE st.cur[2] + a[1]>>
              [] u = "C" -> <<R(a[1]), R(a[2]), R(a[3])>>
              [] u \in {"S","Q"} -> <<R(a[1]), R(a[2])>>
              [] u = "A" -> <<a[1], a[2], a[3], a[4], R(a[5])>>
              [] OTHER -> <<>>
  IN [c |-> Upper(g.c), first |-> g.first, a |-> na]
RECURSIVE Absolutise(_, _)
Absolutise(st, gs) == IF gs = <<>> THEN <<>>
                      ELSE <<AbsGroup(st, Head(gs))>> \o Absolutise(Group(st, Head(gs).c, Head(gs).first, Head(gs).a), Tail(gs))
(* every implicit group written with its explicit letter (the implicit L after M becomes L/l) *)
ExplicitGroup(g) == [c |-> IF Upper(g.c) = "M" /\ ~g.first THEN (IF IsAbs(g.c) THEN "L" ELSE "l") ELSE g.c,
                     first |-> TRUE, a |-> g.a]
Explicit(gs) == [i \in 1..Len(gs) |-> ExplicitGroup(gs[i])]
(* H/V written as L in absolute form *)
RECURSIVE HVtoL(_, _)
HVtoL(st, gs) ==
  IF gs = <<>> THEN <<>>
  ELSE LET g == Head(gs)
           u == Eff(g.c, g.first)
           nst == Group(st, g.c, g.first, g.a)
           ng == IF u \in {"H","V"} THEN [c |-> "L", first |-> TRUE, a |-> <<nst.cur>>] ELSE ExplicitGroup(g)
       IN <<ng>> \o HVtoL(nst, Tail(gs))
(* S/T written as full C/Q with the reflected control point spelled out, absolute *)
RECURSIVE STtoCQ(_, _)
STtoCQ(st, gs) ==
  IF gs = <<>> THEN <<>>
  ELSE LET g == Head(gs)
           u == Eff(g.c, g.first)
           nst == Group(st, g.c, g.first, g.a)
           s == nst.segs[Len(nst.segs)]
           ng == IF u = "S" THEN [c |-> "C", first |-> TRUE, a |-> <<s[3], s[4], s[5]>>]
                 ELSE IF u = "T" THEN [c |-> "Q", first |-> TRUE, a |-> <<s[3], s[4]>>]
                 ELSE ExplicitGroup(g)
       IN <<ng>> \o STtoCQ(nst, Tail(gs))
=============================================================================
