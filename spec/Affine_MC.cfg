SPECIFICATION Spec
CONSTANTS MaxOps = 3
INVARIANT ListIsProduct
INVARIANT Assoc
INVARIANT Invertible
INVARIANT RotateAboutCentreFixesCentre
INVARIANT AffineInvariance
PROPERTY DetMultiplicative
CHECK_DEADLOCK FALSE
