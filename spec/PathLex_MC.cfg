SPECIFICATION Spec
CONSTANTS MaxLen = 5
  Mode = "nums"
INVARIANT LexIsFold
INVARIANT ReTokenise
PROPERTY TokMonotone
PROPERTY TokEndsOnly
CHECK_DEADLOCK FALSE
