------------------------------- MODULE Smooth -------------------------------
(* The joint loop of smoothed_path (C20).  A continuous path of N segments (kinds "L" / "C"); the  *)
(* joint after segment k is smooth or a kink; for a closed path joint N is the closing joint.       *)
(* The output is a sequence of items [k, s, e]: k = index of the original segment the item comes    *)
(* from (0 for an inserted elbow), s / e = abstract start and end points:                           *)
(*   <<"J", j>> the joint j itself (j = 0 is the start of an open path, N its end),                 *)
(*   <<"A", j>> a point on the incoming segment a little before joint j,                            *)
(*   <<"B", j>> a point on the outgoing segment a little after joint j.                             *)
(* One loop iteration = one action, as in the code: the joint is either already smooth (the next    *)
(* segment is appended untouched) or fixed by one of the three elbow constructions (line-line:      *)
(* both neighbours trimmed; line-curve / curve-line: only the line is trimmed and the elbow ends     *)
(* on the joint; curve-curve: both trimmed); the closing joint rewrites the first item.             *)
EXTENDS Integers, Sequences, FiniteSets, TLC, Json
CONSTANTS MaxN
VARIABLES kinds, kink, closed, out, idx, pc
vars == <<kinds, kink, closed, out, idx, pc>>
N == Len(kinds)
Item(k, s, e) == [k |-> k, s |-> s, e |-> e]
Orig(k) == Item(k, <<"J", k-1>>, <<"J", IF closed /\ k = N THEN 0 ELSE k>>)
Init == /\ \E n \in 1..MaxN : kinds \in [1..n -> {"L", "C"}]
        /\ closed \in BOOLEAN
        /\ kink \in [1..(IF closed THEN Len(kinds) ELSE Len(kinds) - 1) -> BOOLEAN]
        /\ (closed => Len(kinds) >= 2)
        /\ out = <<Orig(1)>> /\ idx = 1 /\ pc = IF Len(kinds) = 1 THEN "single" ELSE "loop"
Last == out[Len(out)]
JPt(j) == <<"J", IF closed /\ j = N THEN 0 ELSE j>>
Closing == idx = N                               \* the joint between the last and the first segment
Seg1 == IF Closing THEN out[1] ELSE Orig(idx + 1)
K0 == kinds[idx]
K1 == kinds[IF Closing THEN 1 ELSE idx + 1]
SetFirst(o, x) == [o EXCEPT ![1] = x]
Put(new0, elbows, new1) ==
   LET base == SubSeq(out, 1, Len(out) - 1) \o <<new0>> \o elbows
   IN out' = (IF Closing THEN SetFirst(base, new1) ELSE Append(base, new1))
Advance == /\ idx' = idx + 1
           /\ pc' = (IF idx + 1 > (IF closed THEN N ELSE N - 1) THEN "done" ELSE "loop")
           /\ UNCHANGED <<kinds, kink, closed>>
AlreadySmooth == /\ pc = "loop" /\ ~kink[idx]
                 /\ out' = (IF Closing THEN out ELSE Append(out, Seg1))
                 /\ Advance
FixLL == /\ pc = "loop" /\ kink[idx] /\ K0 = "L" /\ K1 = "L"
         /\ Put([Last EXCEPT !.e = <<"A", idx>>], <<Item(0, <<"A", idx>>, <<"B", idx>>)>>, [Seg1 EXCEPT !.s = <<"B", idx>>])
         /\ Advance
FixLC == /\ pc = "loop" /\ kink[idx] /\ K0 = "L" /\ K1 = "C"
         /\ Put([Last EXCEPT !.e = <<"A", idx>>], <<Item(0, <<"A", idx>>, JPt(idx))>>, Seg1)
         /\ Advance
FixCL == /\ pc = "loop" /\ kink[idx] /\ K0 = "C" /\ K1 = "L"
         /\ Put(Last, <<Item(0, JPt(idx), <<"B", idx>>)>>, [Seg1 EXCEPT !.s = <<"B", idx>>])
         /\ Advance
FixCC == /\ pc = "loop" /\ kink[idx] /\ K0 = "C" /\ K1 = "C"
         /\ Put([Last EXCEPT !.e = <<"A", idx>>], <<Item(0, <<"A", idx>>, <<"B", idx>>)>>, [Seg1 EXCEPT !.s = <<"B", idx>>])
         /\ Advance
Next == AlreadySmooth \/ FixLL \/ FixLC \/ FixCL \/ FixCC
Spec == Init /\ [][Next]_vars
Done == pc \in {"done", "single"}
\* ---------- what the property demands of the result
Continuous == Done => \A i \in 1..(Len(out) - 1) : out[i].e = out[i+1].s
StaysClosed == (Done /\ closed) => out[Len(out)].e = out[1].s
EndpointsKept == (Done /\ ~closed) => out[1].s = <<"J", 0>> /\ out[Len(out)].e = <<"J", N>>
SingleUnchanged == pc = "single" => out = <<Orig(1)>>
(* a joint of the result is a kink only if two items that come from original segments meet at an original kink *)
JointOK(x, y) == ~(x.k # 0 /\ y.k # 0 /\ x.e[1] = "J" /\ (LET j == IF x.k = N /\ closed THEN N ELSE x.k IN j \in DOMAIN kink /\ kink[j]))
NoKinks == Done => /\ \A i \in 1..(Len(out) - 1) : JointOK(out[i], out[i+1])
                   /\ (closed => JointOK(out[Len(out)], out[1]))
(* segments next to a smooth joint keep that end *)
SmoothUntouched == Done => \A j \in DOMAIN kink : ~kink[j] =>
                      \E i \in 1..Len(out) : out[i].k = j /\ out[i].e = JPt(j)
EverySegmentKept == Done => \A k \in 1..N : \E i \in 1..Len(out) : out[i].k = k
Dump == Done => PrintT(ToJson([kinds |-> kinds, kink |-> kink, closed |-> closed, out |-> out]))
=============================================================================
