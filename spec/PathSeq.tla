----------------------------- MODULE PathSeq -----------------------------
(* Path as a mutable sequence with hidden caches (C16, and the cache side of C05).               *)
(*                                                                                               *)
(* State = the segment list plus the four caches of svgpathtools.Path:                           *)
(*    cLen   (_length : total arc length or None)                                                *)
(*    cFrac  (_lengths: per-segment lengths as they were when cLen was computed)                 *)
(*    cStart (_start), cEnd (_end)                                                               *)
(* Segments are lines <<a,b>> on the x axis with integer end points; a = b is a zero-length      *)
(* line.  One action per mutator of the MutableSequence interface and per query that touches a   *)
(* cache.  Variant = "correct" is the design the property demands (every mutator invalidates    *)
(* what it must); Variant = "code" reproduces the pinned tree (start/end setters keep the       *)
(* cached length) and is used by the self-test to show CacheCoherent is not vacuous.             *)
(* `hist` records the operations (exported as one JSON behaviour per terminal state and          *)
(* replayed on a real Path); it is hidden from the exhaustive run by VIEW.                       *)
EXTENDS Integers, Sequences, FiniteSets, TLC, Json
CONSTANTS MaxLen,      \* max number of segments
          MaxOps,      \* history length
          Pool,        \* segments that mutators may insert
          Pts,         \* points that start/end may be set to
          Variant

None == -1
Pool4 == {<<0,1>>, <<1,3>>, <<3,3>>, <<4,0>>}     \* cfg files cannot write tuples
Pool3 == {<<0,1>>, <<1,3>>, <<3,3>>}
Pool2 == {<<0,2>>, <<2,3>>}
Pts3 == {0, 2, 5}
Pts2 == {1, 4}
Abs(x) == IF x < 0 THEN -x ELSE x
SegLen(s) == Abs(s[2] - s[1])
RECURSIVE Sum(_)
Sum(q) == IF q = <<>> THEN 0 ELSE SegLen(Head(q)) + Sum(Tail(q))
Lens(q) == [k \in 1..Len(q) |-> SegLen(q[k])]
FreshStart(q) == IF q = <<>> THEN None ELSE q[1][1]
FreshEnd(q) == IF q = <<>> THEN None ELSE q[Len(q)][2]

VARIABLES segs, cLen, cFrac, cStart, cEnd, hist
vars == <<segs, cLen, cFrac, cStart, cEnd, hist>>
View == <<segs, cLen, cFrac, cStart, cEnd, Len(hist)>>

Init == /\ segs \in {<<>>} \cup { <<s>> : s \in Pool } \cup { <<s, t>> : s \in Pool, t \in Pool }
        /\ cLen = None /\ cFrac = <<>>
        /\ cStart = FreshStart(segs) /\ cEnd = FreshEnd(segs)
        /\ hist = <<[op |-> "Init", after |-> segs]>>
Log(e) == hist' = Append(hist, e @@ ("after" :> segs'))
More == Len(hist) <= MaxOps

(* every mutator of the sequence: new content q; length cache dropped, start/end recomputed *)
Mut(q) == /\ segs' = q /\ cLen' = None /\ UNCHANGED cFrac
          /\ cStart' = FreshStart(q) /\ cEnd' = FreshEnd(q)
InsertAt(q, i, s) == SubSeq(q, 1, i-1) \o <<s>> \o SubSeq(q, i, Len(q))
RemoveAt(q, i) == SubSeq(q, 1, i-1) \o SubSeq(q, i+1, Len(q))
RevSeq(q) == [k \in 1..Len(q) |-> q[Len(q)+1-k]]
Repl(q, i, j, r) == SubSeq(q, 1, i-1) \o r \o SubSeq(q, j, Len(q))      \* q[i-1:j-1] = r (1-based, j exclusive)
Small == {<<>>} \cup { <<s>> : s \in Pool } \cup { <<s, t>> : s \in Pool, t \in Pool }

SetItem == More /\ \E i \in 1..Len(segs), s \in Pool :
             Mut([segs EXCEPT ![i] = s]) /\ Log([op |-> "SetItem", i |-> i, s |-> s])
SetSlice == More /\ \E i \in 1..(Len(segs)+1) : \E j \in i..(Len(segs)+1) : \E r \in Small :
             /\ Len(segs) - (j - i) + Len(r) <= MaxLen
             /\ Mut(Repl(segs, i, j, r)) /\ Log([op |-> "SetSlice", i |-> i, j |-> j, r |-> r])
Insert == More /\ Len(segs) < MaxLen /\ \E i \in 1..(Len(segs)+1), s \in Pool :
             Mut(InsertAt(segs, i, s)) /\ Log([op |-> "Insert", i |-> i, s |-> s])
AppendOp == More /\ Len(segs) < MaxLen /\ \E s \in Pool :
             Mut(Append(segs, s)) /\ Log([op |-> "Append", s |-> s])
Extend == More /\ \E r \in Small : /\ Len(r) = 2 /\ Len(segs) + 2 <= MaxLen
                                   /\ Mut(segs \o r) /\ Log([op |-> "Extend", r |-> r])
DelItem == More /\ \E i \in 1..Len(segs) : Mut(RemoveAt(segs, i)) /\ Log([op |-> "DelItem", i |-> i])
DelSlice == More /\ Len(segs) >= 2 /\ \E i \in 1..Len(segs) : \E j \in (i+2)..(Len(segs)+1) :
             Mut(Repl(segs, i, j, <<>>)) /\ Log([op |-> "DelSlice", i |-> i, j |-> j])
Pop == More /\ segs # <<>> /\ \E i \in {1, Len(segs)} : Mut(RemoveAt(segs, i)) /\ Log([op |-> "Pop", i |-> i])
Remove == More /\ \E s \in Pool \cup { segs[n] : n \in 1..Len(segs) } : /\ \E i \in 1..Len(segs) : segs[i] = s
            /\ LET i == CHOOSE i \in 1..Len(segs) : segs[i] = s /\ \A m \in 1..(i-1) : segs[m] # s
               IN Mut(RemoveAt(segs, i)) /\ Log([op |-> "Remove", s |-> s])
Reverse == More /\ Len(segs) >= 2 /\ Mut(RevSeq(segs)) /\ Log([op |-> "Reverse"])
(* start / end setters move the end point of the first / last segment in place *)
SetStart == More /\ segs # <<>> /\ \E p \in Pts :
              /\ segs' = [segs EXCEPT ![1] = <<p, segs[1][2]>>]
              /\ cStart' = p /\ UNCHANGED <<cEnd, cFrac>>
              /\ cLen' = (IF Variant = "code" THEN cLen ELSE None)
              /\ Log([op |-> "SetStart", p |-> p])
SetEnd == More /\ segs # <<>> /\ \E p \in Pts :
              /\ segs' = [segs EXCEPT ![Len(segs)] = <<segs[Len(segs)][1], p>>]
              /\ cEnd' = p /\ UNCHANGED <<cStart, cFrac>>
              /\ cLen' = (IF Variant = "code" THEN cLen ELSE None)
              /\ Log([op |-> "SetEnd", p |-> p])
(* queries that fill the length cache (length, point, T2t, t2T all call _calc_lengths) *)
Calc == IF cLen # None THEN UNCHANGED <<cLen, cFrac>> ELSE (cLen' = Sum(segs) /\ cFrac' = Lens(segs))
QLength == More /\ Calc /\ UNCHANGED <<segs, cStart, cEnd>> /\ Log([op |-> "QLength"])
QPoint  == More /\ segs # <<>> /\ Calc /\ UNCHANGED <<segs, cStart, cEnd>> /\ Log([op |-> "QPoint"])
(* the start/end getters re-read the segment when the cached value is falsy (None or 0) *)
QStartEnd == More /\ UNCHANGED <<segs, cLen, cFrac>>
             /\ cStart' = (IF cStart \in {None, 0} THEN FreshStart(segs) ELSE cStart)
             /\ cEnd' = (IF cEnd \in {None, 0} THEN FreshEnd(segs) ELSE cEnd)
             /\ Log([op |-> "QStartEnd"])
Next == SetItem \/ SetSlice \/ Insert \/ AppendOp \/ Extend \/ DelItem \/ DelSlice \/ Pop \/ Remove \/ Reverse
        \/ SetStart \/ SetEnd \/ QLength \/ QPoint \/ QStartEnd
Spec == Init /\ [][Next]_vars

\* ---------- what the property demands
(* every cache that holds a value holds the value a freshly built object would compute *)
CacheCoherent == /\ cLen # None => cLen = Sum(segs) /\ cFrac = Lens(segs)
                 /\ cStart = FreshStart(segs) /\ cEnd = FreshEnd(segs)
(* answers computed from the caches = answers of a fresh object *)
AnsLength == IF cLen # None THEN cLen ELSE Sum(segs)
AnswerFresh == AnsLength = Sum(segs)
TypeOK == /\ Len(segs) <= MaxLen + 2 /\ cLen \in {None} \cup (0..100)
          /\ \A i \in 1..Len(segs) : Len(segs[i]) = 2
(* action property: a mutator never leaves a length cache that was computed for other content *)
MutInvalidates == [][segs' # segs => cLen' = None]_vars
Terminal == Len(hist) = MaxOps + 1
Dump == Terminal => PrintT(ToJson(hist))
=============================================================================
