SPECIFICATION Spec
CONSTANTS Dirs <- DirsA
  Others <- OthersA
INVARIANT TaylorAt0
INVARIANT TaylorAt1
INVARIANT NonDegenerate
CHECK_DEADLOCK FALSE
