---------------------------- MODULE Roots_Trace ----------------------------
(* Validates recorded runs of the real polyroots01 (C19): each trace is one record [roots, out]:  *)
(* the root list in the order numpy.roots produced it (abstracted to clusters and kinds) and the  *)
(* survivor mask the code returned over the filtered list.  The trace is accepted iff the loop of *)
(* Roots terminates and every simple admissible root survived (SimpleOnce on the real output).    *)
EXTENDS Roots, IOUtils
Traces == JsonDeserialize(IOEnv.TRACE_FILE)
VARIABLE tid
tvars == <<roots, i, j, idx, dups, pc, tid>>
TInit == /\ tid \in 1..Len(Traces) /\ roots = Traces[tid][1].roots
         /\ i = 1 /\ j = 2 /\ idx = 0 /\ dups = {} /\ pc = "loop"
TNext == Next /\ UNCHANGED tid
TSpec == TInit /\ [][TNext]_tvars
RealOut == Traces[tid][1].out
RealSimpleOnce == /\ Len(RealOut) = M
                  /\ \A p \in 1..M : Simple(p) => RealOut[p] = 1
Progress == (pc = "done" /\ RealSimpleOnce) => PrintT(<<"ACCEPT", tid>>)
=============================================================================
