------------------------------- MODULE Crop -------------------------------
(* Path.cropped(T0, T1) as a state machine (C09): which pieces of which segments make up the crop.   *)
(* A path is a sequence of segment lengths (positive integers; uniform speed, so T is the arc-length *)
(* fraction); T0, T1 are numerators over D = 2 * total length (every joint and every segment          *)
(* midpoint is on the grid).  Local parameters are rationals <<num, den>>.                            *)
(*                                                                                                   *)
(* Actions follow the code (svgpathtools/path.py:Path.cropped):                                      *)
(*   Locate     T2t(T1) / T2t(T0) with the two normalisations (t1 = 0 -> end of the previous segment, *)
(*              t0 = 1 -> start of the next one, indices modulo n) and the special cases T1 = 1,       *)
(*              T0 = 0, "T0 = 1 on a closed path";                                                    *)
(*   OnePiece   T0 < T1 on one segment;                                                               *)
(*   First      seg0.cropped(t0, 1);                                                                  *)
(*   Middle     one turn of the loops that append whole segments (Variant "code": range(i0+1, n) then  *)
(*              range(0, i1) for a wrap-around crop, range(i0+1, i1) otherwise; Variant "correct": walk *)
(*              from i0+1 to i1 modulo n);                                                             *)
(*   Last       seg1.cropped(0, t1) unless t1 = 0.                                                    *)
(* Expected is the declarative answer: the parts of the segments that lie between T0 and T1 along the  *)
(* direction of travel (through the closing joint if T1 < T0), without empty pieces.                   *)
EXTENDS Integers, Sequences, FiniteSets, TLC, Json
CONSTANTS MaxN, LenSet, Variant
LenA == {1, 2}
LenB == {1, 2, 5}
LenC == {1, 3}
RECURSIVE SumTo(_, _)
SumTo(s, k) == IF k = 0 THEN 0 ELSE s[k] + SumTo(s, k - 1)          \* lens[1] + .. + lens[k]
VARIABLES lens, closed, T0, T1, phase, i0, t0, i1, t1, i, out, wrapped, err
vars == <<lens, closed, T0, T1, phase, i0, t0, i1, t1, i, out, wrapped, err>>
N == Len(lens)
Tot == SumTo(lens, N)
D == 2 * Tot
\* rationals
RECURSIVE GCD(_, _)
GCD(a, b) == IF b = 0 THEN a ELSE GCD(b, a % b)
Norm(q) == IF q[1] = 0 THEN <<0, 1>> ELSE LET g == GCD(q[1], q[2]) IN <<q[1] \div g, q[2] \div g>>
Zero == <<0, 1>>
One == <<1, 1>>
\* T2t: the first segment whose cumulative end reaches T (0-based index), local parameter (T - start) / length
SegOf(T) == CHOOSE k \in 0..(N - 1) : 2 * SumTo(lens, k + 1) >= T /\ \A m \in 0..(k - 1) : 2 * SumTo(lens, m + 1) < T
LocalOf(T) == LET k == SegOf(T) IN Norm(<<T - 2 * SumTo(lens, k), 2 * lens[k + 1]>>)
Piece(k, a, b) == [k |-> k, a |-> a, b |-> b]
Init == /\ \E n \in 1..MaxN : lens \in [1..n -> LenSet]
        /\ closed \in BOOLEAN
        /\ T0 \in 0..(2 * SumTo(lens, Len(lens))) /\ T1 \in 0..(2 * SumTo(lens, Len(lens)))
        /\ T0 # T1 /\ ~(T0 = 2 * SumTo(lens, Len(lens)) /\ T1 = 0)          \* the assertions of the code
        /\ (T1 < T0 => closed)                                               \* otherwise ValueError (not modelled)
        /\ phase = "locate" /\ i0 = 0 /\ t0 = Zero /\ i1 = 0 /\ t1 = Zero /\ i = 0 /\ out = <<>> /\ wrapped = FALSE /\ err = FALSE
\* effective arguments after the special case "T0 = 1 and 0 < T1 < 1 on a closed path: cropped(0, T1)"  (and, in the design, its mirror image for T1 = 0)
E0 == IF T0 = D /\ T1 > 0 /\ T1 < D /\ closed THEN 0 ELSE T0
E1 == IF Variant = "correct" /\ T1 = 0 /\ T0 > 0 /\ T0 < D /\ closed THEN D ELSE T1
Locate == /\ phase = "locate"
          /\ LET k1 == SegOf(E1)
                 l1 == LocalOf(E1)
                 k0 == SegOf(E0)
                 l0 == LocalOf(E0)
             IN /\ IF E1 = D THEN i1' = N - 1 /\ t1' = One
                   ELSE IF l1 = Zero THEN i1' = (k1 - 1 + N) % N /\ t1' = One
                   ELSE i1' = k1 /\ t1' = l1
                /\ IF E0 = 0 THEN i0' = 0 /\ t0' = Zero
                   ELSE IF l0 = One THEN i0' = (k0 + 1) % N /\ t0' = Zero
                   ELSE i0' = k0 /\ t0' = l0
          /\ phase' = "first"
          /\ UNCHANGED <<lens, closed, T0, T1, i, out, wrapped, err>>
OnePiece == /\ phase = "first" /\ E0 < E1 /\ i0 = i1
            /\ out' = <<Piece(i0, t0, t1)>> /\ phase' = "done"
            /\ UNCHANGED <<lens, closed, T0, T1, i0, t0, i1, t1, i, wrapped, err>>
First == /\ phase = "first" /\ ~(E0 < E1 /\ i0 = i1)
         /\ out' = <<Piece(i0, t0, One)>>
         /\ i' = IF Variant = "correct" THEN (i0 + 1) % N ELSE i0 + 1
         /\ wrapped' = FALSE
         /\ phase' = "middle"
         /\ UNCHANGED <<lens, closed, T0, T1, i0, t0, i1, t1, err>>
\* Variant "code": for i in range(i0+1, n) then range(0, i1)   (wrap-around)   /   for i in range(i0+1, i1)   (otherwise)
MiddleCode == /\ phase = "middle" /\ Variant = "code"
              /\ IF E1 < E0
                 THEN IF ~wrapped
                      THEN IF i < N THEN out' = Append(out, Piece(i, Zero, One)) /\ i' = i + 1 /\ UNCHANGED <<wrapped, phase>>
                           ELSE i' = 0 /\ wrapped' = TRUE /\ UNCHANGED <<out, phase>>
                      ELSE IF i < i1 THEN out' = Append(out, Piece(i, Zero, One)) /\ i' = i + 1 /\ UNCHANGED <<wrapped, phase>>
                           ELSE phase' = "last" /\ UNCHANGED <<out, i, wrapped>>
                 ELSE IF i < i1 THEN out' = Append(out, Piece(i, Zero, One)) /\ i' = i + 1 /\ UNCHANGED <<wrapped, phase>>
                      ELSE phase' = "last" /\ UNCHANGED <<out, i, wrapped>>
              /\ UNCHANGED <<lens, closed, T0, T1, i0, t0, i1, t1, err>>
\* Variant "correct": walk from i0 + 1 to i1 around the path
MiddleCorrect == /\ phase = "middle" /\ Variant = "correct"
                 /\ IF i # i1 THEN out' = Append(out, Piece(i, Zero, One)) /\ i' = (i + 1) % N /\ UNCHANGED phase
                    ELSE phase' = "last" /\ UNCHANGED <<out, i>>
                 /\ UNCHANGED <<lens, closed, T0, T1, i0, t0, i1, t1, wrapped, err>>
Last == /\ phase = "last"
        /\ out' = IF t1 # Zero THEN Append(out, Piece(i1, Zero, t1)) ELSE out
        /\ phase' = "done"
        /\ UNCHANGED <<lens, closed, T0, T1, i0, t0, i1, t1, i, wrapped, err>>
Next == Locate \/ OnePiece \/ First \/ MiddleCode \/ MiddleCorrect \/ Last
Spec == Init /\ [][Next]_vars
\* ---------- the declarative answer
\* part of segment k (0-based) inside the stretch [A, B] of the T axis (numerators over D), as a piece or "none"
Start2(k) == 2 * SumTo(lens, k)
End2(k) == 2 * SumTo(lens, k + 1)
Max(a, b) == IF a > b THEN a ELSE b
Min(a, b) == IF a < b THEN a ELSE b
Overlaps(k, A, B) == Max(A, Start2(k)) < Min(B, End2(k))
Part(k, A, B) == Piece(k, Norm(<<Max(A, Start2(k)) - Start2(k), 2 * lens[k + 1]>>), Norm(<<Min(B, End2(k)) - Start2(k), 2 * lens[k + 1]>>))
RECURSIVE Stretch(_, _, _)
Stretch(k, A, B) == IF k >= N THEN <<>> ELSE (IF Overlaps(k, A, B) THEN <<Part(k, A, B)>> ELSE <<>>) \o Stretch(k + 1, A, B)
Expected == IF T0 < T1 THEN Stretch(0, T0, T1) ELSE Stretch(0, T0, D) \o Stretch(0, 0, T1)
Done == phase = "done"
CropIsExpected == Done => out = Expected
\* the transcription of the code agrees with the declarative answer except for wrap-around crops that end exactly at T1 = 0 (the defect fixed by the T1 = 0 special case)
CropIsExpectedUnlessT1Zero == (Done /\ T1 # 0) => out = Expected
\* no piece is empty and every piece is a forward part of its segment
PiecesWellFormed == \A n \in 1..Len(out) : out[n].a[1] * out[n].b[2] < out[n].b[1] * out[n].a[2] /\ out[n].k \in 0..(N - 1)
\* the total length (numerator over the common scale 2 * prod) equals the length between T0 and T1 along the travel
RECURSIVE OutLen(_)
PLen(p) == LET L == lens[p.k + 1] IN (p.b[1] * ((2 * L) \div p.b[2]) - p.a[1] * ((2 * L) \div p.a[2]))     \* 2 * length of the piece (an integer)
OutLen(n) == IF n = 0 THEN 0 ELSE PLen(out[n]) + OutLen(n - 1)
LengthIsRight == Done => OutLen(Len(out)) = (IF T0 < T1 THEN T1 - T0 ELSE D - T0 + T1)
TypeOK == phase \in {"locate", "first", "middle", "last", "done"} /\ i0 \in 0..(N - 1) /\ i1 \in 0..(N - 1)
Dump == Done => PrintT(ToJson([lens |-> lens, closed |-> closed, T0 |-> T0, T1 |-> T1, D |-> D, expected |-> Expected, out |-> out]))
=============================================================================
