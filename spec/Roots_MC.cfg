SPECIFICATION Spec
CONSTANTS MaxN = 5
  Variant = "correct"
INVARIANT SimpleOnce
INVARIANT ClusterRepresented
INVARIANT OnePerCluster
INVARIANT DupsVisited
CHECK_DEADLOCK FALSE
