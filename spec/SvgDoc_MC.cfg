SPECIFICATION Spec
CONSTANTS MaxNodes = 4
 RootTfs = {1, 2}
  ShapeKinds = {"path", "rrect", "polygon"}
  TfCount = 4
INVARIANT StackEqualsRecursive
INVARIANT PartialOK
INVARIANT TreeOK
INVARIANT ShapesClosed
CHECK_DEADLOCK FALSE
