------------------------------ MODULE Rejoin ------------------------------
(* The re-joining pass of transform_segments_together (C10): every segment of a path is mapped    *)
(* independently, so the images of a shared end point may differ by rounding (abstractly: each    *)
(* image is one of two values); the pass then copies the next segment's start into this segment's *)
(* end for every joint that coincided before.  Joint i sits between segment i and segment i+1,    *)
(* joint N is the closing joint (segment N -> segment 1).  Variant "code": the loop runs over     *)
(* joints() which yields only N-1 pairs, so the closing joint is never re-joined.                  *)
EXTENDS Integers, Sequences, TLC, Json
CONSTANTS N, Variant
VARIABLES joined, sImg, eImg, i, pc
vars == <<joined, sImg, eImg, i, pc>>
Nx(k) == (k % N) + 1
Init == /\ joined \in [1..N -> BOOLEAN] /\ sImg \in [1..N -> {0,1}] /\ eImg \in [1..N -> {0,1}]
        /\ i = 1 /\ pc = "loop"
Last == IF Variant = "code" THEN N - 1 ELSE N
Step == /\ pc = "loop" /\ i <= Last
        /\ eImg' = IF joined[i] THEN [eImg EXCEPT ![i] = sImg[Nx(i)]] ELSE eImg
        /\ i' = i + 1 /\ UNCHANGED <<joined, sImg, pc>>
Done == pc = "loop" /\ i > Last /\ pc' = "done" /\ UNCHANGED <<joined, sImg, eImg, i>>
Next == Step \/ Done
Spec == Init /\ [][Next]_vars
JointsKept == pc = "done" => \A k \in 1..N : joined[k] => eImg[k] = sImg[Nx(k)]
StartsUntouched == [][sImg' = sImg]_vars
=============================================================================
