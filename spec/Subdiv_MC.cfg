SPECIFICATION Spec
CONSTANTS K = 6
 E = 1
 MaxIts = 6
 Variant = "correct"
 Lat <- Lat2
 TolMerge = "same"
 Ins <- Inputs
INVARIANT TypeOK
INVARIANT DepthOK
INVARIANT NoLoss
INVARIANT Once
INVARIANT NoGhostParallel
INVARIANT Sound
CHECK_DEADLOCK FALSE
