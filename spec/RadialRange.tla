---------------------------- MODULE RadialRange ----------------------------
(* Distance from a query point to a Bezier segment (C13) on the integer lattice.                  *)
(* seg = sequence of 2..4 integer control points, z = integer query point.  The walk over the      *)
(* witnesses t = j/W evaluates the exact squared distance D2(j) = W^(2n) |B(j/W) - z|^2.  For a     *)
(* line the closest point is known in closed form (orthogonal projection clamped to [0,1]); for     *)
(* curves the model provides what *must* hold of any correct answer: it can be no farther than any  *)
(* witness (for the minimum) / no closer (for the maximum), it is 0 when z is on the curve, and an  *)
(* end point when the distance is monotone along the control polygon's direction.                   *)
EXTENDS Integers, Sequences, FiniteSets, TLC, Json
CONSTANTS W, Segs, Pts
SegsA == { << <<0,0>>, <<3,4>> >>, << <<2,-1>>, <<-3,0>> >>, << <<1,1>>, <<1,-5>> >>,
           << <<-2,2>>, <<0,-2>>, <<2,2>> >>,                                \* parabola y = x^2/2: centre of curvature (0,1), focus (0,1/2)
           << <<0,0>>, <<2,3>>, <<5,0>> >>, << <<1,1>>, <<1,1>>, <<4,-2>> >>,
           << <<1,1>>, <<0,4>>, <<4,4>>, <<5,-1>> >>, << <<0,0>>, <<3,0>>, <<3,0>>, <<0,3>> >>,
           << <<0,0>>, <<4,0>>, <<-4,0>>, <<0,0>> >>,                        \* closed loop folded on the x axis
           << <<-3,0>>, <<-1,4>>, <<1,-4>>, <<3,0>> >> }                     \* S curve through the origin at t = 1/2
PtsA == { <<0,1>>, <<0,0>>, <<20,15>>, <<-9,2>>, <<3,4>>, <<6,8>>, <<-3,-4>>, <<1,2>>, <<2,1>>, <<5,0>>, <<0,3>>, <<1,-5>>, <<4,-2>>, <<-3,0>>, <<7,-3>> }
Sq(x) == x * x
RECURSIVE Pow(_, _)
Pow(b, e) == IF e = 0 THEN 1 ELSE b * Pow(b, e-1)
(* W^n * B(j/W), coordinate k *)
BW(P, j, k) == LET n == Len(P) - 1
                   a == j
                   b == W - j
               IN IF n = 1 THEN b * P[1][k] + a * P[2][k]
                  ELSE IF n = 2 THEN b*b*P[1][k] + 2*a*b*P[2][k] + a*a*P[3][k]
                  ELSE b*b*b*P[1][k] + 3*a*b*b*P[2][k] + 3*a*a*b*P[3][k] + a*a*a*P[4][k]
D2(P, z, j) == LET s == Pow(W, Len(P) - 1) IN Sq(BW(P, j, 1) - s * z[1]) + Sq(BW(P, j, 2) - s * z[2])
VARIABLES seg, z, j
vars == <<seg, z, j>>
Init == seg \in Segs /\ z \in Pts /\ j = 0
Step == j < W /\ j' = j + 1 /\ UNCHANGED <<seg, z>>
Next == Step
Spec == Init /\ [][Next]_vars
n == Len(seg) - 1
Scale2 == Pow(W, 2 * n)
(* line: projection parameter num/den, clamped; squared distance as a rational over den *)
LNum == (seg[2][1] - seg[1][1]) * (z[1] - seg[1][1]) + (seg[2][2] - seg[1][2]) * (z[2] - seg[1][2])
LDen == Sq(seg[2][1] - seg[1][1]) + Sq(seg[2][2] - seg[1][2])
LineT == IF LNum <= 0 THEN <<0, 1>> ELSE IF LNum >= LDen THEN <<1, 1>> ELSE <<LNum, LDen>>
(* squared distance at t = a/b on a line: |(b-a) P0 + a P1 - b z|^2 / b^2 *)
LineD2(t) == << Sq((t[2] - t[1]) * seg[1][1] + t[1] * seg[2][1] - t[2] * z[1]) + Sq((t[2] - t[1]) * seg[1][2] + t[1] * seg[2][2] - t[2] * z[2]), Sq(t[2]) >>
(* the closed form is a lower bound of every witness distance (cross multiplied) *)
LineMinIsMin == n = 1 => LineD2(LineT)[1] * Scale2 <= D2(seg, z, j) * LineD2(LineT)[2]
(* on the line the farthest point is an end point *)
LineMaxAtEnd == n = 1 => D2(seg, z, j) <= (IF D2(seg, z, 0) > D2(seg, z, W) THEN D2(seg, z, 0) ELSE D2(seg, z, W))
OnCurveAt == { i \in 0..W : D2(seg, z, i) = 0 }
WitMin == CHOOSE v \in { D2(seg, z, i) : i \in 0..W } : \A i \in 0..W : v <= D2(seg, z, i)
WitMax == CHOOSE v \in { D2(seg, z, i) : i \in 0..W } : \A i \in 0..W : v >= D2(seg, z, i)
WitnessBounds == WitMin <= D2(seg, z, j) /\ D2(seg, z, j) <= WitMax
AtStart == j = 0
Dump == j = 0 => PrintT(ToJson([seg |-> seg, z |-> z, W |-> W, d2 |-> [i \in 1..(W+1) |-> D2(seg, z, i-1)], scale2 |-> Scale2,
                                 linet |-> IF n = 1 THEN LineT ELSE <<0, 1>>, lined2 |-> IF n = 1 THEN LineD2(LineT) ELSE <<0, 1>>,
                                 oncurve |-> OnCurveAt]))
=============================================================================
