--------------------------- MODULE Bisect_Trace ---------------------------
(* Validates recorded runs of the real inv_arclength on single segments (C07).  The harness wraps  *)
(* the curve's length() so that every probe t is logged with the outcome of the two comparisons    *)
(* the loop makes, followed by the return (or the exception).  A parameter is logged as its binary *)
(* expansion 0.b1b2... without trailing zeros (t = 1 is <<2>>): the current bracket is a node of   *)
(* the dyadic tree (`path`), a regular probe must be path \o <<1>> (its midpoint), and a probe     *)
(* that equals one of the bracket's ends is the float-resolution stall, after which the run must   *)
(* return that value - exactly the discipline of Bisect.tla on its 2^P grid.                       *)
EXTENDS Integers, Sequences, TLC, Json, IOUtils
Traces == JsonDeserialize(IOEnv.TRACE_FILE)
VARIABLES tid, l, path, pc, last
vars == <<tid, l, path, pc, last>>
RECURSIVE Strip(_)
Strip(b) == IF b # <<>> /\ b[Len(b)] = 0 THEN Strip(SubSeq(b, 1, Len(b)-1)) ELSE b
(* upper end of the cell `path`: binary increment of the path; all ones (or empty) -> 1 = <<2>> *)
RECURSIVE Inc(_)
Inc(b) == IF b = <<>> THEN <<2>>
          ELSE IF b[Len(b)] = 0 THEN Append(SubSeq(b, 1, Len(b)-1), 1)
          ELSE Inc(SubSeq(b, 1, Len(b)-1))
Lo == Strip(path)
Hi == Inc(path)
Ev == Traces[tid][l]
Init == tid \in 1..Len(Traces) /\ l = 1 /\ path = <<>> /\ pc = "start" /\ last = <<>>
Adv == l <= Len(Traces[tid]) /\ l' = l + 1 /\ UNCHANGED tid
(* s = 0 -> 0 and s = L -> 1 without any probe *)
Short == /\ Adv /\ pc = "start" /\ Ev.e = "short"
         /\ Ev.bits = (IF Ev.s0 THEN <<>> ELSE <<2>>)
         /\ pc' = "done" /\ UNCHANGED <<path, last>>
Mid == /\ Adv /\ pc \in {"start", "loop"} /\ Ev.e = "probe" /\ Ev.bits = Append(path, 1)
       /\ last' = Ev.bits
       /\ IF Ev.within THEN pc' = "hit" /\ UNCHANGED path
          ELSE /\ pc' = "loop"
               /\ path' = Append(path, IF Ev.cmp < 0 THEN 1 ELSE 0)       \* t too small: keep the upper half
StallProbe == /\ Adv /\ pc = "loop" /\ Ev.e = "probe" /\ Ev.bits # Append(path, 1)
              /\ Ev.bits \in {Lo, Hi}                                     \* the midpoint rounded onto a bound
              /\ last' = Ev.bits /\ UNCHANGED path
              /\ pc' = IF Ev.within THEN "hit" ELSE "stalled"
Return == /\ Adv /\ pc \in {"hit", "stalled"} /\ Ev.e = "return" /\ Ev.bits = last
          /\ pc' = "done" /\ UNCHANGED <<path, last>>
Next == Short \/ Mid \/ StallProbe \/ Return
Spec == Init /\ [][Next]_vars
Bounded == Len(path) <= 1100                 \* a double has at most 1074 binary places
Progress == (l = Len(Traces[tid]) + 1 /\ pc = "done") => PrintT(<<"ACCEPT", tid>>)
Reach == PrintT(<<"AT", tid, l>>)
=============================================================================
