SPECIFICATION Spec
CONSTANTS MaxOps = 6
  Variant = "correct"
INVARIANT AnswerGoodEnough
CHECK_DEADLOCK FALSE
