--------------------------- MODULE PathSeq_Trace ---------------------------
(* Validates histories recorded from real svgpathtools.Path objects against PathSeq (C16).        *)
(* Event = [op, i, j, s, p, r, after, len, start, end]: the operation with its arguments, the real *)
(* segment list after it, and the real answers of length()/start/end after it.  Each event must    *)
(* be explained by the PathSeq action of that name with those arguments, the model's segment list *)
(* must equal the real one, and - the point of the property - the real answers must equal the     *)
(* answers of a fresh object, i.e. Sum(segs) / FreshStart / FreshEnd.                              *)
EXTENDS PathSeq, IOUtils
Traces == JsonDeserialize(IOEnv.TRACE_FILE)
VARIABLES tid, l
tvars == <<segs, cLen, cFrac, cStart, cEnd, hist, tid, l>>
Ev == Traces[tid][l]
TInit == /\ tid \in 1..Len(Traces) /\ l = 2
         /\ segs = Traces[tid][1].after /\ cLen = None /\ cFrac = <<>>
         /\ cStart = FreshStart(segs) /\ cEnd = FreshEnd(segs) /\ hist = <<[op |-> "Init", after |-> segs]>>
Last(q) == q[Len(q)]
ArgsMatch(h) == /\ h.op = Ev.op
                /\ ("i" \in DOMAIN h => h.i = Ev.i) /\ ("j" \in DOMAIN h => h.j = Ev.j)
                /\ ("s" \in DOMAIN h => h.s = Ev.s) /\ ("p" \in DOMAIN h => h.p = Ev.p)
                /\ ("r" \in DOMAIN h => h.r = Ev.r)
OpName == IF Ev.op = "Append" THEN "AppendOp" ELSE Ev.op
TNext == /\ l <= Len(Traces[tid]) /\ l' = l + 1 /\ UNCHANGED tid
         /\ Next
         /\ ArgsMatch(Last(hist'))
         /\ segs' = Ev.after                             \* the real object holds the model's segments
         /\ Ev.len = Sum(segs')                          \* length() answered as a fresh object would
         /\ (segs' # <<>> => Ev.start = FreshStart(segs') /\ Ev.end = FreshEnd(segs'))
TSpec == TInit /\ [][TNext]_tvars
Progress == l = Len(Traces[tid]) + 1 => PrintT(<<"ACCEPT", tid>>)
Reach == PrintT(<<"AT", tid, l>>)
=============================================================================
