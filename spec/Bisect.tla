------------------------------ MODULE Bisect ------------------------------
(* Inverse arc length by bisection (inv_arclength; C07).                                          *)
(* Parameters live on the grid i / 2^P - the float resolution in miniature: the midpoint of two   *)
(* adjacent grid points is one of them.  The curve is an arbitrary non-decreasing integer table   *)
(* len[0..2^P] (all monotone tables are explored), the target s and the tolerance tol are         *)
(* integers; tol may be below the resolution of the table, so that |s(t) - s| < tol is            *)
(* unreachable - the regime in which the pinned tree looped until "Maximum iterations".           *)
(* One action per branch of the loop body.  Variant "code": the stall exit fires only when the    *)
(* two bounds are equal (never, since the bounds only ever move to the midpoint).                 *)
EXTENDS Integers, Sequences, TLC, FiniteSets, Json
CONSTANTS P, LMax, Tols, Variant, MaxIts
G == 2^P
RECURSIVE Tables(_)
Tables(n) == IF n = 0 THEN { <<0>> }
             ELSE UNION { { Append(t, v) : v \in t[Len(t)]..LMax } : t \in Tables(n-1) }
AllTables == { t \in Tables(G) : t[G+1] > 0 }
Abs(x) == IF x < 0 THEN -x ELSE x
VARIABLES len, s, tol, lo, hi, it, pc, res
vars == <<len, s, tol, lo, hi, it, pc, res>>
L == len[G+1]
At(i) == len[i+1]
Init == /\ len \in AllTables /\ tol \in Tols /\ s \in 0..LMax /\ s <= len[G+1]
        /\ lo = 0 /\ hi = G /\ it = 0 /\ res = -1
        /\ pc = IF s = 0 THEN "ret0" ELSE IF s = len[G+1] THEN "ret1" ELSE "loop"
Ret(r) == /\ res' = r /\ pc' = "done" /\ UNCHANGED <<len, s, tol, lo, hi, it>>
Zero == pc = "ret0" /\ Ret(0)                      \* s = 0  -> t = 0
One == pc = "ret1" /\ Ret(G)                       \* s = L  -> t = 1
Mid == (lo + hi) \div 2
Stalled == Mid = lo \/ Mid = hi                    \* the midpoint is not a new parameter value
InLoop == pc = "loop" /\ it < MaxIts
Hit == /\ InLoop /\ Abs(At(Mid) - s) < tol
       /\ res' = Mid /\ pc' = "done" /\ it' = it + 1 /\ UNCHANGED <<len, s, tol, lo, hi>>
Move(nlo, nhi) == /\ lo' = nlo /\ hi' = nhi /\ it' = it + 1 /\ UNCHANGED <<len, s, tol>>
                  /\ IF (Variant = "correct" /\ Stalled) \/ nlo = nhi
                       THEN res' = Mid /\ pc' = "done"
                       ELSE res' = res /\ pc' = "loop"
GoLow  == InLoop /\ ~(Abs(At(Mid) - s) < tol) /\ At(Mid) < s /\ Move(Mid, hi)     \* t too small
GoHigh == InLoop /\ ~(Abs(At(Mid) - s) < tol) /\ At(Mid) >= s /\ Move(lo, Mid)    \* t too big
MaxOut == pc = "loop" /\ it >= MaxIts /\ pc' = "raise" /\ UNCHANGED <<len, s, tol, lo, hi, it, res>>
Next == Zero \/ One \/ Hit \/ GoLow \/ GoHigh \/ MaxOut
Spec == Init /\ [][Next]_vars
\* ---------- properties
Terminates == pc # "raise"                                        \* never "Maximum iterations reached"
FewSteps == it <= P + 2
Bracket == pc = "loop" => At(lo) <= s /\ s <= At(hi) /\ lo < hi
InRange == pc = "done" => res \in 0..G
(* accuracy: within tol, or resolution-limited: the result is an end of a unit cell that brackets s *)
Post == pc = "done" => \/ Abs(At(res) - s) < tol
                       \/ (hi - lo <= 1 /\ At(lo) <= s /\ s <= At(hi) /\ res \in {lo, hi})
                       \/ (s = 0 /\ res = 0)
                       \/ (s = L /\ res = G)
Ends == pc = "done" => (s = 0 => res = 0) /\ (s = L => res = G)
RECURSIVE RunF(_, _, _, _, _, _)
RunF(tb, ss, tl, a, b, n) ==
  LET t == (a + b) \div 2
      st == tb[t+1]
  IN IF n = 0 THEN -1
     ELSE IF Abs(st - ss) < tl THEN t
     ELSE LET na == IF st < ss THEN t ELSE a
              nb == IF st < ss THEN b ELSE t
          IN IF t = a \/ t = b \/ na = nb THEN t ELSE RunF(tb, ss, tl, na, nb, n-1)
Run(tb, ss, tl) == IF ss = 0 THEN 0 ELSE IF ss = tb[G+1] THEN G ELSE RunF(tb, ss, tl, 0, G, MaxIts)
RunAgrees == (Variant = "correct" /\ pc = "done") => res = Run(len, s, tol)
(* the result is non-decreasing in s up to the cell the search stops in: for s1 <= s2 the result for s1 is *)
(* never more than one grid cell beyond the result for s2 when both are resolution-limited                  *)
Monotone == (it = 0) => \A s1, s2 \in 0..len[G+1] : s1 <= s2 => Run(len, s1, tol) <= Run(len, s2, tol)
Dump == (pc = "done" /\ it >= 0) => PrintT(ToJson([len |-> len, s |-> s, tol |-> tol, res |-> res, it |-> it]))
=============================================================================
