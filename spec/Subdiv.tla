------------------------------- MODULE Subdiv -------------------------------
(* The subdivision loop of svgpathtools.bezier.bezier_intersections as a state machine (C11, C12).  *)
(* Both curves are straight, uniformly parameterised Bezier segments between lattice points, so     *)
(* every quantity of the loop is an exact dyadic rational: piece (k, i) of a curve is its part over  *)
(* t in [i/2^k, (i+1)/2^k]; all coordinates are scaled by S = 2^(K+1), K the deepest level explored. *)
(*                                                                                                  *)
(* One action per critical section of the code:                                                     *)
(*   Visit      one turn of `for pair in pair_list`: the two bounding boxes, boxes_intersect, the     *)
(*              "both boxes small" test (box_area < tol_deC), acceptance into intersection_list via  *)
(*              the approximate point set, the loop that removes every pair sharing a piece with the *)
(*              accepted one *from the list being iterated* (Python list iteration by index: the     *)
(*              element after a removed one is skipped - transcribed literally in Rm), or the four   *)
(*              children appended to new_pairs;                                                     *)
(*   NextLevel  pair_list = new_pairs; k += 1; the while test and the final `if k >= maxits: raise`. *)
(*                                                                                                  *)
(* Variant = "code":    boxes_intersect demands an overlap of positive width (as in the code).       *)
(* Variant = "code-old": in addition the pair list is mutated while it is iterated (before 650ddc2). *)
(* Variant = "correct": closed boxes, no removal from the iterated list, a candidate is new unless   *)
(*                      both its pieces touch the pieces of an earlier candidate (the design that    *)
(*                      satisfies NoLoss / Once for transversal straight segments).                  *)
(* The behaviour for a given input is deterministic; `visits` is the history the harness compares    *)
(* with the visits recorded from the real function (every turn of the loop, in order).               *)
EXTENDS Integers, Sequences, FiniteSets, TLC, Json
CONSTANTS K, E, MaxIts, Variant, Lat, TolMerge, Ins    \* tol_deC = 4^-E; tol = 4^-E if TolMerge = "same", else "tiny" (only identical points merge)
Lat2 == 0..2
Lat3 == 0..3
Lat4 == 0..4
RECURSIVE Pow(_, _)
Pow(b, e) == IF e = 0 THEN 1 ELSE b * Pow(b, e-1)
S == Pow(2, K + 1)
Min(a, b) == IF a < b THEN a ELSE b
Max(a, b) == IF a > b THEN a ELSE b
VARIABLES in, k, plist, oi, newp, found, pts, visits, phase, raised, cands, removed
vars == <<in, k, plist, oi, newp, found, pts, visits, phase, raised, cands, removed>>
\* scaled coordinate of curve c (1 or 2) at parameter n / S
PX(c, n) == IF c = 1 THEN in.a[1] * S + (in.b[1] - in.a[1]) * n ELSE in.c[1] * S + (in.d[1] - in.c[1]) * n
PY(c, n) == IF c = 1 THEN in.a[2] * S + (in.b[2] - in.a[2]) * n ELSE in.c[2] * S + (in.d[2] - in.c[2]) * n
Lo(kk, i) == i * Pow(2, K + 1 - kk)
Hi(kk, i) == (i + 1) * Pow(2, K + 1 - kk)
Mid(kk, i) == (2 * i + 1) * Pow(2, K - kk)
XMin(c, kk, i) == Min(PX(c, Lo(kk, i)), PX(c, Hi(kk, i)))
XMax(c, kk, i) == Max(PX(c, Lo(kk, i)), PX(c, Hi(kk, i)))
YMin(c, kk, i) == Min(PY(c, Lo(kk, i)), PY(c, Hi(kk, i)))
YMax(c, kk, i) == Max(PY(c, Lo(kk, i)), PY(c, Hi(kk, i)))
Ov(a, b, c, d) == IF Variant # "correct" THEN Min(b, d) - Max(a, c) > 0 ELSE Max(a, c) <= Min(b, d)
Closed(a, b, c, d) == Max(a, c) <= Min(b, d)
Hit(kk, p) == /\ Ov(XMin(1, kk, p[1]), XMax(1, kk, p[1]), XMin(2, kk, p[2]), XMax(2, kk, p[2]))
              /\ Ov(YMin(1, kk, p[1]), YMax(1, kk, p[1]), YMin(2, kk, p[2]), YMax(2, kk, p[2]))
\* box_area < tol_deC, scaled by S^2: w * h < S^2 / 4^E = 4^(K+1-E)
SmallBox(c, kk, i) == (XMax(c, kk, i) - XMin(c, kk, i)) * (YMax(c, kk, i) - YMin(c, kk, i)) < Pow(4, K + 1 - E)
\* approximate point set: abs(x - y) < tol
Dist2(p, q) == (p[1] - q[1]) * (p[1] - q[1]) + (p[2] - q[2]) * (p[2] - q[2])
Near(p, q) == IF TolMerge = "same" THEN Dist2(p, q) * Pow(16, E) < Pow(4, K + 1) ELSE p = q
InSet(p) == \E n \in 1..Len(pts) : Near(p, pts[n])
\* `for otherPair in pair_list: if shares a piece: pair_list.remove(otherPair)` with Python's index-based list iteration
Shares(q, p) == q[1] = p[1] \/ q[2] = p[2]
RemoveAt(s, n) == SubSeq(s, 1, n - 1) \o SubSeq(s, n + 1, Len(s))
RECURSIVE Rm(_, _, _)
Rm(s, n, p) == IF n > Len(s) THEN s ELSE IF Shares(s[n], p) THEN Rm(RemoveAt(s, n), n + 1, p) ELSE Rm(s, n + 1, p)
Children(p) == << <<2 * p[1], 2 * p[2]>>, <<2 * p[1], 2 * p[2] + 1>>, <<2 * p[1] + 1, 2 * p[2]>>, <<2 * p[1] + 1, 2 * p[2] + 1>> >>
\* "correct" de-duplication: both pieces touch (closed boxes) the pieces of an earlier candidate
Touches(c, k1, i1, k2, i2) == /\ Closed(XMin(c, k1, i1), XMax(c, k1, i1), XMin(c, k2, i2), XMax(c, k2, i2))
                              /\ Closed(YMin(c, k1, i1), YMax(c, k1, i1), YMin(c, k2, i2), YMax(c, k2, i2))
SeenBefore(kk, p) == \E n \in 1..Len(cands) : Touches(1, kk, p[1], cands[n][1], cands[n][2]) /\ Touches(2, kk, p[2], cands[n][1], cands[n][3])
\* clusters of touching candidates (connected components): the "correct" design reports the first member of each cluster once the loop is over
TouchRel(n, m) == Touches(1, cands[n][1], cands[n][2], cands[m][1], cands[m][2]) /\ Touches(2, cands[n][1], cands[n][3], cands[m][1], cands[m][3])
RECURSIVE Reach(_, _)
Reach(Set, steps) == IF steps = 0 THEN Set ELSE Reach(Set \cup { m \in 1..Len(cands) : \E n \in Set : TouchRel(n, m) }, steps - 1)
Cluster(n) == Reach({n}, Len(cands))
Representatives == { n \in 1..Len(cands) : \A m \in Cluster(n) : n <= m }
RECURSIVE SeqOfSet(_)
SeqOfSet(Set) == IF Set = {} THEN <<>> ELSE LET m == CHOOSE x \in Set : \A y \in Set : x <= y IN <<m>> \o SeqOfSet(Set \ {m})
ClusterFound == [n \in 1..Cardinality(Representatives) |-> LET c == cands[SeqOfSet(Representatives)[n]] IN [k |-> c[1], i |-> c[2], j |-> c[3]]]
Inputs == { r \in [a : Lat \X Lat, b : Lat \X Lat, c : Lat \X Lat, d : Lat \X Lat] : r.a # r.b /\ r.c # r.d }
InputsAnchored == { r \in Inputs : r.a = <<0, 0>> \/ r.c = <<0, 1>> }      \* a sixth of the inputs, for the quick tier
Init == /\ in \in Ins
        /\ k = 0 /\ plist = << <<0, 0>> >> /\ oi = 1 /\ newp = <<>> /\ found = <<>> /\ pts = <<>> /\ visits = <<>> /\ cands = <<>>
        /\ phase = "loop" /\ raised = FALSE /\ removed = {}
\* Variant "code" (since 650ddc2): the loop runs over a copy of pair_list; a pair that an earlier acceptance removed is skipped without being looked at;
\* an acceptance removes *every* pair sharing a piece with the accepted one.  Variant "code-old" is the loop as it was: removal from the list being
\* iterated, so that the iterator skips the element after each removed one (Rm) - pairs of another crossing were dropped unvisited.
Skip == /\ phase = "loop" /\ oi <= Len(plist) /\ Variant = "code" /\ plist[oi] \in removed
        /\ oi' = oi + 1
        /\ UNCHANGED <<in, k, plist, newp, found, pts, visits, phase, raised, cands, removed>>
Visit == /\ phase = "loop" /\ oi <= Len(plist) /\ ~(Variant = "code" /\ plist[oi] \in removed)
         /\ LET p == plist[oi]
                hit == Hit(k, p)
                sm == hit /\ SmallBox(1, k, p[1]) /\ SmallBox(2, k, p[2])
                pt == <<PX(1, Mid(k, p[1])), PY(1, Mid(k, p[1]))>>
                new == Variant # "correct" /\ ~InSet(pt)
            IN /\ visits' = Append(visits, [k |-> k, i |-> p[1], j |-> p[2], hit |-> hit, small |-> sm])
               /\ IF sm THEN /\ found' = IF new THEN Append(found, [k |-> k, i |-> p[1], j |-> p[2]]) ELSE found
                             /\ pts' = IF new THEN Append(pts, pt) ELSE pts
                             /\ cands' = Append(cands, <<k, p[1], p[2]>>)
                             /\ plist' = IF Variant = "code-old" THEN Rm(plist, 1, p) ELSE plist
                             /\ removed' = IF Variant = "code" THEN removed \cup { plist[n] : n \in { m \in 1..Len(plist) : Shares(plist[m], p) } } ELSE removed
                             /\ newp' = newp
                  ELSE /\ UNCHANGED <<found, pts, cands, plist, removed>>
                       /\ newp' = IF hit THEN newp \o Children(p) ELSE newp
         /\ oi' = oi + 1
         /\ UNCHANGED <<in, k, phase, raised>>
NextLevel == /\ phase = "loop" /\ oi > Len(plist)
             /\ plist' = newp /\ newp' = <<>> /\ k' = k + 1 /\ oi' = 1
             /\ phase' = IF newp = <<>> \/ k + 1 >= MaxIts THEN "done" ELSE "loop"
             /\ raised' = (k + 1 >= MaxIts)
             /\ found' = IF Variant = "correct" /\ (newp = <<>> \/ k + 1 >= MaxIts) THEN ClusterFound ELSE found
             /\ removed' = {}
             /\ UNCHANGED <<in, pts, visits, cands>>
Next == Visit \/ Skip \/ NextLevel
Spec == Init /\ [][Next]_vars
\* ---------- the exact crossing of the two segments
Cr(u, v) == u[1] * v[2] - u[2] * v[1]
Sub(p, q) == <<p[1] - q[1], p[2] - q[2]>>
Den == Cr(Sub(in.b, in.a), Sub(in.d, in.c))
SNum == Cr(Sub(in.c, in.a), Sub(in.d, in.c))      \* s = SNum / Den on curve 1
TNum == Cr(Sub(in.c, in.a), Sub(in.b, in.a))      \* t = TNum / Den on curve 2
Inside(n, d) == IF d > 0 THEN n > 0 /\ n < d ELSE n < 0 /\ n > d
Cross == Den # 0 /\ Inside(SNum, Den) /\ Inside(TNum, Den)      \* one transversal crossing strictly inside both segments
\* i/2^k <= n/d <= (i+1)/2^k
Contains(kk, i, n, d) == IF d > 0 THEN i * d <= n * Pow(2, kk) /\ n * Pow(2, kk) <= (i + 1) * d
                         ELSE i * d >= n * Pow(2, kk) /\ n * Pow(2, kk) >= (i + 1) * d
Done == phase = "done" /\ ~raised
\* a crossing is reported, and it lies on a candidate pair (the reported pair is the first of its cluster of touching candidates)
NoLoss == (Done /\ Cross) => /\ found # <<>>
                             /\ \E n \in 1..Len(cands) : Contains(cands[n][1], cands[n][2], SNum, Den) /\ Contains(cands[n][1], cands[n][3], TNum, Den)
Once == (Done /\ Cross) => Len(found) <= 1
\* whatever is reported lies on pieces whose boxes meet: the reported parameters are within one piece of a common point of the two boxes
Sound == \A n \in 1..Len(found) : LET f == found[n] IN
            /\ SmallBox(1, f.k, f.i) /\ SmallBox(2, f.k, f.j)
            /\ Closed(XMin(1, f.k, f.i), XMax(1, f.k, f.i), XMin(2, f.k, f.j), XMax(2, f.k, f.j))
            /\ Closed(YMin(1, f.k, f.i), YMax(1, f.k, f.i), YMin(2, f.k, f.j), YMax(2, f.k, f.j))
\* parallel segments on different lines never produce a report
Apart == Den = 0 /\ Cr(Sub(in.c, in.a), Sub(in.b, in.a)) # 0
NoGhostParallel == (Done /\ Apart) => found = <<>>
TypeOK == /\ k \in 0..MaxIts /\ oi >= 1 /\ phase \in {"loop", "done"}
          /\ \A n \in 1..Len(plist) : plist[n][1] \in 0..(Pow(2, k) - 1) /\ plist[n][2] \in 0..(Pow(2, k) - 1)
DepthOK == k <= K        \* the scaling covers every level reached
Terminated == phase = "done"
Dump == phase = "done" => PrintT(ToJson([in |-> in, visits |-> visits, found |-> found, raised |-> raised, cross |-> Cross,
                                         s |-> <<SNum, Den>>, t |-> <<TNum, Den>>]))
=============================================================================
