----------------------------- MODULE SegCache -----------------------------
(* The per-segment length cache of CubicBezier / QuadraticBezier (C16, segment clause).           *)
(* A segment object has control points (version bp; reversed() gives version -bp) and a reference *)
(* to a cache record [bp, e, d]: the control points, error class and depth class the stored       *)
(* length was computed for (e, d: 1 = loose/shallow, 2 = tight/deep; 0 = empty).  reversed()      *)
(* shares the record with the new object and overwrites its bp (as the code does).                *)
(* The property: an answer is never less accurate than the request, and is for the current points.*)
(* Variant "code" = the pinned tree's reuse test (`cached error >= requested error`).             *)
EXTENDS Integers, Sequences, TLC, Json
CONSTANTS MaxOps, Variant
VARIABLES bp,      \* bp[o] : control-point version of object o (0 = object does not exist)
          ref,     \* ref[o] : which cache record object o uses
          rec,     \* rec[r] : [bp, e, d]
          ans,     \* last answer: [o, e, d, qe, qd, qbp] (request and the quality of what was returned)
          hist
vars == <<bp, ref, rec, ans, hist>>
Empty == [bp |-> 0, e |-> 0, d |-> 0]
Init == /\ bp = <<1, 0>> /\ ref = <<1, 2>> /\ rec = <<Empty, Empty>>
        /\ ans = [o |-> 0, e |-> 0, d |-> 0, qe |-> 0, qd |-> 0, qbp |-> 0] /\ hist = <<>>
More == Len(hist) < MaxOps
Objs == {o \in 1..2 : bp[o] # 0}
SetCtrl == More /\ \E o \in Objs, v \in {1, 2} :
             /\ bp' = [bp EXCEPT ![o] = v] /\ UNCHANGED <<ref, rec>> /\ ans' = [ans EXCEPT !.o = 0]
             /\ hist' = Append(hist, [op |-> "SetCtrl", o |-> o, bp |-> v])
Hit(r, o, e, d) == /\ rec[r].e # 0 /\ rec[r].bp = bp[o] /\ rec[r].d >= d
                   /\ IF Variant = "code" THEN rec[r].e <= e ELSE rec[r].e >= e
QLen == More /\ \E o \in Objs, e \in 1..2, d \in 1..2 :
          LET r == ref[o] IN
          /\ IF Hit(r, o, e, d)
               THEN /\ ans' = [o |-> o, e |-> e, d |-> d, qe |-> rec[r].e, qd |-> rec[r].d, qbp |-> rec[r].bp]
                    /\ UNCHANGED rec
               ELSE /\ ans' = [o |-> o, e |-> e, d |-> d, qe |-> e, qd |-> d, qbp |-> bp[o]]
                    /\ rec' = [rec EXCEPT ![r] = [bp |-> bp[o], e |-> e, d |-> d]]
          /\ UNCHANGED <<bp, ref>>
          /\ hist' = Append(hist, [op |-> "QLen", o |-> o, e |-> e, d |-> d])
Rev == More /\ bp[2] = 0
        /\ bp' = [bp EXCEPT ![2] = -bp[1]]
        /\ (IF rec[ref[1]].e # 0
             THEN (ref' = [ref EXCEPT ![2] = ref[1]] /\ rec' = [rec EXCEPT ![ref[1]].bp = -bp[1]])
             ELSE UNCHANGED <<ref, rec>>)
        /\ ans' = [ans EXCEPT !.o = 0]
        /\ hist' = Append(hist, [op |-> "Rev", o |-> 1])
Next == SetCtrl \/ QLen \/ Rev
Spec == Init /\ [][Next]_vars
AnswerGoodEnough == ans.o # 0 => ans.qe >= ans.e /\ ans.qd >= ans.d /\ ans.qbp = bp[ans.o]
Dump == Len(hist) = MaxOps => PrintT(ToJson(hist))
=============================================================================
