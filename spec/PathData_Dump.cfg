SPECIFICATION Spec
CONSTANTS MaxCmds = 2
  MaxRep = 2
INVARIANT Dump
CHECK_DEADLOCK FALSE
