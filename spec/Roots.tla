------------------------------ MODULE Roots ------------------------------
(* Root filtering and de-duplication of polyroots / polyroots01 (C19; used through C13).          *)
(* Input: the ordered list numpy.roots produced, abstracted to [c, k]: c = cluster id (two roots  *)
(* are "close" iff they are in the same cluster), k = kind: "in" (real, satisfies the condition), *)
(* "out" (real, fails the condition), "cx" (complex).  The algorithm is the code's pair loop over *)
(* combinations(kept, 2) in itertools order with the bookkeeping a correct implementation needs   *)
(* (remember the *position* of the later root of a close pair).  Variant "code" remembers the     *)
(* running combination index instead, as the pinned tree did.                                     *)
EXTENDS Integers, Sequences, FiniteSets, TLC, Json
CONSTANTS MaxN, Variant
VARIABLES roots, i, j, idx, dups, pc
vars == <<roots, i, j, idx, dups, pc>>
Kinds == {"in", "out", "cx"}
\* canonical cluster labelling (restricted growth string) = all set partitions of the positions
IsRGS(f) == f[1] = 1 /\ \A k \in 2..Len(f) : \E m \in 1..(k-1) : f[k] <= f[m] + 1
Inputs(n) == { r \in [1..n -> [c : 1..n, k : Kinds]] : IsRGS([p \in 1..n |-> r[p].c]) }
Kept == SelectSeq(roots, LAMBDA r : r.k = "in")     \* after the realroots / condition filters, order preserved
M == Len(Kept)
Close(x, y) == x.c = y.c
Init == /\ \E n \in 1..MaxN : roots \in Inputs(n)
        /\ i = 1 /\ j = 2 /\ idx = 0 /\ dups = {} /\ pc = "loop"
Compare == /\ pc = "loop" /\ i < M
           /\ dups' = IF Close(Kept[i], Kept[j])
                        THEN dups \cup { IF Variant = "code" THEN idx + 1 ELSE j }
                        ELSE dups
           /\ idx' = idx + 1
           /\ IF j < M THEN j' = j + 1 /\ i' = i ELSE i' = i + 1 /\ j' = i + 2
           /\ UNCHANGED <<roots, pc>>
Done == /\ pc = "loop" /\ i >= M /\ pc' = "done" /\ UNCHANGED <<roots, i, j, idx, dups>>
Next == Compare \/ Done
Spec == Init /\ [][Next]_vars
OutPos == { p \in 1..M : p \notin dups }
Simple(p) == \A q \in 1..M : q # p => ~Close(Kept[p], Kept[q])
(* what C19 demands: every simple real root satisfying the condition is returned (exactly once:   *)
(* positions are distinct by construction)                                                        *)
SimpleOnce == pc = "done" => \A p \in 1..M : Simple(p) => p \in OutPos
ClusterRepresented == pc = "done" => \A p \in 1..M : \E q \in OutPos : Close(Kept[p], Kept[q])
OnePerCluster == pc = "done" => \A p, q \in OutPos : p # q => ~Close(Kept[p], Kept[q])
(* loop invariant: only positions already visited as the later element of a pair are removed *)
DupsVisited == Variant = "correct" => \A p \in dups : p > 1 /\ p <= M /\ (p < j \/ i > 1 \/ pc = "done" \/ p <= j)
Dump == pc = "done" => PrintT(ToJson([roots |-> roots, out |-> [p \in 1..M |-> IF p \in OutPos THEN 1 ELSE 0]]))
=============================================================================
