SPECIFICATION TSpec
CONSTANTS MaxN = 12
  Variant = "correct"
INVARIANT SimpleOnce
INVARIANT Progress
CHECK_DEADLOCK FALSE
