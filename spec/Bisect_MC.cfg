SPECIFICATION Spec
CONSTANTS P = 3
  LMax = 5
  Tols = {1, 2}
  Variant = "correct"
  MaxIts = 12
INVARIANT Terminates
INVARIANT FewSteps
INVARIANT Bracket
INVARIANT InRange
INVARIANT Post
INVARIANT Ends
INVARIANT RunAgrees
INVARIANT Monotone
CHECK_DEADLOCK FALSE
