SPECIFICATION Spec
CONSTANTS MaxN = 4
 LenSet <- LenA
 Variant = "correct"
INVARIANT TypeOK
INVARIANT CropIsExpected
INVARIANT PiecesWellFormed
INVARIANT LengthIsRight
CHECK_DEADLOCK FALSE
