-------------------------- MODULE PathOpaque_Trace --------------------------
(* Validates the Path mutations recorded while the repository's own test-suite runs (C16, V).       *)
(* Segments are opaque integer ids; one trace per Path object: Init, then SetItem / SetSlice /       *)
(* DelItem / DelSlice / Insert events with 1-based positions, the real segment list after the       *)
(* operation, and three flags saying whether length() / start / end answered as a freshly built      *)
(* Path of the current segments would.  The sequence semantics are those of PathSeq.tla's           *)
(* operators; the flags are what the property demands and must all be TRUE.                          *)
EXTENDS Integers, Sequences, TLC, Json, IOUtils
Traces == JsonDeserialize(IOEnv.TRACE_FILE)
VARIABLES tid, l, segs
vars == <<tid, l, segs>>
Ev == Traces[tid][l]
InsertAt(q, i, s) == SubSeq(q, 1, i-1) \o <<s>> \o SubSeq(q, i, Len(q))
RemoveAt(q, i) == SubSeq(q, 1, i-1) \o SubSeq(q, i+1, Len(q))
Repl(q, i, j, r) == SubSeq(q, 1, i-1) \o r \o SubSeq(q, j, Len(q))
Init == tid \in 1..Len(Traces) /\ l = 2 /\ segs = Traces[tid][1].after
Apply == CASE Ev.op = "SetItem"  -> [segs EXCEPT ![Ev.i] = Ev.s]
           [] Ev.op = "SetSlice" -> Repl(segs, Ev.i, Ev.j, Ev.r)
           [] Ev.op = "DelItem"  -> RemoveAt(segs, Ev.i)
           [] Ev.op = "DelSlice" -> Repl(segs, Ev.i, Ev.j, <<>>)
           [] Ev.op = "Insert"   -> InsertAt(segs, Ev.i, Ev.s)
           [] Ev.op = "SetStart" -> [segs EXCEPT ![1] = Ev.s]              \* the first segment's start point moves: it is a new value
           [] Ev.op = "SetEnd"   -> [segs EXCEPT ![Len(segs)] = Ev.s]
Enabled == /\ Ev.op \in {"SetItem", "SetSlice", "DelItem", "DelSlice", "Insert", "SetStart", "SetEnd"}
           /\ (Ev.op \in {"SetStart", "SetEnd"} => segs # <<>>)
           /\ (Ev.op \in {"SetItem", "DelItem"} => Ev.i \in 1..Len(segs))
           /\ (Ev.op = "Insert" => Ev.i \in 1..(Len(segs) + 1))
           /\ (Ev.op \in {"SetSlice", "DelSlice"} => Ev.i \in 1..(Len(segs) + 1) /\ Ev.j \in Ev.i..(Len(segs) + 1))
Next == /\ l <= Len(Traces[tid]) /\ l' = l + 1 /\ UNCHANGED tid
        /\ Enabled
        /\ segs' = Apply
        /\ segs' = Ev.after                       \* the real object holds what the sequence semantics prescribe
        /\ Ev.okLen /\ Ev.okStart /\ Ev.okEnd     \* and answers as a fresh object would
Spec == Init /\ [][Next]_vars
Progress == l = Len(Traces[tid]) + 1 => PrintT(<<"ACCEPT", tid>>)
Reach == PrintT(<<"AT", tid, l>>)
=============================================================================
