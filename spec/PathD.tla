------------------------------ MODULE PathD ------------------------------
(* Design of the d-string serialiser and the round-trip theorem (C01).                            *)
(* The state is an abstract path built segment by segment on a small integer grid so that        *)
(* continuity, closure (by a line, by a curve), S/T-smoothness w.r.t. the previous segment,      *)
(* several subpaths and arcs all occur.  Emit(p,o) is the serialiser design, mirroring the loop  *)
(* of Path.d (current position, previous segment); Parse is the reference interpreter of         *)
(* PathSem.  TLC checks  Parse(Emit(p,o)) = p  for every path of the bounded space and all 8     *)
(* option combinations.  Variant = "code" reproduces the defect of the pinned tree (the last     *)
(* segment of a closed path is dropped whatever its kind) - used by the self-test to show the    *)
(* theorem is not vacuous.                                                                       *)
EXTENDS PathSem, TLC, FiniteSets, Json
CONSTANTS MaxSeg, Variant

Grid == {<<0,0>>, <<2,0>>, <<0,1>>}
Continuous(p) == \A i \in 1..(Len(p)-1) : End(p[i]) = Start(p[i+1])
Closed(p) == Continuous(p) /\ Start(p[1]) = End(p[Len(p)])

(* is_smooth_from: can this curve be written as S / T after `prev` (<<>> = no previous segment)? *)
SmoothFrom(s, prev) ==
  IF Kind(s) = "C" THEN IF prev # <<>> /\ Kind(prev) = "C"
                          THEN Start(s) = End(prev) /\ Sub2(s[3], Start(s)) = Sub2(End(prev), prev[4])
                          ELSE s[3] = Start(s)
  ELSE IF Kind(s) = "Q" THEN IF prev # <<>> /\ Kind(prev) = "Q"
                          THEN Start(s) = End(prev) /\ Sub2(s[3], Start(s)) = Sub2(End(prev), prev[3])
                          ELSE s[3] = Start(s)
  ELSE FALSE

G(c, a) == [c |-> c, first |-> TRUE, a |-> a]
SegCmd(s, prev, o) ==
  LET b == Start(s)
      R(p) == IF o.rel THEN Sub2(p, b) ELSE p
      L(c) == IF o.rel THEN Lower(c) ELSE c
  IN CASE Kind(s) = "L" -> G(L("L"), <<R(s[3])>>)
       [] Kind(s) = "C" -> IF o.st /\ SmoothFrom(s, prev) THEN G(L("S"), <<R(s[4]), R(s[5])>>)
                           ELSE G(L("C"), <<R(s[3]), R(s[4]), R(s[5])>>)
       [] Kind(s) = "Q" -> IF o.st /\ SmoothFrom(s, prev) THEN G(L("T"), <<R(s[4])>>)
                           ELSE G(L("Q"), <<R(s[3]), R(s[4])>>)
       [] Kind(s) = "A" -> G(L("A"), <<s[3], s[4], s[5], s[6], R(s[7])>>)
(* the emission loop: curpos = <<>> means "no current position yet" *)
RECURSIVE EmitFrom(_, _, _, _, _, _)
EmitFrom(p, i, curpos, prev, o, restartAt) ==
  IF i > Len(p) THEN <<>>
  ELSE LET s == p[i]
           \* a moveto is written at the very start, after a jump, and - as the code does - wherever a closed path written with Z passes through
           \* its closing point again (restartAt = that point, <<>> = rule not active): a redundant but harmless moveto
           m == IF curpos = <<>> THEN <<G(IF o.rel THEN "m" ELSE "M", <<Start(s)>>)>>
                ELSE IF curpos # Start(s) \/ Start(s) = restartAt
                     THEN <<G(IF o.rel THEN "m" ELSE "M", <<IF o.rel THEN Sub2(Start(s), curpos) ELSE Start(s)>>)>>
                     ELSE <<>>
           \* after a moveto the parser has forgotten the previous curve: S/T must not rely on it (the code did, until f8f7769)
           pv == IF m # <<>> /\ Variant = "correct" THEN <<>> ELSE prev
       IN m \o <<SegCmd(s, pv, o)>> \o EmitFrom(p, i+1, End(s), s, o, restartAt)
Emit(p, o) ==
  LET closed == o.z /\ Closed(p)
      dropLast == closed /\ (Variant = "code" \/ (Kind(p[Len(p)]) = "L" /\ Len(p) > 1))
      body == IF dropLast THEN SubSeq(p, 1, Len(p)-1) ELSE p
  IN EmitFrom(body, 1, <<>>, <<>>, o, IF closed THEN End(p[Len(p)]) ELSE <<>>) \o (IF closed THEN <<G(IF o.rel THEN "z" ELSE "Z", <<>>)>> ELSE <<>>)
OptSeq == << [st |-> FALSE, z |-> FALSE, rel |-> FALSE], [st |-> FALSE, z |-> FALSE, rel |-> TRUE],
             [st |-> FALSE, z |-> TRUE,  rel |-> FALSE], [st |-> FALSE, z |-> TRUE,  rel |-> TRUE],
             [st |-> TRUE,  z |-> FALSE, rel |-> FALSE], [st |-> TRUE,  z |-> FALSE, rel |-> TRUE],
             [st |-> TRUE,  z |-> TRUE,  rel |-> FALSE], [st |-> TRUE,  z |-> TRUE,  rel |-> TRUE] >>
Opts == { OptSeq[i] : i \in 1..8 }

\* ---- the path space, built segment by segment
VARIABLE path
Reflect(prev) == IF Kind(prev) = "C" THEN Sub2(Add(End(prev),End(prev)), prev[4])
                 ELSE IF Kind(prev) = "Q" THEN Sub2(Add(End(prev),End(prev)), prev[3]) ELSE End(prev)
Ctl(prev) == Grid \cup (IF prev = <<>> THEN {} ELSE {Reflect(prev)})
ArcPar == { <<<<5,5>>, 0, 0, 1>>, <<<<5,5>>, 0, 1, 0>>, <<<<1,2>>, 30, 1, 1>> }
NewSegs(prev) ==
  LET starts == IF prev = <<>> THEN Grid ELSE {End(prev)} \cup {g \in Grid : g # End(prev) /\ g[1] = 0}
  IN UNION { UNION {
       { <<"L", s0, e>> } \cup
       { <<"Q", s0, c, e>> : c \in Ctl(prev) } \cup
       { <<"C", s0, c1, c2, e>> : c1 \in Ctl(prev), c2 \in {<<0,1>>, <<2,0>>} } \cup
       { <<"A", s0, ap[1], ap[2], ap[3], ap[4], e>> : ap \in ArcPar }
     : e \in Grid \ {s0} } : s0 \in starts }
(* closing curves: a curve from somewhere back to s0 = e is allowed for Q/C (not for L/A: no zero-length lines, no null arcs) *)
ClosingCurves(prev) ==
  IF prev = <<>> THEN {} ELSE
  LET s0 == End(prev) IN { <<"C", s0, c1, <<0,1>>, s0>> : c1 \in {<<2,0>>, Reflect(prev)} }
Init == path \in { <<s>> : s \in NewSegs(<<>>) }
AddSeg == Len(path) < MaxSeg /\ \E s \in NewSegs(path[Len(path)]) \cup ClosingCurves(path[Len(path)]) : path' = Append(path, s)
Next == AddSeg
Spec == Init /\ [][Next]_path

\* ---- theorems
RoundTrip == \A o \in Opts : Parse(Emit(path, o)) = path
(* nothing dropped, nothing added: drawing commands + (a Z standing for a dropped closing line) = segments *)
IsDraw(g) == Upper(g.c) \notin {"M", "Z"}
NDraw(cmds) == Cardinality({ i \in 1..Len(cmds) : IsDraw(cmds[i]) })
NoDrop == \A o \in Opts : LET e == Emit(path, o) IN
             NDraw(e) + (IF o.z /\ Closed(path) /\ Kind(path[Len(path)]) = "L" /\ Len(path) > 1 THEN 1 ELSE 0) = Len(path)
StartsWithM == \A o \in Opts : Upper(Emit(path, o)[1].c) = "M"
ZIffClosed == \A o \in Opts : LET e == Emit(path, o) IN (Upper(e[Len(e)].c) = "Z") <=> (o.z /\ Closed(path))
CaseIsRel == \A o \in Opts : \A i \in 1..Len(Emit(path, o)) : IsAbs(Emit(path, o)[i].c) <=> ~o.rel
(* S/T are used only when asked for *)
STOnlyIfAsked == \A o \in Opts : ~o.st => \A i \in 1..Len(Emit(path, o)) : Upper(Emit(path, o)[i].c) \notin {"S","T"}
Dump == PrintT(ToJson([path |-> path, emit |-> [i \in 1..8 |-> Emit(path, OptSeq[i])]]))
DumpFull == Len(path) = MaxSeg => Dump
(* closed paths that pass through their closing point before the end (d() restarts the subpath there) *)
Revisits == Len(path) >= 2 /\ Closed(path) /\ \E i \in 2..Len(path) : Start(path[i]) = End(path[Len(path)])
DumpRevisit == (Len(path) = MaxSeg /\ Revisits) => Dump
=============================================================================
