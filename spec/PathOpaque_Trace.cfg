SPECIFICATION Spec
INVARIANT Progress
CHECK_DEADLOCK FALSE
