SPECIFICATION Spec
CONSTANTS D = 2
  AMin <- MinusThree
  AMax = 5
  MaxDeg = 8
  Dense <- Dense4
INVARIANT DeCastIsBernstein
INVARIANT HornerIsBernstein
INVARIANT EndPoints
INVARIANT PolyRoundTrip
INVARIANT DerivIsPolyDeriv
INVARIANT SplitReparam
INVARIANT SplitMeets
INVARIANT RevIdentity
PROPERTY FiniteDiff
CHECK_DEADLOCK FALSE
