---------------------------- MODULE AffineOps ----------------------------
(* Pure operators on integer affine matrices <<a,b,c,d,e,f>> = SVG matrix(a b c d e f); shared by   *)
(* Affine.tla (transform lists) and SvgDoc.tla (nested transforms).                                 *)
EXTENDS Integers, Sequences
Id == <<1,0,0,1,0,0>>
Mul(M, N) == << M[1]*N[1] + M[3]*N[2],        M[2]*N[1] + M[4]*N[2],
                M[1]*N[3] + M[3]*N[4],        M[2]*N[3] + M[4]*N[4],
                M[1]*N[5] + M[3]*N[6] + M[5], M[2]*N[5] + M[4]*N[6] + M[6] >>
Apply(M, p) == << M[1]*p[1] + M[3]*p[2] + M[5], M[2]*p[1] + M[4]*p[2] + M[6] >>
Det(M) == M[1]*M[4] - M[2]*M[3]
(* the operations of SVG 1.1 section 7.6 with lattice arguments: rotations by multiples of 90    *)
(* degrees (exact integer matrices; the harness also uses 15-degree multiples numerically),     *)
(* skews by 45 degrees (tan = 1) and 0                                                           *)
Cos90(q) == CASE q % 4 = 0 -> 1 [] q % 4 = 1 -> 0 [] q % 4 = 2 -> -1 [] OTHER -> 0
Sin90(q) == CASE q % 4 = 0 -> 0 [] q % 4 = 1 -> 1 [] q % 4 = 2 -> 0 [] OTHER -> -1
Translate(tx, ty) == <<1,0,0,1,tx,ty>>
Scale(sx, sy) == <<sx,0,0,sy,0,0>>
Rot(q) == <<Cos90(q), Sin90(q), -Sin90(q), Cos90(q), 0, 0>>
RotAbout(q, cx, cy) == Mul(Mul(Translate(cx, cy), Rot(q)), Translate(-cx, -cy))
SkewX(k) == <<1,0,k,1,0,0>>        \* skewX(45 k degrees) for k in {-1,0,1}: tan = k
SkewY(k) == <<1,k,0,1,0,0>>
OpMatrix(o) == CASE o.k = "translate"  -> Translate(o.a[1], o.a[2])
                 [] o.k = "translate1" -> Translate(o.a[1], 0)              \* translate(tx): ty defaults to 0
                 [] o.k = "scale"      -> Scale(o.a[1], o.a[2])
                 [] o.k = "scale1"     -> Scale(o.a[1], o.a[1])             \* scale(s): sy defaults to sx
                 [] o.k = "rotate"     -> Rot(o.a[1])
                 [] o.k = "rotatec"    -> RotAbout(o.a[1], o.a[2], o.a[3])
                 [] o.k = "skewX"      -> SkewX(o.a[1])
                 [] o.k = "skewY"      -> SkewY(o.a[1])
                 [] o.k = "matrix"     -> o.a
=============================================================================
