SPECIFICATION Spec
CONSTANTS MaxOps = 5
  NPaths = 3
  Names = {"a", "b"}
  Variant = "correct"
VIEW View
INVARIANT AddedVisible
INVARIANT GroupsClosed
INVARIANT OrderKept
PROPERTY SaveReloadIdentity
PROPERTY FileIsSnapshot
CHECK_DEADLOCK FALSE
