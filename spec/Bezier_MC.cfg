SPECIFICATION Spec
CONSTANTS D = 4
  AMin <- MinusOne
  AMax = 5
  MaxDeg = 3
  Dense <- Dense4
INVARIANT DeCastIsBernstein
INVARIANT HornerIsBernstein
INVARIANT EndPoints
INVARIANT PolyRoundTrip
INVARIANT DerivIsPolyDeriv
INVARIANT SplitReparam
INVARIANT SplitMeets
INVARIANT RevIdentity
PROPERTY FiniteDiff
CHECK_DEADLOCK FALSE
