SPECIFICATION Spec
CONSTANTS Vals <- ValsA
  W = 8
  MaxDen = 7
INVARIANT WitnessInside
INVARIANT Attained
INVARIANT EndsInside
INVARIANT DerivZero
CHECK_DEADLOCK FALSE
