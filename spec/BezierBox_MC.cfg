SPECIFICATION Spec
CONSTANTS Vals <- ValsA
  W = 8
  MaxDen = 7
INVARIANT WitnessInside
INVARIANT Attained
INVARIANT EndsInside
INVARIANT DerivZero
INVARIANT TVAdditive
INVARIANT TVAtLeastChord
INVARIANT TVAtMostPolygon
PROPERTY TVMonotone
CHECK_DEADLOCK FALSE
