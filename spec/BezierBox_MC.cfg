SPECIFICATION Spec
CONSTANTS Vals <- ValsA
  W = 8
  MaxDen = 7
  Degs <- DegsAll
INVARIANT WitnessInside
INVARIANT Attained
INVARIANT EndsInside
INVARIANT DerivZero
INVARIANT TVAdditive
INVARIANT QuadTVAgrees
INVARIANT TVAtLeastChord
INVARIANT TVAtMostPolygon
PROPERTY TVMonotone
CHECK_DEADLOCK FALSE
