SPECIFICATION Spec
INVARIANT Reach
CHECK_DEADLOCK FALSE
