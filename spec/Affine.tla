------------------------------ MODULE Affine ------------------------------
(* Integer affine maps, SVG transform lists and nested transforms (C10, C17).                     *)
(* A matrix is <<a,b,c,d,e,f>> = matrix(a b c d e f) of SVG:  x' = a x + c y + e, y' = b x + d y + f. *)
(* State machine: a transform list is built one operation at a time (action Push); M is the       *)
(* product so far.  SVG semantics: in `transform="T1 T2 T3"` the rightmost operation is applied    *)
(* to the point first, i.e. the list denotes the matrix product T1 * T2 * T3; nesting an element   *)
(* in a group with transform G means G * (own list).                                              *)
(* A second, independent machine (Rejoin) models the re-joining pass that keeps a path's joints    *)
(* exactly coincident after each segment has been mapped with independent rounding.                *)
EXTENDS Integers, Sequences, FiniteSets, TLC, Json
CONSTANTS MaxOps

Id == <<1,0,0,1,0,0>>
Mul(M, N) == << M[1]*N[1] + M[3]*N[2],        M[2]*N[1] + M[4]*N[2],
                M[1]*N[3] + M[3]*N[4],        M[2]*N[3] + M[4]*N[4],
                M[1]*N[5] + M[3]*N[6] + M[5], M[2]*N[5] + M[4]*N[6] + M[6] >>
Apply(M, p) == << M[1]*p[1] + M[3]*p[2] + M[5], M[2]*p[1] + M[4]*p[2] + M[6] >>
Det(M) == M[1]*M[4] - M[2]*M[3]
(* the operations of SVG 1.1 section 7.6 with lattice arguments: rotations by multiples of 90    *)
(* degrees (exact integer matrices; the harness also uses 15-degree multiples numerically),     *)
(* skews by 45 degrees (tan = 1) and 0                                                           *)
Cos90(q) == CASE q % 4 = 0 -> 1 [] q % 4 = 1 -> 0 [] q % 4 = 2 -> -1 [] OTHER -> 0
Sin90(q) == CASE q % 4 = 0 -> 0 [] q % 4 = 1 -> 1 [] q % 4 = 2 -> 0 [] OTHER -> -1
Translate(tx, ty) == <<1,0,0,1,tx,ty>>
Scale(sx, sy) == <<sx,0,0,sy,0,0>>
Rot(q) == <<Cos90(q), Sin90(q), -Sin90(q), Cos90(q), 0, 0>>
RotAbout(q, cx, cy) == Mul(Mul(Translate(cx, cy), Rot(q)), Translate(-cx, -cy))
SkewX(k) == <<1,0,k,1,0,0>>        \* skewX(45 k degrees) for k in {-1,0,1}: tan = k
SkewY(k) == <<1,k,0,1,0,0>>
OpMatrix(o) == CASE o.k = "translate"  -> Translate(o.a[1], o.a[2])
                 [] o.k = "translate1" -> Translate(o.a[1], 0)              \* translate(tx): ty defaults to 0
                 [] o.k = "scale"      -> Scale(o.a[1], o.a[2])
                 [] o.k = "scale1"     -> Scale(o.a[1], o.a[1])             \* scale(s): sy defaults to sx
                 [] o.k = "rotate"     -> Rot(o.a[1])
                 [] o.k = "rotatec"    -> RotAbout(o.a[1], o.a[2], o.a[3])
                 [] o.k = "skewX"      -> SkewX(o.a[1])
                 [] o.k = "skewY"      -> SkewY(o.a[1])
                 [] o.k = "matrix"     -> o.a
Ops == { [k |-> "translate", a |-> <<3, -2>>], [k |-> "translate1", a |-> <<5>>],
         [k |-> "scale", a |-> <<2, 3>>], [k |-> "scale", a |-> <<-1, 1>>], [k |-> "scale1", a |-> <<2>>], [k |-> "scale1", a |-> <<-3>>],
         [k |-> "rotate", a |-> <<1>>], [k |-> "rotate", a |-> <<2>>], [k |-> "rotatec", a |-> <<1, 4, 1>>], [k |-> "rotatec", a |-> <<3, -2, 5>>],
         [k |-> "skewX", a |-> <<1>>], [k |-> "skewY", a |-> <<-1>>],
         [k |-> "matrix", a |-> <<1, 2, -1, 1, 4, -3>>], [k |-> "matrix", a |-> <<0, 1, 1, 0, 0, 0>>] }
VARIABLES ops, M
vars == <<ops, M>>
Init == ops = <<>> /\ M = Id
Push == Len(ops) < MaxOps /\ \E o \in Ops : ops' = Append(ops, o) /\ M' = Mul(M, OpMatrix(o))
Next == Push
Spec == Init /\ [][Next]_vars
\* ---------- laws
TestPts == { <<0,0>>, <<1,0>>, <<0,1>>, <<2,3>>, <<-4,1>> }
(* applying the list to a point = applying the operations from the rightmost to the leftmost *)
RECURSIVE ApplyList(_, _)
ApplyList(os, p) == IF os = <<>> THEN p ELSE Apply(OpMatrix(Head(os)), ApplyList(Tail(os), p))
ListIsProduct == \A p \in TestPts : Apply(M, p) = ApplyList(ops, p)
Assoc == \A o1, o2 \in Ops : Mul(Mul(M, OpMatrix(o1)), OpMatrix(o2)) = Mul(M, Mul(OpMatrix(o1), OpMatrix(o2)))
DetMultiplicative == [][Det(M') = Det(M) * Det(OpMatrix(ops'[Len(ops')]))]_vars
Invertible == Det(M) # 0
RotateAboutCentreFixesCentre == \A o \in Ops : o.k = "rotatec" => Apply(OpMatrix(o), <<o.a[2], o.a[3]>>) = <<o.a[2], o.a[3]>>
(* affine maps commute with Bezier evaluation (affine invariance): checked on the de Casteljau midpoint, scaled by 2^n *)
Mid2(P) == IF Len(P) = 2 THEN <<P[1][1] + P[2][1], P[1][2] + P[2][2]>>
           ELSE IF Len(P) = 3 THEN <<P[1][1] + 2*P[2][1] + P[3][1], P[1][2] + 2*P[2][2] + P[3][2]>>
           ELSE <<P[1][1] + 3*P[2][1] + 3*P[3][1] + P[4][1], P[1][2] + 3*P[2][2] + 3*P[3][2] + P[4][2]>>
LinApply(Mx, p) == << Mx[1]*p[1] + Mx[3]*p[2], Mx[2]*p[1] + Mx[4]*p[2] >>
Curves == { << <<0,0>>, <<3,4>> >>, << <<0,0>>, <<2,3>>, <<5,0>> >>, << <<1,1>>, <<0,4>>, <<4,4>>, <<5,-1>> >> }
AffineInvariance == \A P \in Curves :
    LET Q == [i \in 1..Len(P) |-> Apply(M, P[i])]
        w == IF Len(P) = 2 THEN 2 ELSE IF Len(P) = 3 THEN 4 ELSE 8
    IN Mid2(Q) = << LinApply(M, Mid2(P))[1] + w * M[5], LinApply(M, Mid2(P))[2] + w * M[6] >>
DumpM == Len(ops) >= 1 => PrintT(ToJson([ops |-> ops, M |-> M, det |-> Det(M)]))
=============================================================================
