------------------------------ MODULE Affine ------------------------------
(* Integer affine maps, SVG transform lists and nested transforms (C10, C17).                     *)
(* A matrix is <<a,b,c,d,e,f>> = matrix(a b c d e f) of SVG:  x' = a x + c y + e, y' = b x + d y + f. *)
(* State machine: a transform list is built one operation at a time (action Push); M is the       *)
(* product so far.  SVG semantics: in `transform="T1 T2 T3"` the rightmost operation is applied    *)
(* to the point first, i.e. the list denotes the matrix product T1 * T2 * T3; nesting an element   *)
(* in a group with transform G means G * (own list).                                              *)
(* A second, independent machine (Rejoin) models the re-joining pass that keeps a path's joints    *)
(* exactly coincident after each segment has been mapped with independent rounding.                *)
EXTENDS AffineOps, FiniteSets, TLC, Json
CONSTANTS MaxOps

Ops == { [k |-> "translate", a |-> <<3, -2>>], [k |-> "translate1", a |-> <<5>>],
         [k |-> "scale", a |-> <<2, 3>>], [k |-> "scale", a |-> <<-1, 1>>], [k |-> "scale1", a |-> <<2>>], [k |-> "scale1", a |-> <<-3>>],
         [k |-> "rotate", a |-> <<1>>], [k |-> "rotate", a |-> <<2>>], [k |-> "rotatec", a |-> <<1, 4, 1>>], [k |-> "rotatec", a |-> <<3, -2, 5>>],
         [k |-> "skewX", a |-> <<1>>], [k |-> "skewY", a |-> <<-1>>],
         [k |-> "matrix", a |-> <<1, 2, -1, 1, 4, -3>>], [k |-> "matrix", a |-> <<0, 1, 1, 0, 0, 0>>] }
VARIABLES ops, M
vars == <<ops, M>>
Init == ops = <<>> /\ M = Id
Push == Len(ops) < MaxOps /\ \E o \in Ops : ops' = Append(ops, o) /\ M' = Mul(M, OpMatrix(o))
Next == Push
Spec == Init /\ [][Next]_vars
\* ---------- laws
TestPts == { <<0,0>>, <<1,0>>, <<0,1>>, <<2,3>>, <<-4,1>> }
(* applying the list to a point = applying the operations from the rightmost to the leftmost *)
RECURSIVE ApplyList(_, _)
ApplyList(os, p) == IF os = <<>> THEN p ELSE Apply(OpMatrix(Head(os)), ApplyList(Tail(os), p))
ListIsProduct == \A p \in TestPts : Apply(M, p) = ApplyList(ops, p)
Assoc == \A o1, o2 \in Ops : Mul(Mul(M, OpMatrix(o1)), OpMatrix(o2)) = Mul(M, Mul(OpMatrix(o1), OpMatrix(o2)))
DetMultiplicative == [][Det(M') = Det(M) * Det(OpMatrix(ops'[Len(ops')]))]_vars
Invertible == Det(M) # 0
RotateAboutCentreFixesCentre == \A o \in Ops : o.k = "rotatec" => Apply(OpMatrix(o), <<o.a[2], o.a[3]>>) = <<o.a[2], o.a[3]>>
(* affine maps commute with Bezier evaluation (affine invariance): checked on the de Casteljau midpoint, scaled by 2^n *)
Mid2(P) == IF Len(P) = 2 THEN <<P[1][1] + P[2][1], P[1][2] + P[2][2]>>
           ELSE IF Len(P) = 3 THEN <<P[1][1] + 2*P[2][1] + P[3][1], P[1][2] + 2*P[2][2] + P[3][2]>>
           ELSE <<P[1][1] + 3*P[2][1] + 3*P[3][1] + P[4][1], P[1][2] + 3*P[2][2] + 3*P[3][2] + P[4][2]>>
LinApply(Mx, p) == << Mx[1]*p[1] + Mx[3]*p[2], Mx[2]*p[1] + Mx[4]*p[2] >>
Curves == { << <<0,0>>, <<3,4>> >>, << <<0,0>>, <<2,3>>, <<5,0>> >>, << <<1,1>>, <<0,4>>, <<4,4>>, <<5,-1>> >> }
AffineInvariance == \A P \in Curves :
    LET Q == [i \in 1..Len(P) |-> Apply(M, P[i])]
        w == IF Len(P) = 2 THEN 2 ELSE IF Len(P) = 3 THEN 4 ELSE 8
    IN Mid2(Q) = << LinApply(M, Mid2(P))[1] + w * M[5], LinApply(M, Mid2(P))[2] + w * M[6] >>
DumpM == Len(ops) >= 1 => PrintT(ToJson([ops |-> ops, M |-> M, det |-> Det(M)]))
=============================================================================
