------------------------------ MODULE SvgDoc ------------------------------
(* SVG document tree, shape conversion and flattening of nested transforms (C17), and the         *)
(* load / add / query / save / reload histories of Document (C18).                                *)
(*                                                                                                *)
(* A document is a sequence of nodes; node 1 is the <svg> root; every other node has a parent     *)
(* with a smaller index that is a group (or the root).  kind: "g" or a shape kind.  tf = index    *)
(* into TfLists (1 = no transform attribute).  The reference meaning of a document (SVG 1.1       *)
(* 7.5/7.6): a shape's geometry in the root frame is its own geometry mapped by                    *)
(*      M(root) * ... * M(parent) * M(own)         (outermost ancestor first).                     *)
(* Phase "build" grows the tree; phase "flat" runs the explicit-stack depth-first traversal the   *)
(* code uses (pop a group, emit its shape children with the group's matrix * own, push its group   *)
(* children with composed matrices); the invariant StackEqualsRecursive says both agree.           *)
EXTENDS AffineOps, FiniteSets, TLC, Json
CONSTANTS MaxNodes, ShapeKinds, TfCount, RootTfs      \* RootTfs: transform lists the root <svg> element may carry ({1} = none)

(* transform lists that may appear in a transform attribute (index 1 = attribute absent) *)
TfLists == << <<>>,
              <<[k |-> "translate", a |-> <<3, -2>>]>>,
              <<[k |-> "scale1", a |-> <<2>>]>>,
              <<[k |-> "rotate", a |-> <<1>>]>>,
              <<[k |-> "scale", a |-> <<-1, 1>>], [k |-> "translate1", a |-> <<5>>]>>,
              <<[k |-> "rotatec", a |-> <<1, 4, 1>>]>>,
              <<[k |-> "skewX", a |-> <<1>>], [k |-> "scale", a |-> <<1, 2>>]>>,
              <<[k |-> "matrix", a |-> <<1, 2, -1, 1, 4, -3>>]>>,
              <<[k |-> "skewY", a |-> <<-1>>]>>,
              <<[k |-> "translate", a |-> <<1, 1>>], [k |-> "rotate", a |-> <<3>>], [k |-> "scale1", a |-> <<3>>]>> >>
RECURSIVE ListMatrix(_)
ListMatrix(os) == IF os = <<>> THEN Id ELSE Mul(OpMatrix(Head(os)), ListMatrix(Tail(os)))
TfM(i) == ListMatrix(TfLists[i])
AllShapes == {"path", "line", "polyline", "polygon", "rect", "rrect", "circle", "ellipse"}

VARIABLES nodes, phase, stack, out
vars == <<nodes, phase, stack, out>>
Root(t) == [parent |-> 0, kind |-> "g", tf |-> t]
Init == (\E t \in RootTfs : nodes = <<Root(t)>>) /\ phase = "build" /\ stack = <<>> /\ out = {}
IsGroup(k) == nodes[k].kind = "g"
AddNode == /\ phase = "build" /\ Len(nodes) < MaxNodes
           /\ \E p \in 1..Len(nodes), kd \in ShapeKinds \cup {"g"}, t \in 1..TfCount :
                /\ IsGroup(p)
                /\ nodes' = Append(nodes, [parent |-> p, kind |-> kd, tf |-> t])
           /\ UNCHANGED <<phase, stack, out>>
StartFlat == /\ phase = "build" /\ Len(nodes) >= 2
             /\ phase' = "flat" /\ stack' = << <<1, TfM(nodes[1].tf)>> >> /\ UNCHANGED <<nodes, out>>
Children(g) == { k \in 1..Len(nodes) : nodes[k].parent = g }
(* one iteration of the traversal loop: pop the top group *)
RECURSIVE SetToSeq(_)
SetToSeq(S) == IF S = {} THEN <<>> ELSE LET x == CHOOSE y \in S : \A z \in S : y <= z IN <<x>> \o SetToSeq(S \ {x})
PopGroup == /\ phase = "flat" /\ stack # <<>>
            /\ LET top == stack[Len(stack)]
                   g == top[1]
                   Mg == top[2]
                   shapes == { k \in Children(g) : ~IsGroup(k) }
                   groups == SetToSeq({ k \in Children(g) : IsGroup(k) })
               IN /\ out' = out \cup { <<k, Mul(Mg, TfM(nodes[k].tf))>> : k \in shapes }
                  /\ stack' = SubSeq(stack, 1, Len(stack)-1) \o [i \in 1..Len(groups) |-> <<groups[i], Mul(Mg, TfM(nodes[groups[i]].tf))>>]
            /\ UNCHANGED <<nodes, phase>>
Finish == phase = "flat" /\ stack = <<>> /\ phase' = "done" /\ UNCHANGED <<nodes, stack, out>>
Next == AddNode \/ StartFlat \/ PopGroup \/ Finish
Spec == Init /\ [][Next]_vars
\* ---------- reference semantics: product of the transform attributes from the root down to the node
RECURSIVE Ctm(_)
Ctm(k) == IF k = 0 THEN Id ELSE Mul(Ctm(nodes[k].parent), TfM(nodes[k].tf))
Flat == { <<k, Ctm(k)>> : k \in { j \in 1..Len(nodes) : ~IsGroup(j) } }
StackEqualsRecursive == phase = "done" => out = Flat
(* during the traversal every emitted pair is already the reference pair, and the stack holds reference matrices *)
PartialOK == phase = "flat" => /\ out \subseteq Flat
                                /\ \A i \in 1..Len(stack) : stack[i][2] = Ctm(stack[i][1])
TreeOK == \A k \in 2..Len(nodes) : nodes[k].parent < k /\ IsGroup(nodes[k].parent)
(* paths_from_group(g, recursive): the shapes under g, still expressed in the root frame *)
RECURSIVE Under(_, _)
Under(k, g) == IF k = 0 THEN FALSE ELSE IF k = g THEN TRUE ELSE Under(nodes[k].parent, g)
FromGroup(g, recursive) == { pr \in Flat : IF recursive THEN Under(nodes[pr[1]].parent, g) ELSE nodes[pr[1]].parent = g }

\* ---------- shape conversion (SVG 1.1 chapter 9): attributes are a function of the node index so that nodes differ
AttrOf(kd, k) ==
  CASE kd = "line"     -> [x1 |-> k - 2, y1 |-> 2*k - 6, x2 |-> k + 4, y2 |-> 4 - k]          \* zeros at k = 2, 3, 4: an attribute that is 0 may be left out (default)
    [] kd = "polyline" -> [pts |-> << <<k, 2>>, <<k + 3, 2>>, <<k + 3, 6>>, <<k - 1, 7>> >>]
    [] kd = "polygon"  -> [pts |-> << <<1, k>>, <<5, k + 1>>, <<3, k + 4>> >>]
    [] kd = "rect"     -> [x |-> k - 3, y |-> 2*k - 4, w |-> 4 + k, h |-> 3]
    [] kd = "rrect"    -> [x |-> k, y |-> 2*k - 3, w |-> 6 + 2*k, h |-> 6,                \* 0 = attribute absent: the other one is used for both
                           rx |-> (IF k % 3 = 2 THEN 0 ELSE IF k % 6 = 3 THEN 9 + k ELSE 1),     \* k = 3, 9: more than half the width (clamped, SVG 1.1 9.2)
                           ry |-> (IF k % 3 = 1 THEN 0 ELSE IF k % 6 = 2 THEN 7 ELSE 2)]        \* k = 2, 8: more than half the height (and, rx being absent, of the width)
    [] kd = "circle"   -> [cx |-> k - 2, cy |-> 3 - k, r |-> 2 + k]
    [] kd = "ellipse"  -> [cx |-> k, cy |-> 3 - k, rx |-> 2 + k, ry |-> 3]
    [] OTHER           -> [d |-> k % 2]
Ln(p, q) == <<"L", p, q>>
Polyline(pts, close) == [i \in 1..(Len(pts) - 1 + (IF close THEN 1 ELSE 0)) |-> Ln(pts[i], pts[(i % Len(pts)) + 1])]
ShapeSegs(kd, k) ==
  LET a == AttrOf(kd, k) IN
  CASE kd = "line"     -> << Ln(<<a.x1, a.y1>>, <<a.x2, a.y2>>) >>
    [] kd = "polyline" -> Polyline(a.pts, FALSE)
    [] kd = "polygon"  -> Polyline(a.pts, TRUE)
    [] kd = "rect"     -> Polyline(<< <<a.x, a.y>>, <<a.x + a.w, a.y>>, <<a.x + a.w, a.y + a.h>>, <<a.x, a.y + a.h>> >>, TRUE)
    [] kd = "rrect"    -> LET rx0 == IF a.rx = 0 THEN a.ry ELSE a.rx
                              ry0 == IF a.ry = 0 THEN a.rx ELSE a.ry
                              \* "if rx is greater than half of the width, the effective rx is half of the width" (same for ry / height)
                              rx == IF rx0 > a.w \div 2 THEN a.w \div 2 ELSE rx0
                              ry == IF ry0 > a.h \div 2 THEN a.h \div 2 ELSE ry0
                              r == <<rx, ry>>
                              Arc(p, q) == <<"A", p, r, 0, 0, 1, q>>
                          IN << Ln(<<a.x + rx, a.y>>, <<a.x + a.w - rx, a.y>>),
                                Arc(<<a.x + a.w - rx, a.y>>, <<a.x + a.w, a.y + ry>>),
                                Ln(<<a.x + a.w, a.y + ry>>, <<a.x + a.w, a.y + a.h - ry>>),
                                Arc(<<a.x + a.w, a.y + a.h - ry>>, <<a.x + a.w - rx, a.y + a.h>>),
                                Ln(<<a.x + a.w - rx, a.y + a.h>>, <<a.x + rx, a.y + a.h>>),
                                Arc(<<a.x + rx, a.y + a.h>>, <<a.x, a.y + a.h - ry>>),
                                Ln(<<a.x, a.y + a.h - ry>>, <<a.x, a.y + ry>>),
                                Arc(<<a.x, a.y + ry>>, <<a.x + rx, a.y>>) >>
    [] kd = "circle"   -> << <<"E", <<a.cx, a.cy>>, <<a.r, a.r>> >> >>
    [] kd = "ellipse"  -> << <<"E", <<a.cx, a.cy>>, <<a.rx, a.ry>> >> >>
    [] OTHER           -> <<>>
(* a rectangle's outline is closed and its four sides are axis-parallel; a rounded one alternates lines and arcs *)
ShapesClosed == \A k \in 2..Len(nodes) : nodes[k].kind \in {"rect", "rrect", "polygon"} =>
                   LET sg == ShapeSegs(nodes[k].kind, k) IN sg[Len(sg)][Len(sg[Len(sg)])] = sg[1][2]
Dump == phase = "done" => PrintT(ToJson([nodes |-> nodes,
            flat |-> [k \in 1..Len(nodes) |-> IF IsGroup(k) THEN <<>> ELSE Ctm(k)],
            lists |-> [k \in 1..Len(nodes) |-> TfLists[nodes[k].tf]],
            attrs |-> [k \in 1..Len(nodes) |-> IF IsGroup(k) THEN [g |-> 1] ELSE AttrOf(nodes[k].kind, k)],
            geom |-> [k \in 1..Len(nodes) |-> IF IsGroup(k) THEN <<>> ELSE ShapeSegs(nodes[k].kind, k)]]))
=============================================================================
