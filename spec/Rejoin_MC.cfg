SPECIFICATION Spec
CONSTANTS N = 3
  Variant = "correct"
INVARIANT JointsKept
PROPERTY StartsUntouched
CHECK_DEADLOCK FALSE
