----------------------------- MODULE BezierBox -----------------------------
(* Exact extremes of a 1-D Bezier coordinate polynomial (C08; used by C13).                       *)
(* P = <<P0..Pn>>, n <= 3, small integers.  The critical points are the roots of the derivative   *)
(*    n = 3:  A t^2 + B t + C,  A = -P0+3P1-3P2+P3, B = 2(P0-2P1+P2), C = P1-P0                    *)
(*    n = 2:  (P1-P0) + t (P0-2P1+P2)                                                              *)
(* Only vectors whose critical points are rational are explored (perfect-square discriminant, or   *)
(* the degree of the derivative degenerates: A = 0, or A = B = 0), so min and max are exact        *)
(* rationals <<num, den>>.  The walk over the witnesses B(j/8) checks the box really contains the  *)
(* curve; Attained says each side is touched at t = 0, 1 or a critical point inside (0,1).         *)
EXTENDS Integers, Sequences, FiniteSets, TLC, Json
CONSTANTS Vals, W, MaxDen, Degs  \* control values; witnesses j/W; bound on the denominators of critical points; degrees explored
MinusThree == -3
ValsA == -3..3
ValsB == {-3, -1, 0, 2, 3}
ValsC == -9..9
DegsAll == 1..3
Degs2 == {2}
Abs(x) == IF x < 0 THEN -x ELSE x
IsSquare(n) == n >= 0 /\ \E r \in 0..60 : r * r = n
Sqrt(n) == CHOOSE r \in 0..60 : r * r = n
\* rationals <<n, d>> with d > 0
RECURSIVE GCD(_, _)
GCD(a, b) == IF b = 0 THEN a ELSE GCD(b, a % b)
Norm(q) == LET s == IF q[2] < 0 THEN <<-q[1], -q[2]>> ELSE q
               g == GCD(Abs(s[1]), s[2])
           IN <<s[1] \div g, s[2] \div g>>
RLt(a, b) == a[1] * b[2] < b[1] * a[2]
RLe(a, b) == a[1] * b[2] <= b[1] * a[2]
In01(q) == q[1] > 0 /\ q[1] < q[2]
\* value of the curve at t = p/q, as a rational with denominator q^n
Val(P, t) == LET p == t[1]
                 q == t[2]
                 n == Len(P) - 1
             IN IF n = 1 THEN <<(q - p) * P[1] + p * P[2], q>>
                ELSE IF n = 2 THEN <<(q-p)*(q-p)*P[1] + 2*(q-p)*p*P[2] + p*p*P[3], q*q>>
                ELSE <<(q-p)*(q-p)*(q-p)*P[1] + 3*(q-p)*(q-p)*p*P[2] + 3*(q-p)*p*p*P[3] + p*p*p*P[4], q*q*q>>
A3(P) == -P[1] + 3*P[2] - 3*P[3] + P[4]
B3(P) == 2 * (P[1] - 2*P[2] + P[3])
C3(P) == P[2] - P[1]
Disc(P) == B3(P) * B3(P) - 4 * A3(P) * C3(P)
Known(P) == CASE Len(P) = 2 -> TRUE
              [] Len(P) = 3 -> TRUE
              [] OTHER -> A3(P) = 0 \/ Disc(P) < 0 \/ IsSquare(Disc(P))
Crit(P) == CASE Len(P) = 2 -> {}
             [] Len(P) = 3 -> LET d == P[1] - 2*P[2] + P[3] IN IF d = 0 THEN {} ELSE { Norm(<<P[1] - P[2], d>>) }
             [] OTHER -> IF A3(P) # 0 THEN IF Disc(P) < 0 THEN {}
                                          ELSE { Norm(<<-B3(P) + Sqrt(Disc(P)), 2 * A3(P)>>), Norm(<<-B3(P) - Sqrt(Disc(P)), 2 * A3(P)>>) }
                         ELSE IF B3(P) # 0 THEN { Norm(<<-C3(P), B3(P)>>) } ELSE {}
Cands(P) == { <<0, 1>>, <<1, 1>> } \cup { t \in Crit(P) : In01(t) }
CVals(P) == { Val(P, t) : t \in Cands(P) }
Min(P) == CHOOSE v \in CVals(P) : \A w \in CVals(P) : RLe(v, w)
Max(P) == CHOOSE v \in CVals(P) : \A w \in CVals(P) : RLe(w, v)
VARIABLES P, j
vars == <<P, j>>
Init == /\ \E n \in Degs : P \in [1..(n+1) -> Vals]
        /\ Known(P) /\ j = 0
        /\ \A t \in Crit(P) : t[2] <= MaxDen          \* keeps every product below 2^31
Step == j < W /\ j' = j + 1 /\ UNCHANGED P
Next == Step
Spec == Init /\ [][Next]_vars
WitnessInside == RLe(Min(P), Val(P, <<j, W>>)) /\ RLe(Val(P, <<j, W>>), Max(P))
Attained == \E t \in Cands(P) : Val(P, t) = Min(P) /\ \E u \in Cands(P) : Val(P, u) = Max(P)
EndsInside == RLe(Min(P), <<P[1], 1>>) /\ RLe(<<P[Len(P)], 1>>, Max(P))
(* a critical point is a root of the derivative: the control polygon of the split curve has a repeated value there - checked via the derivative value *)
DerivZero == \A t \in Crit(P) : Len(P) = 4 => A3(P) * t[1] * t[1] + B3(P) * t[1] * t[2] + C3(P) * t[2] * t[2] = 0

\* ---------- total variation on [a/W, b/W]: the arc length of the collinear curve P * (unit direction)   (C06)
RSub(x, y) == Norm(<<x[1] * y[2] - y[1] * x[2], x[2] * y[2]>>)
RAdd(x, y) == Norm(<<x[1] * y[2] + y[1] * x[2], x[2] * y[2]>>)
RAbs(x) == <<Abs(x[1]), x[2]>>
CutsIn(a, b) == { Norm(<<a, W>>), Norm(<<b, W>>) } \cup { t \in Crit(P) : RLt(<<a, W>>, t) /\ RLt(t, <<b, W>>) }
RECURSIVE SortSet(_)
SortSet(S) == IF S = {} THEN <<>> ELSE LET m == CHOOSE x \in S : \A y \in S : RLe(x, y) IN <<m>> \o SortSet(S \ {m})
RECURSIVE SumVar(_, _)
SumVar(cs, i) == IF i >= Len(cs) THEN <<0, 1>> ELSE RAdd(RAbs(RSub(Norm(Val(P, cs[i+1])), Norm(Val(P, cs[i])))), SumVar(cs, i+1))
TV(a, b) == IF a = b THEN <<0, 1>> ELSE SumVar(SortSet(CutsIn(a, b)), 1)
TVOK == \A t \in Crit(P) : t[2] <= 3          \* keeps every cross product below 2^31
TVAdditive == TVOK => \A m \in 0..j : RAdd(TV(0, m), TV(m, j)) = TV(0, j)
TVAtLeastChord == TVOK => RLe(RAbs(RSub(Norm(Val(P, <<j, W>>)), <<P[1], 1>>)), TV(0, j))
RECURSIVE PolyLen(_)
PolyLen(i) == IF i >= Len(P) THEN 0 ELSE Abs(P[i+1] - P[i]) + PolyLen(i+1)
TVAtMostPolygon == TVOK => RLe(TV(0, W), <<PolyLen(1), 1>>)

(* whole-curve total variation of a quadratic in closed form: at its critical parameter the curve is at (P0 P2 - P1^2)/(P0 - 2 P1 + P2) *)
QuadTV01 == IF Len(P) # 3 THEN <<0, 1>>
            ELSE LET a == P[1] - 2 * P[2] + P[3]
                     inside == a # 0 /\ In01(Norm(<<P[1] - P[2], a>>))
                 IN IF ~inside THEN <<Abs(P[3] - P[1]), 1>>
                    ELSE LET apex == Norm(<<P[1] * P[3] - P[2] * P[2], a>>)
                         IN RAdd(RAbs(RSub(apex, <<P[1], 1>>)), RAbs(RSub(<<P[3], 1>>, apex)))
QuadTVAgrees == (Len(P) = 3 /\ TVOK) => QuadTV01 = TV(0, W)
AtStart == j = 0
TVMonotone == [][TVOK => RLe(TV(0, j), TV(0, j'))]_vars
Dump == j = 0 => PrintT(ToJson([P |-> P, min |-> Min(P), max |-> Max(P), ncrit |-> Cardinality({ t \in Crit(P) : In01(t) }),
                                tvok |-> TVOK, qtv |-> QuadTV01, tv |-> IF TVOK THEN [i \in 1..(W+1) |-> TV(0, i-1)] ELSE <<>>,
                                tvmid |-> IF TVOK THEN TV(W \div 4, (3 * W) \div 4) ELSE <<0, 1>>]))
=============================================================================
