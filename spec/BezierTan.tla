----------------------------- MODULE BezierTan -----------------------------
(* Direction of travel of a 2-D Bezier curve at its ends when leading / trailing control points    *)
(* coincide (C15): the normal case for S/T commands after a non-curve.  If P0 = ... = Pc and        *)
(* P(c+1) # P0 then B(t) - P0 = C(n,c+1) t^(c+1) (P(c+1) - P0) + O(t^(c+2)), so the unit tangent at *)
(* t = 0 - the limit of B'/|B'| from inside the interval - is the direction of P(c+1) - P0, sign    *)
(* included; symmetrically at t = 1.  The model states this through the derivatives of the         *)
(* coordinate polynomials (all lower derivatives vanish at the end, the first non-vanishing one is  *)
(* a positive multiple of the control difference) and exports the exact direction vectors, plus the *)
(* exact first and second derivative at t = 1/2 for curvature.                                      *)
EXTENDS Integers, Sequences, FiniteSets, TLC, Json
CONSTANTS Dirs, Others
DirsA == { <<1,0>>, <<1,1>>, <<0,1>>, <<-1,1>>, <<-1,0>>, <<-1,-1>>, <<0,-1>>, <<1,-1>>, <<2,1>>, <<-1,2>>, <<-2,-1>>, <<1,-2>> }
OthersA == { <<3,1>>, <<-2,2>>, <<0,-3>> }
Add(p, q) == <<p[1] + q[1], p[2] + q[2]>>
Sub(p, q) == <<p[1] - q[1], p[2] - q[2]>>
Sc(k, p) == <<k * p[1], k * p[2]>>
DerivP(Q) == [i \in 1..(Len(Q)-1) |-> Sc(Len(Q)-1, Sub(Q[i+1], Q[i]))]
RECURSIVE DerivK(_, _)
DerivK(Q, k) == IF k = 0 THEN Q ELSE IF Len(Q) = 1 THEN << <<0,0>> >> ELSE DerivK(DerivP(Q), k-1)
First(Q) == Q[1]
Last(Q) == Q[Len(Q)]
(* value at t = 1/2 scaled by 2^deg (de Casteljau with integer weights) *)
Half(Q) == IF Len(Q) = 1 THEN Q[1]
           ELSE IF Len(Q) = 2 THEN Add(Q[1], Q[2])
           ELSE IF Len(Q) = 3 THEN Add(Add(Q[1], Sc(2, Q[2])), Q[3])
           ELSE Add(Add(Q[1], Sc(3, Q[2])), Add(Sc(3, Q[3]), Q[4]))
VARIABLES P, c0, c1
vars == <<P, c0, c1>>
(* a curve of degree n whose first c0+1 control points coincide and whose last c1+1 coincide; the *)
(* next control point sits in direction d from the start (resp. the end is approached along e)     *)
Init == \E n \in 2..3, a \in 0..2, b \in 0..2, d \in Dirs, e \in Dirs, o \in Others :
          /\ a + b <= n - 1
          /\ c0 = a /\ c1 = b
          /\ LET S == <<0, 0>>
                 E == <<4, 3>>
                 mid == IF a + b = n - 1 THEN {} ELSE {o}
             IN P = [i \in 1..(n+1) |-> IF i <= a + 1 THEN S
                                         ELSE IF i >= n + 1 - b THEN E
                                         ELSE IF i = a + 2 /\ a + b < n - 1 THEN Add(S, d)
                                         ELSE IF i = n - b /\ a + b < n - 1 THEN Sub(E, e)
                                         ELSE o]
Next == UNCHANGED vars
Spec == Init /\ [][Next]_vars
n == Len(P) - 1
(* first index whose control point differs from the start / last index that differs from the end *)
K0 == CHOOSE k \in 2..(n+1) : P[k] # P[1] /\ \A i \in 1..(k-1) : P[i] = P[1]
K1 == CHOOSE k \in 1..n : P[k] # P[n+1] /\ \A i \in (k+1)..(n+1) : P[i] = P[n+1]
Tan0 == Sub(P[K0], P[1])
Tan1 == Sub(P[n+1], P[K1])
Fact(k) == IF k <= 1 THEN 1 ELSE IF k = 2 THEN 2 ELSE 6
(* Taylor: derivatives of order < K0-1 vanish at t = 0, the derivative of order K0-1 is n!/(n-K0+1)! (P[K0] - P0) *)
TaylorAt0 == /\ \A k \in 1..(K0-2) : First(DerivK(P, k)) = <<0,0>>
             /\ First(DerivK(P, K0-1)) = Sc(Fact(n) \div Fact(n - K0 + 1), Tan0)
(* at t = 1 the derivative of order m is (+-)^m ... : the first non-vanishing one is (-1)^(m-1) n!/(n-m)! (Pn - P[K1]) *)
TaylorAt1 == LET m == n + 1 - K1 IN
             /\ \A k \in 1..(m-1) : Last(DerivK(P, k)) = <<0,0>>
             /\ Last(DerivK(P, m)) = Sc((IF m % 2 = 1 THEN 1 ELSE -1) * (Fact(n) \div Fact(n - m)), Tan1)
NonDegenerate == Tan0 # <<0,0>> /\ Tan1 # <<0,0>>
Dump == PrintT(ToJson([P |-> P, tan0 |-> Tan0, tan1 |-> Tan1, k0 |-> K0 - 1, k1 |-> n + 1 - K1,
                       d1half |-> Half(DerivK(P, 1)), d2half |-> Half(DerivK(P, 2))]))
=============================================================================
