SPECIFICATION Spec
INVARIANT PenAtEnd
INVARIANT Progress
CHECK_DEADLOCK FALSE
