------------------------------ MODULE SvgHist ------------------------------
(* Histories of a Document (C18): load -> add_path / add_group -> paths() -> save -> reload.      *)
(* Abstract document = set of groups (each a sequence of ids from the root) + the sequence of     *)
(* path entries [g, p, a] in insertion order (g = owning group, p = path id, a = attribute-set    *)
(* id).  `file` is what the last save wrote.  One action per public operation; `hist` records     *)
(* the operations for replay on a real Document in a temporary directory.                         *)
(* What the property demands: everything added is visible to the document's own queries (in the  *)
(* group it was added to), and save followed by reload is the identity on what queries return.    *)
EXTENDS Integers, Sequences, FiniteSets, TLC, Json
CONSTANTS MaxOps, NPaths, Names, Variant
GroupSpecs == { <<>> } \cup { <<a>> : a \in Names } \cup { <<a, b>> : a \in Names, b \in Names }
VARIABLES groups, entries, file, origin, hist
vars == <<groups, entries, file, origin, hist>>
View == <<groups, entries, file, origin, Len(hist)>>
NoFile == [groups |-> {}, entries |-> <<>>, ok |-> FALSE]
Prefixes(g) == { SubSeq(g, 1, k) : k \in 0..Len(g) }
Init == /\ origin \in {"empty", "loaded"}            \* Document() or Document(file with one group "base" holding path 0)
        /\ groups = IF origin = "empty" THEN { <<>> } ELSE { <<>>, <<"base">> }
        /\ entries = IF origin = "empty" THEN <<>> ELSE << [g |-> <<"base">>, p |-> 0, a |-> 1] >>
        /\ file = NoFile /\ hist = <<>>
More == Len(hist) < MaxOps
Used == { entries[i].p : i \in 1..Len(entries) }
(* add_path(path, attribs, group): group = None (root), a list of nested names (get-or-add), or an element *)
AddPath == More /\ \E p \in 1..NPaths, a \in 0..3,     \* attribute sets: none / two plain ones / one carrying a stale 'd' of another path
             how \in {"none", "names", "element"}, g \in GroupSpecs :
             /\ p \notin Used /\ \A q \in 1..(p-1) : q \in Used        \* ids are used in order (symmetry)
             /\ (how = "none" => g = <<>>)
             /\ (how = "element" => g \in groups /\ g # <<>>)
             /\ (how = "names" => g # <<>>)
             /\ groups' = groups \cup Prefixes(g)
             /\ entries' = Append(entries, [g |-> g, p |-> p, a |-> a])
             /\ hist' = Append(hist, [op |-> "add_path", p |-> p, a |-> a, how |-> how, g |-> g])
             /\ UNCHANGED <<file, origin>>
(* add_group via get_or_add_group(nested names) *)
AddGroup == More /\ \E g \in GroupSpecs : g # <<>> /\ g \notin groups
             /\ groups' = groups \cup Prefixes(g) /\ hist' = Append(hist, [op |-> "add_group", g |-> g])
             /\ UNCHANGED <<entries, file, origin>>
Save == More /\ file' = [groups |-> groups, entries |-> entries, ok |-> TRUE]
        /\ hist' = Append(hist, [op |-> "save"]) /\ UNCHANGED <<groups, entries, origin>>
Reload == More /\ file.ok /\ groups' = file.groups /\ entries' = file.entries
          /\ hist' = Append(hist, [op |-> "reload"]) /\ UNCHANGED <<file, origin>>
Next == AddPath \/ AddGroup \/ Save \/ Reload
Spec == Init /\ [][Next]_vars
\* ---------- what the queries must return
Visible == { entries[i].p : i \in 1..Len(entries) }
Under(g) == { entries[i].p : i \in { j \in 1..Len(entries) : g \in Prefixes(entries[j].g) } }
AddedVisible == \A i \in 1..Len(entries) : entries[i].g \in groups /\ entries[i].p \in Under(entries[i].g)
GroupsClosed == \A g \in groups : Prefixes(g) \subseteq groups
SaveReloadIdentity == [][hist'[Len(hist')].op = "reload" => (entries' = file.entries /\ groups' = file.groups)]_vars
FileIsSnapshot == [][hist'[Len(hist')].op = "save" => (file'.entries = entries /\ file'.groups = groups)]_vars
OrderKept == \A i, j \in 1..Len(entries) : (i < j /\ entries[i].p > 0 /\ entries[j].p > 0) => entries[i].p # entries[j].p
Dump == Len(hist) = MaxOps => PrintT(ToJson([origin |-> origin, hist |-> hist,
          final |-> [i \in 1..Len(entries) |-> entries[i]]]))
=============================================================================
