---------------------------- MODULE MC_Placement ----------------------------
(* Apalache (symbolic, unbounded integers): why the "placement" families of the checks are entitled to their oracle.  Every        *)
(* geometric check repeats a share of its cases in other units and at other positions and demands the answers of the base case,  *)
(* mapped.  That demand rests on these identities, which hold for ALL integer maps and points (not only the placements that are *)
(* run): under an affine map M = <<a, b, c, d, e, f>> : (x, y) -> (a x + c y + e, b x + d y + f)                                  *)
(*   - differences of points (chords, handles, derivative control vectors) are mapped by the linear part only;                   *)
(*   - the parameters at which two lines cross are ratios of determinants of such differences, and all of them pick up the same  *)
(*     factor det M: crossing parameters do not depend on the placement (C11 / C12);                                              *)
(*   - under a similarity (a, b, -b, a) squared lengths pick up the factor a^2 + b^2: lengths scale, ratios of lengths - the      *)
(*     T-intervals of C05, s / L of C07 - do not change (C05, C06, C07);                                                         *)
(*   - under scale-and-translate (k, 0, 0, k, e, f) the extreme coordinates are the mapped extreme coordinates, minimum and      *)
(*     maximum changing places when k < 0 (C08).                                                                                 *)
EXTENDS Integers
VARIABLES
  \* @type: Int;
  a,
  \* @type: Int;
  b,
  \* @type: Int;
  c,
  \* @type: Int;
  d,
  \* @type: Int;
  e,
  \* @type: Int;
  f,
  \* @type: Int;
  k,
  \* @type: Int;
  x0,
  \* @type: Int;
  y0,
  \* @type: Int;
  x1,
  \* @type: Int;
  y1,
  \* @type: Int;
  x2,
  \* @type: Int;
  y2,
  \* @type: Int;
  x3,
  \* @type: Int;
  y3
\* @type: Seq(Int);
vars == <<a, b, c, d, e, f, k, x0, y0, x1, y1, x2, y2, x3, y3>>
Init == /\ a \in Int /\ b \in Int /\ c \in Int /\ d \in Int /\ e \in Int /\ f \in Int /\ k \in Int
        /\ x0 \in Int /\ y0 \in Int /\ x1 \in Int /\ y1 \in Int /\ x2 \in Int /\ y2 \in Int /\ x3 \in Int /\ y3 \in Int
Next == UNCHANGED vars
MX(x, y) == a*x + c*y + e
MY(x, y) == b*x + d*y + f
Det == a*d - b*c
Cross(ux, uy, vx, vy) == ux*vy - uy*vx
\* differences are mapped by the linear part
DifferencesLinear == /\ MX(x1, y1) - MX(x0, y0) = a*(x1 - x0) + c*(y1 - y0)
                     /\ MY(x1, y1) - MY(x0, y0) = b*(x1 - x0) + d*(y1 - y0)
\* lines P0P1 and P2P3: u = P1 - P0, v = P3 - P2, w = P2 - P0; they cross at t1 = Cross(w, v) / Cross(u, v), t2 = Cross(w, u) / Cross(u, v)
ux == x1 - x0
uy == y1 - y0
vx == x3 - x2
vy == y3 - y2
wx == x2 - x0
wy == y2 - y0
Mux == MX(x1, y1) - MX(x0, y0)
Muy == MY(x1, y1) - MY(x0, y0)
Mvx == MX(x3, y3) - MX(x2, y2)
Mvy == MY(x3, y3) - MY(x2, y2)
Mwx == MX(x2, y2) - MX(x0, y0)
Mwy == MY(x2, y2) - MY(x0, y0)
\* each of the three determinants is multiplied by det M, so their ratios t1, t2 are unchanged (the quotient step is arithmetic, not model checking)
CrossingParametersInvariant ==
  /\ Cross(Mux, Muy, Mvx, Mvy) = Det * Cross(ux, uy, vx, vy)
  /\ Cross(Mwx, Mwy, Mvx, Mvy) = Det * Cross(wx, wy, vx, vy)
  /\ Cross(Mwx, Mwy, Mux, Muy) = Det * Cross(wx, wy, ux, uy)
\* a similarity: c = -b, d = a
SX(x, y) == a*x - b*y + e
SY(x, y) == b*x + a*y + f
SquaredLengthScales ==
  (SX(x1, y1) - SX(x0, y0)) * (SX(x1, y1) - SX(x0, y0)) + (SY(x1, y1) - SY(x0, y0)) * (SY(x1, y1) - SY(x0, y0)) = (a*a + b*b) * (ux*ux + uy*uy)
\* the same factor for every chord: ratios of lengths (T-intervals, s / L) are unchanged
SquaredLengthScales2 ==
  (SX(x3, y3) - SX(x2, y2)) * (SX(x3, y3) - SX(x2, y2)) + (SY(x3, y3) - SY(x2, y2)) * (SY(x3, y3) - SY(x2, y2)) = (a*a + b*b) * (vx*vx + vy*vy)
\* scale and translate: extreme coordinates
Max(p, q) == IF p >= q THEN p ELSE q
Min(p, q) == IF p <= q THEN p ELSE q
BoxCommutes == /\ (k >= 0 => Max(k*x0 + e, k*x1 + e) = k*Max(x0, x1) + e /\ Min(k*x0 + e, k*x1 + e) = k*Min(x0, x1) + e)
               /\ (k <= 0 => Max(k*x0 + e, k*x1 + e) = k*Min(x0, x1) + e /\ Min(k*x0 + e, k*x1 + e) = k*Max(x0, x1) + e)
Inv == DifferencesLinear /\ CrossingParametersInvariant /\ SquaredLengthScales /\ SquaredLengthScales2 /\ BoxCommutes
\* must be refuted (non-vacuity): squared lengths do NOT scale by one factor under a general linear map
Wrong == (MX(x1, y1) - MX(x0, y0)) * (MX(x1, y1) - MX(x0, y0)) + (MY(x1, y1) - MY(x0, y0)) * (MY(x1, y1) - MY(x0, y0)) = (a*a + b*b) * (ux*ux + uy*uy)
=============================================================================
