------------------------------ MODULE MC_Ident ------------------------------
(* Apalache (symbolic, unbounded integers): the degree <= 3 identities behind C03 / C19 / C09 hold for ALL integer control  *)
(* points, parameter numerators a and denominators d - not only on the grids TLC enumerates.  Everything is scaled by d^n  *)
(* so that only integer polynomial arithmetic is involved; Z3 normalises both sides.                                     *)
EXTENDS Integers
VARIABLES
  \* @type: Int;
  p0,
  \* @type: Int;
  p1,
  \* @type: Int;
  p2,
  \* @type: Int;
  p3,
  \* @type: Int;
  a,
  \* @type: Int;
  d,
  \* @type: Int;
  u
Init == p0 \in Int /\ p1 \in Int /\ p2 \in Int /\ p3 \in Int /\ a \in Int /\ d \in Int /\ u \in Int
Next == UNCHANGED <<p0, p1, p2, p3, a, d, u>>
b == d - a
\* d^3 B(a/d), Bernstein form
Bern3 == b*b*b*p0 + 3*a*b*b*p1 + 3*a*a*b*p2 + a*a*a*p3
\* power basis (numpy order) as the library computes it, evaluated by Horner at a/d and scaled by d^3
c3 == -p0 + 3*(p1 - p2) + p3
c2 == 3*(p0 - 2*p1 + p2)
c1 == 3*(p1 - p0)
Horner3 == ((c3*a + c2*d)*a + c1*d*d)*a + p0*d*d*d
\* the nested form used by bezier_point / CubicBezier.point
Nested3 == p0*d*d*d + a*(3*(p1 - p0)*d*d + a*((3*(p0 + p2) - 6*p1)*d + a*(-p0 + 3*(p1 - p2) + p3)))
\* quadratic
Bern2 == b*b*p0 + 2*a*b*p1 + a*a*p2
Nested2 == p0*d*d + a*(2*(p1 - p0)*d + a*(p0 - 2*p1 + p2))
\* first derivative of the cubic scaled by d^2: Bernstein form of the hodograph vs derivative of the power basis
DBern3 == 3*(p1 - p0)*b*b + 6*(p2 - p1)*a*b + 3*(p3 - p2)*a*a
DPoly3 == 3*c3*a*a + 2*c2*a*d + c1*d*d
\* de Casteljau left piece at a/d evaluated at u/d equals the curve at (a u)/(d d); scaled by d^6
L0 == p0*d*d*d
L1 == (b*p0 + a*p1)*d*d
L2 == (b*b*p0 + 2*a*b*p1 + a*a*p2)*d
L3 == Bern3
v == d - u
LeftAtU == v*v*v*L0 + 3*u*v*v*L1 + 3*u*u*v*L2 + u*u*u*L3
w == a*u
z == d*d - w
CurveAtAU == z*z*z*p0 + 3*w*z*z*p1 + 3*w*w*z*p2 + w*w*w*p3
IdHorner == Horner3 = Bern3
IdNested == Nested3 = Bern3 /\ Nested2 = Bern2
IdDeriv == DBern3 = DPoly3
IdSplit == LeftAtU = CurveAtAU
Inv == IdHorner /\ IdNested /\ IdDeriv /\ IdSplit
\* a deliberately wrong coefficient: must be refuted (non-vacuity)
Wrong == ((c3*a + c2*d)*a + c1*d*d)*a + p0*d*d*d + p1 = Bern3
=============================================================================
