------------------------------ MODULE MC_Affine ------------------------------
(* Apalache (symbolic, unbounded integers): the algebra behind C10 / C17 / C14 holds for ALL integer affine maps, control     *)
(* points and parameters - not only for the matrices and lattices TLC enumerates in Affine.tla / AffineOps.tla / SvgDoc.tla /  *)
(* Area.tla.  An affine map is <<a, b, c, d, e, f>> : (x, y) -> (a x + c y + e, b x + d y + f)  (the SVG matrix(a b c d e f)). *)
EXTENDS Integers
VARIABLES
  \* @type: Int;
  a1,
  \* @type: Int;
  b1,
  \* @type: Int;
  c1,
  \* @type: Int;
  d1,
  \* @type: Int;
  e1,
  \* @type: Int;
  f1,
  \* @type: Int;
  a2,
  \* @type: Int;
  b2,
  \* @type: Int;
  c2,
  \* @type: Int;
  d2,
  \* @type: Int;
  e2,
  \* @type: Int;
  f2,
  \* @type: Int;
  a3,
  \* @type: Int;
  b3,
  \* @type: Int;
  c3,
  \* @type: Int;
  d3,
  \* @type: Int;
  e3,
  \* @type: Int;
  f3,
  \* @type: Int;
  x0,
  \* @type: Int;
  y0,
  \* @type: Int;
  x1,
  \* @type: Int;
  y1,
  \* @type: Int;
  x2,
  \* @type: Int;
  y2,
  \* @type: Int;
  x3,
  \* @type: Int;
  y3,
  \* @type: Int;
  t,
  \* @type: Int;
  den
\* @type: Seq(Int);
vars == <<a1, b1, c1, d1, e1, f1, a2, b2, c2, d2, e2, f2, a3, b3, c3, d3, e3, f3, x0, y0, x1, y1, x2, y2, x3, y3, t, den>>
Init == /\ a1 \in Int /\ b1 \in Int /\ c1 \in Int /\ d1 \in Int /\ e1 \in Int /\ f1 \in Int
        /\ a2 \in Int /\ b2 \in Int /\ c2 \in Int /\ d2 \in Int /\ e2 \in Int /\ f2 \in Int
        /\ a3 \in Int /\ b3 \in Int /\ c3 \in Int /\ d3 \in Int /\ e3 \in Int /\ f3 \in Int
        /\ x0 \in Int /\ y0 \in Int /\ x1 \in Int /\ y1 \in Int /\ x2 \in Int /\ y2 \in Int /\ x3 \in Int /\ y3 \in Int
        /\ t \in Int /\ den \in Int
Next == UNCHANGED vars
\* product M1 . M2 (apply M2 first), component-wise
P12a == a1*a2 + c1*b2
P12b == b1*a2 + d1*b2
P12c == a1*c2 + c1*d2
P12d == b1*c2 + d1*d2
P12e == a1*e2 + c1*f2 + e1
P12f == b1*e2 + d1*f2 + f1
P23a == a2*a3 + c2*b3
P23b == b2*a3 + d2*b3
P23c == a2*c3 + c2*d3
P23d == b2*c3 + d2*d3
P23e == a2*e3 + c2*f3 + e2
P23f == b2*e3 + d2*f3 + f2
\* applying a map to (x, y)
AX(a, c, e, x, y) == a*x + c*y + e
AY(b, d, f, x, y) == b*x + d*y + f
\* (M1 . M2)(p) = M1(M2(p)): a transform list is the composition of its items, a nested group the composition of its ancestors
ComposeIsComposition ==
  /\ AX(P12a, P12c, P12e, x0, y0) = AX(a1, c1, e1, AX(a2, c2, e2, x0, y0), AY(b2, d2, f2, x0, y0))
  /\ AY(P12b, P12d, P12f, x0, y0) = AY(b1, d1, f1, AX(a2, c2, e2, x0, y0), AY(b2, d2, f2, x0, y0))
\* (M1 . M2) . M3 = M1 . (M2 . M3): the explicit stack of the flattening loop equals the recursive product
Associative ==
  /\ P12a*a3 + P12c*b3 = a1*P23a + c1*P23b
  /\ P12b*a3 + P12d*b3 = b1*P23a + d1*P23b
  /\ P12a*c3 + P12c*d3 = a1*P23c + c1*P23d
  /\ P12b*c3 + P12d*d3 = b1*P23c + d1*P23d
  /\ P12a*e3 + P12c*f3 + P12e = a1*P23e + c1*P23f + e1
  /\ P12b*e3 + P12d*f3 + P12f = b1*P23e + d1*P23f + f1
\* det(M1 . M2) = det(M1) det(M2)
Det1 == a1*d1 - b1*c1
Det2 == a2*d2 - b2*c2
DetMultiplicative == P12a*P12d - P12b*P12c = Det1 * Det2
\* transforming the control points commutes with evaluating the curve (cubic, parameter t/den, everything scaled by den^3)
s == den - t
BezX == s*s*s*x0 + 3*t*s*s*x1 + 3*t*t*s*x2 + t*t*t*x3
BezY == s*s*s*y0 + 3*t*s*s*y1 + 3*t*t*s*y2 + t*t*t*y3
MX(x, y) == AX(a1, c1, e1, x, y)
MY(x, y) == AY(b1, d1, f1, x, y)
BMX == s*s*s*MX(x0, y0) + 3*t*s*s*MX(x1, y1) + 3*t*t*s*MX(x2, y2) + t*t*t*MX(x3, y3)
BMY == s*s*s*MY(x0, y0) + 3*t*s*s*MY(x1, y1) + 3*t*t*s*MY(x2, y2) + t*t*t*MY(x3, y3)
EvalCommutes == /\ BMX = a1*BezX + c1*BezY + e1*den*den*den
                /\ BMY = b1*BezX + d1*BezY + f1*den*den*den
\* twice the signed area of a triangle scales by the determinant (shoelace form; polygons are sums of such terms)
Tri2(px0, py0, px1, py1, px2, py2) == (px1 - px0)*(py2 - py0) - (px2 - px0)*(py1 - py0)
AreaScales == Tri2(MX(x0, y0), MY(x0, y0), MX(x1, y1), MY(x1, y1), MX(x2, y2), MY(x2, y2)) = Det1 * Tri2(x0, y0, x1, y1, x2, y2)
Inv == ComposeIsComposition /\ Associative /\ DetMultiplicative /\ EvalCommutes /\ AreaScales
\* the other order of composition: must be refuted (non-vacuity; matrix products do not commute)
Wrong == AX(P12a, P12c, P12e, x0, y0) = AX(a2, c2, e2, AX(a1, c1, e1, x0, y0), AY(b1, d1, f1, x0, y0))
=============================================================================
