SPECIFICATION Spec
CONSTANTS CoefSet <- Coefs
  MaxLen = 3
  T0Set <- T0s
INVARIANT Correct
INVARIANT Terminates
CHECK_DEADLOCK FALSE
