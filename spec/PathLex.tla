---------------------------- MODULE PathLex ----------------------------
(* Lexical layer of SVG path data (C02): numbers, separators and arc flags, as a character-level *)
(* DFA with maximal munch.  Number grammar = intersection of SVG 1.1 and SVG 2:                   *)
(*     sign? ( digits ('.' digits)? | '.' digits ) ( [eE] sign? digits )?                        *)
(* (a trailing dot "5." is legal in 1.1 only and is deliberately not generated).  Separators:    *)
(* wsp* ','? wsp*  - or nothing when the next number starts with a sign, or with '.' after a     *)
(* number that already has a '.' or an exponent.  Mode "flags": the text between the rotation    *)
(* and the x coordinate of an elliptical-arc argument list, where each flag is ONE character.    *)
(* TLC enumerates every viable string up to MaxLen; accepting states are dumped with the token   *)
(* values, and the harness feeds each string to the real parser.                                 *)
EXTENDS Integers, Sequences, TLC, Json
CONSTANTS MaxLen, Mode        \* Mode \in {"nums", "flags"}

Digit == {"0","1","2","3","4","5","6","7","8","9"}
DVal(ch) == CASE ch="0"->0 [] ch="1"->1 [] ch="2"->2 [] ch="3"->3 [] ch="4"->4 [] ch="5"->5
              [] ch="6"->6 [] ch="7"->7 [] ch="8"->8 [] ch="9"->9
Sigma == IF Mode = "nums" THEN {"0","1","5","+","-",".","e","E"," ",","} ELSE {"0","1"," ",","}

(* lexer state: q DFA state; number under construction = sg * mant * 10^(esg*ex - fd) *)
L0 == [q |-> IF Mode = "nums" THEN "need" ELSE "f_num", sg |-> 1, mant |-> 0, fd |-> 0, esg |-> 1, ex |-> 0,
       toks |-> <<>>]
Tok(ls) == <<ls.sg * ls.mant, ls.esg * ls.ex - ls.fd>>
Fin(ls) == [ls EXCEPT !.toks = Append(ls.toks, Tok(ls)), !.sg = 1, !.mant = 0, !.fd = 0, !.esg = 1, !.ex = 0]
Dead(ls) == [ls EXCEPT !.q = "dead"]
To(ls, q) == [ls EXCEPT !.q = q]
(* start a new number with character ch from a state with no pending number *)
Begin(ls, ch) == IF ch \in Digit THEN [ls EXCEPT !.q = "int", !.mant = DVal(ch)]
                 ELSE IF ch = "+" THEN To(ls, "sign")
                 ELSE IF ch = "-" THEN [ls EXCEPT !.q = "sign", !.sg = -1]
                 ELSE IF ch = "." THEN To(ls, "dot")
                 ELSE Dead(ls)
(* a complete number is pending and ch cannot extend it *)
After(ls, ch) == IF ch = " " THEN To(Fin(ls), "sep")
                 ELSE IF ch = "," THEN To(Fin(ls), "need")
                 ELSE IF ch \in {"+","-"} THEN Begin(Fin(ls), ch)
                 ELSE Dead(ls)
Flag(ls, ch) == [ls EXCEPT !.toks = Append(ls.toks, <<DVal(ch), 0>>), !.q = "f_flag"]
Step(ls, ch) ==
  LET q == ls.q IN
  CASE q = "need"  -> IF ch = " " THEN ls ELSE IF ch = "," THEN Dead(ls) ELSE Begin(ls, ch)
    [] q = "sep"   -> IF ch = " " THEN ls ELSE IF ch = "," THEN To(ls, "need") ELSE Begin(ls, ch)
    [] q = "sign"  -> IF ch \in Digit THEN [ls EXCEPT !.q = "int", !.mant = DVal(ch)]
                      ELSE IF ch = "." THEN To(ls, "dot") ELSE Dead(ls)
    [] q = "int"   -> IF ch \in Digit THEN [ls EXCEPT !.mant = 10 * ls.mant + DVal(ch)]
                      ELSE IF ch = "." THEN To(ls, "idot")
                      ELSE IF ch \in {"e","E"} THEN To(ls, "e")
                      ELSE After(ls, ch)
    [] q = "idot"  -> IF ch \in Digit THEN [ls EXCEPT !.q = "frac", !.mant = 10 * ls.mant + DVal(ch), !.fd = 1] ELSE Dead(ls)
    [] q = "dot"   -> IF ch \in Digit THEN [ls EXCEPT !.q = "frac", !.mant = DVal(ch), !.fd = 1] ELSE Dead(ls)
    [] q = "frac"  -> IF ch \in Digit THEN [ls EXCEPT !.mant = 10 * ls.mant + DVal(ch), !.fd = ls.fd + 1]
                      ELSE IF ch = "." THEN To(Fin(ls), "dot")              \* "0.5.5" = 0.5 then .5
                      ELSE IF ch \in {"e","E"} THEN To(ls, "e")
                      ELSE After(ls, ch)
    [] q = "e"     -> IF ch \in Digit THEN [ls EXCEPT !.q = "exp", !.ex = DVal(ch)]
                      ELSE IF ch = "+" THEN To(ls, "esign")
                      ELSE IF ch = "-" THEN [ls EXCEPT !.q = "esign", !.esg = -1]
                      ELSE Dead(ls)
    [] q = "esign" -> IF ch \in Digit THEN [ls EXCEPT !.q = "exp", !.ex = DVal(ch)] ELSE Dead(ls)
    [] q = "exp"   -> IF ch \in Digit THEN [ls EXCEPT !.ex = 10 * ls.ex + DVal(ch)]
                      ELSE IF ch = "." THEN To(Fin(ls), "dot")              \* "1e5.5" = 1e5 then .5
                      ELSE After(ls, ch)
    \* ---- flag mode: we are right after the digits of the rotation number
    [] q = "f_num"  -> IF ch = " " THEN To(ls, "f_sep") ELSE IF ch = "," THEN To(ls, "f_need") ELSE Dead(ls)
    [] q = "f_sep"  -> IF ch = " " THEN ls ELSE IF ch = "," THEN To(ls, "f_need")
                       ELSE IF ch \in {"0","1"} /\ Len(ls.toks) < 2 THEN Flag(ls, ch) ELSE Dead(ls)
    [] q = "f_need" -> IF ch = " " THEN ls
                       ELSE IF ch \in {"0","1"} /\ Len(ls.toks) < 2 THEN Flag(ls, ch) ELSE Dead(ls)
    [] q = "f_flag" -> IF ch = " " THEN To(ls, "f_sep") ELSE IF ch = "," THEN To(ls, "f_need")
                       ELSE IF ch \in {"0","1"} /\ Len(ls.toks) < 2 THEN Flag(ls, ch) ELSE Dead(ls)
    [] OTHER -> Dead(ls)

Accepting(ls) == IF Mode = "nums" THEN ls.q \in {"int", "frac", "exp", "sep"}
                 ELSE ls.q \in {"f_flag", "f_sep", "f_need"} /\ Len(ls.toks) = 2
Tokens(ls) == IF ls.q \in {"int", "frac", "exp"} THEN Append(ls.toks, Tok(ls)) ELSE ls.toks

RECURSIVE Lex(_, _)
Lex(ls, s) == IF s = <<>> THEN ls ELSE Lex(Step(ls, Head(s)), Tail(s))

VARIABLES inp, ls
vars == <<inp, ls>>
Init == inp = <<>> /\ ls = L0
Feed == /\ Len(inp) < MaxLen
        /\ \E ch \in Sigma : LET n == Step(ls, ch) IN
              /\ n.q # "dead"
              /\ n.mant < 1000000 /\ n.ex < 100
              /\ inp' = Append(inp, ch) /\ ls' = n
Next == Feed
Spec == Init /\ [][Next]_vars

\* ---------- invariants
LexIsFold == Lex(L0, inp) = ls
(* canonical re-spelling of a token list: mantissa digits, 'e', exponent digits, single spaces *)
RECURSIVE Digits(_)
Digits(n) == IF n < 10 THEN <<<<"0","1","2","3","4","5","6","7","8","9">>[n+1]>>
             ELSE Digits(n \div 10) \o <<<<"0","1","2","3","4","5","6","7","8","9">>[(n % 10)+1]>>
SInt(n) == IF n < 0 THEN <<"-">> \o Digits(-n) ELSE Digits(n)
Canon1(t) == SInt(t[1]) \o <<"e">> \o SInt(t[2])
RECURSIVE Canon(_)
Canon(ts) == IF ts = <<>> THEN <<>> ELSE IF Len(ts) = 1 THEN Canon1(ts[1])
             ELSE Canon1(Head(ts)) \o <<" ">> \o Canon(Tail(ts))
(* "lexically different spellings ... parse to equal": re-lexing the canonical spelling of the    *)
(* tokens gives the same tokens.  A token -0 carries no sign in (mant,exp) form, as in IEEE == .  *)
ReTokenise == (Mode = "nums" /\ Accepting(ls)) => Tokens(Lex(L0, Canon(Tokens(ls)))) = Tokens(ls)
(* the number of tokens never decreases and only a separator, a sign or a '.' ends a token *)
TokMonotone == [][Len(ls'.toks) >= Len(ls.toks) /\ Len(ls'.toks) <= Len(ls.toks) + 1]_vars
TokEndsOnly == [][Len(ls'.toks) = Len(ls.toks) + 1 =>
                    inp'[Len(inp')] \in (IF Mode = "nums" THEN {" ", ",", "+", "-", "."} ELSE {"0","1"})]_vars
Dump == Accepting(ls) => PrintT(ToJson([s |-> inp, toks |-> Tokens(ls)]))
=============================================================================
