SPECIFICATION Spec
CONSTANTS MaxCmds = 2
  MaxRep = 2
INVARIANT TypeOK
INVARIANT PenAtEnd
INVARIANT ChainOrMove
INVARIANT CloseReturns
INVARIANT NoZeroRadius
INVARIANT FoldOK
INVARIANT EquivAbs
INVARIANT EquivExplicit
INVARIANT EquivHV
INVARIANT EquivST
PROPERTY ZAddsOnlyIfNeeded
CHECK_DEADLOCK FALSE
