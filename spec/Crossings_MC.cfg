SPECIFICATION Spec
CONSTANTS Q = 3
  Fams = {"cross", "apart", "count"}
INVARIANT MeetExactly
INVARIANT Monotone
INVARIANT TransversalOK
INVARIANT Separated
CHECK_DEADLOCK FALSE
