SPECIFICATION Spec
CONSTANTS MaxN = 3
  LenSet = {0, 1, 2, 3, 64}
INVARIANT TInRange
INVARIANT RoundTripT
INVARIANT InOccupancy
INVARIANT TZeroOnlyAtStart
INVARIANT RunsOK
INVARIANT ContIffOneRun
PROPERTY Monotone
CHECK_DEADLOCK FALSE
