-------------------------------- MODULE Area --------------------------------
(* Signed area and even-odd enclosure on the integer lattice (C14).                               *)
(* poly = closed polygon given by its vertices (convex, concave and self-intersecting ones all     *)
(* occur).  All coordinates are doubled so that probe points with half-integer coordinates are     *)
(* integers too.  Area: the shoelace sum (twice the signed area, in doubled coordinates 8x).        *)
(* Enclosure: crossing parity of the probe segment pt -> opt, decided by exact orientation          *)
(* predicates, only for probes in general position: every edge either properly crosses the probe    *)
(* or is strictly separated from it, and the crossing points are pairwise distinct.  The walk       *)
(* steps through the probe points.                                                                  *)
EXTENDS Integers, Sequences, FiniteSets, TLC, Json
CONSTANTS MaxV, Grid, Probes, Opt
GridA == { <<0,0>>, <<4,0>>, <<8,0>>, <<0,4>>, <<4,4>>, <<8,4>>, <<0,8>>, <<4,8>>, <<8,8>> }     \* doubled 3x3 grid with spacing 2
GridB == { <<0,0>>, <<8,0>>, <<8,8>>, <<0,8>>, <<4,2>>, <<2,6>> }
ProbesA == << <<1,1>>, <<3,1>>, <<5,3>>, <<7,5>>, <<3,7>>, <<1,5>>, <<5,5>>, <<7,1>>, <<9,3>>, <<3,3>> >>
OptA == <<-5, -3>>
Cross(u, v) == u[1] * v[2] - u[2] * v[1]
Sub(p, q) == <<p[1] - q[1], p[2] - q[2]>>
Orient(a, b, c) == Cross(Sub(b, a), Sub(c, a))
Nx(P, i) == P[(i % Len(P)) + 1]
RECURSIVE SumTo(_, _)
SumTo(P, i) == IF i = 0 THEN 0 ELSE Cross(P[i], Nx(P, i)) + SumTo(P, i-1)
Shoelace(P) == SumTo(P, Len(P))                      \* twice the signed area (of the doubled polygon: 8x the real area)
Rev(P) == [i \in 1..Len(P) |-> P[Len(P) + 1 - i]]
Shift(P, d) == [i \in 1..Len(P) |-> <<P[i][1] + d[1], P[i][2] + d[2]>>]
Lin(P, M) == [i \in 1..Len(P) |-> <<M[1] * P[i][1] + M[3] * P[i][2], M[2] * P[i][1] + M[4] * P[i][2]>>]
Proper(p, q, a, b) == Orient(p, q, a) * Orient(p, q, b) < 0 /\ Orient(a, b, p) * Orient(a, b, q) < 0
Apart(p, q, a, b) == Orient(p, q, a) * Orient(p, q, b) > 0 \/ Orient(a, b, p) * Orient(a, b, q) > 0
Edges(P) == 1..Len(P)
CrossingEdges(P, p, q) == { i \in Edges(P) : Proper(p, q, P[i], Nx(P, i)) }
(* position of the crossing with edge i along the probe, as a rational num/den (den # 0) *)
SNum(P, p, q, i) == Orient(P[i], Nx(P, i), p)
SDen(P, p, q, i) == Orient(P[i], Nx(P, i), p) - Orient(P[i], Nx(P, i), q)
General(P, p, q) == /\ \A i \in Edges(P) : Proper(p, q, P[i], Nx(P, i)) \/ Apart(p, q, P[i], Nx(P, i))
                    /\ \A i, k \in CrossingEdges(P, p, q) : i # k => SNum(P, p, q, i) * SDen(P, p, q, k) # SNum(P, p, q, k) * SDen(P, p, q, i)
Inside(P, p, q) == Cardinality(CrossingEdges(P, p, q)) % 2 = 1
VARIABLES poly, k
vars == <<poly, k>>
Distinct(P) == \A i, m \in 1..Len(P) : i # m => P[i] # P[m]
NoZeroEdge(P) == \A i \in 1..Len(P) : P[i] # Nx(P, i)
Init == /\ \E nv \in 3..MaxV : poly \in [1..nv -> Grid]
        /\ Distinct(poly) /\ poly[1] = CHOOSE g \in { poly[i] : i \in 1..Len(poly) } : \A h \in { poly[i] : i \in 1..Len(poly) } : g[1] < h[1] \/ (g[1] = h[1] /\ g[2] <= h[2])
        /\ k = 1
Step == k < Len(Probes) /\ k' = k + 1 /\ UNCHANGED poly
Next == Step
Spec == Init /\ [][Next]_vars
\* ---------- laws of the signed area
RevNegates == Shoelace(Rev(poly)) = -Shoelace(poly)
TranslationInvariant == Shoelace(Shift(poly, <<3, -5>>)) = Shoelace(poly)
DetScales == \A M \in { <<2,0,0,2>>, <<1,0,1,1>>, <<0,1,1,0>>, <<-1,0,0,3>> } :
               Shoelace(Lin(poly, M)) = (M[1] * M[4] - M[2] * M[3]) * Shoelace(poly)
RotationInvariantStart == Shoelace([i \in 1..Len(poly) |-> Nx(poly, i)]) = Shoelace(poly)
(* parity does not depend on which far point is used, as long as both probes are in general position *)
ParityIndependentOfOpt == LET p == Probes[k] IN
     (General(poly, p, Opt) /\ General(poly, p, <<-7, 13>>)) => (Inside(poly, p, Opt) <=> Inside(poly, p, <<-7, 13>>))

\* ---------- closed Bezier paths: 60 * integral of x dy, exact
Co(P, kk, i) == \* coefficient of t^i of coordinate k of the Bezier curve with control points P (degree 1..3)
  LET n == Len(P) - 1
      c(m) == P[m][kk]
  IN IF n = 1 THEN (IF i = 0 THEN c(1) ELSE IF i = 1 THEN c(2) - c(1) ELSE 0)
     ELSE IF n = 2 THEN (IF i = 0 THEN c(1) ELSE IF i = 1 THEN 2 * (c(2) - c(1)) ELSE IF i = 2 THEN c(1) - 2 * c(2) + c(3) ELSE 0)
     ELSE (IF i = 0 THEN c(1) ELSE IF i = 1 THEN 3 * (c(2) - c(1)) ELSE IF i = 2 THEN 3 * (c(1) - 2 * c(2) + c(3)) ELSE -c(1) + 3 * c(2) - 3 * c(3) + c(4))
RECURSIVE SumSeq(_)
SumSeq(s) == IF s = <<>> THEN 0 ELSE Head(s) + SumSeq(Tail(s))
Seg60(P) == SumSeq([m \in 1..12 |-> LET i == (m - 1) \div 3
                                        jj == ((m - 1) % 3) + 1
                                    IN Co(P, 1, i) * Co(P, 2, jj) * jj * (60 \div (i + jj))])
Area60(S) == SumSeq([m \in 1..Len(S) |-> Seg60(S[m])])
RevSeg(P) == [i \in 1..Len(P) |-> P[Len(P) + 1 - i]]
RevPath(S) == [m \in 1..Len(S) |-> RevSeg(S[Len(S) + 1 - m])]
BezPaths == << << << <<0,0>>, <<4,6>>, <<8,0>> >>, << <<8,0>>, <<0,0>> >> >>,                                         \* parabolic lens
               << << <<0,0>>, <<6,0>>, <<6,6>>, <<0,6>> >>, << <<0,6>>, <<0,0>> >> >>,                                 \* D shape
               << << <<0,0>>, <<8,4>>, <<-4,4>>, <<4,0>> >>, << <<4,0>>, <<2,-2>>, <<0,0>> >> >>,                       \* self-crossing cubic + quadratic
               << << <<2,0>>, <<6,0>> >>, << <<6,0>>, <<8,0>>, <<8,2>> >>, << <<8,2>>, <<8,6>>, <<2,6>>, <<2,0>> >> >>,     \* line, quadratic, cubic
               << << <<0,0>>, <<8,4>>, <<-4,4>>, <<0,0>> >> >>,                                                         \* one segment returning to its start (teardrop)
               << << <<0,0>>, <<6,0>> >>, << <<6,0>>, <<6,6>> >>, << <<6,6>>, <<10,8>>, <<8,10>>, <<6,6>> >>,            \* square with a loop at one corner
                  << <<6,6>>, <<0,6>> >>, << <<0,6>>, <<0,0>> >> >>,
               << << <<0,0>>, <<4,2>>, <<0,0>> >>, << <<0,0>>, <<6,0>> >>, << <<6,0>>, <<2,6>>, <<0,0>> >> >> >>         \* there-and-back quadratic, line, quadratic
AsSegs(P) == [i \in 1..Len(P) |-> <<P[i], Nx(P, i)>>]
PolygonAgrees == Area60(AsSegs(poly)) = 30 * Shoelace(poly)
BezRevNegates == \A b \in 1..Len(BezPaths) : Area60(RevPath(BezPaths[b])) = -Area60(BezPaths[b])
\* ---------- containment of a small triangle in the polygon
Tri == << <<1,1>>, <<3,1>>, <<1,3>> >>
Offsets == { <<0,0>>, <<4,0>>, <<2,2>>, <<-6,0>>, <<4,4>>, <<10,2>>, <<2,-2>>, <<0,4>> }
PairGeneral(A, B) == \A i \in Edges(A), m \in Edges(B) : Proper(A[i], Nx(A, i), B[m], Nx(B, m)) \/ Apart(A[i], Nx(A, i), B[m], Nx(B, m))
PairCrosses(A, B) == \E i \in Edges(A), m \in Edges(B) : Proper(A[i], Nx(A, i), B[m], Nx(B, m))
MinX(P) == CHOOSE v \in { P[i][1] : i \in 1..Len(P) } : \A i \in 1..Len(P) : v <= P[i][1]
MinY(P) == CHOOSE v \in { P[i][2] : i \in 1..Len(P) } : \A i \in 1..Len(P) : v <= P[i][2]
ImpliedOpt(P) == <<MinX(P) - 2, MinY(P) - 2>>            \* (xmin - 1, ymin - 1) in doubled coordinates
Contain(d) == LET T == Shift(Tri, d) IN
                [d |-> d, general |-> PairGeneral(T, poly) /\ General(poly, T[1], ImpliedOpt(poly)),
                 crosses |-> PairCrosses(T, poly), inside |-> Inside(poly, T[1], ImpliedOpt(poly))]
AtStart == k = 1
Dump == k = 1 => PrintT(ToJson([poly |-> poly, shoelace |-> Shoelace(poly),
            probes |-> [i \in 1..Len(Probes) |-> [p |-> Probes[i], general |-> General(poly, Probes[i], Opt), inside |-> Inside(poly, Probes[i], Opt)]],
            contain |-> [d \in Offsets |-> Contain(d)], bez |-> [b \in 1..Len(BezPaths) |-> [path |-> BezPaths[b], area60 |-> Area60(BezPaths[b])]]]))
=============================================================================
