---------------------------- MODULE PathData ----------------------------
(* The SVG path-data abstract machine as a state machine over programs (C02).                    *)
(* One action per command family; each step appends one command letter with 1..MaxRep argument   *)
(* groups (groups after the first are "implicit" repetitions: no letter in the text).  Numeric  *)
(* arguments come from a fixed stream of pairwise-distinct small integers so that any mix-up of *)
(* arguments changes the result; arc parameters cycle through fitting / too small / zero radii, *)
(* four rotations and the four flag pairs.                                                       *)
EXTENDS PathSem, TLC, Json
CONSTANTS MaxCmds,     \* number of commands after the initial moveto
          MaxRep       \* max number of argument groups per command letter

ArgTab == <<3, -2, 5, 1, -4, 7, 2, -6, 4, -1, 6, -3, 8, -5, 9, -7>>
Arg(k) == ArgTab[((k-1) % 16) + 1] + ((k-1) \div 16)
ArcRad(n) == <<<<2,3>>, <<5,5>>, <<0,1>>, <<4,0>>, <<30,20>> >>[(n % 5) + 1]
ArcRot(n) == <<0, 30, -45, 90>>[(n % 4) + 1]
ArcFA(n) == n % 2
ArcFS(n) == (n \div 2) % 2
(* number of stream arguments consumed by one group of effective command u *)
NArgs(u) == CASE u \in {"M","L","T"} -> 2 [] u \in {"H","V"} -> 1 [] u = "C" -> 6
              [] u \in {"S","Q"} -> 4 [] u = "A" -> 2 [] u = "Z" -> 0
P(k0, i) == <<Arg(k0 + 2*i - 1), Arg(k0 + 2*i)>>        \* i-th point after k0 consumed arguments
MkArgs(u, k0, n0) ==
  CASE u \in {"M","L","T"} -> <<P(k0,1)>>
    [] u \in {"H","V"} -> <<Arg(k0+1)>>
    [] u = "C" -> <<P(k0,1), P(k0,2), P(k0,3)>>
    [] u \in {"S","Q"} -> <<P(k0,1), P(k0,2)>>
    [] u = "A" -> <<ArcRad(n0), ArcRot(n0), ArcFA(n0), ArcFS(n0), P(k0,1)>>
    [] u = "Z" -> <<>>

VARIABLES prog,    \* sequence of groups [c, first, a] - the program so far, with explicit arguments
          n,       \* number of command letters so far
          k, na,   \* stream positions: coordinate arguments consumed, arcs seen
          st       \* interpreter state (PathSem)
vars == <<prog, n, k, na, st>>

(* r groups of letter c from stream position (k0,n0) *)
RECURSIVE MkGroups(_, _, _, _, _)
MkGroups(c, r, first, k0, n0) ==
  IF r = 0 THEN <<>>
  ELSE LET u == Eff(c, first)
       IN <<[c |-> c, first |-> first, a |-> MkArgs(u, k0, n0)]>>
          \o MkGroups(c, r-1, FALSE, k0 + NArgs(u), n0 + (IF u = "A" THEN 1 ELSE 0))
RECURSIVE SumArgs(_)
SumArgs(gs) == IF gs = <<>> THEN 0 ELSE NArgs(Eff(Head(gs).c, Head(gs).first)) + SumArgs(Tail(gs))
RECURSIVE CountArcs(_)
CountArcs(gs) == IF gs = <<>> THEN 0 ELSE (IF Upper(Head(gs).c) = "A" THEN 1 ELSE 0) + CountArcs(Tail(gs))

(* an arc from a point to itself is outside the properties (the SVG notes say: omit it) *)
NoNullArc(s) == \A i \in 1..Len(s.segs) : Kind(s.segs[i]) = "A" => Start(s.segs[i]) # End(s.segs[i])

Do(c, r) ==
  LET gs == MkGroups(c, r, TRUE, k, na)
      nst == Interp(st, gs)
  IN /\ NoNullArc(nst)
     /\ prog' = prog \o gs
     /\ n' = n + 1
     /\ k' = k + SumArgs(gs)
     /\ na' = na + CountArcs(gs)
     /\ st' = nst

Init == \E c \in {"M","m"}, r \in 1..MaxRep :
          LET gs == MkGroups(c, r, TRUE, 0, 0) IN
          /\ prog = gs /\ n = 1 /\ k = SumArgs(gs) /\ na = 0 /\ st = Interp(St0, gs)

Reps == 1..MaxRep
More == n <= MaxCmds
MoveTo    == More /\ \E c \in {"M","m"}, r \in Reps : Do(c, r)
LineTo    == More /\ \E c \in {"L","l"}, r \in Reps : Do(c, r)
HLine     == More /\ \E c \in {"H","h"}, r \in Reps : Do(c, r)
VLine     == More /\ \E c \in {"V","v"}, r \in Reps : Do(c, r)
Curve     == More /\ \E c \in {"C","c"}, r \in Reps : Do(c, r)
Smooth    == More /\ \E c \in {"S","s"}, r \in Reps : Do(c, r)
Quad      == More /\ \E c \in {"Q","q"}, r \in Reps : Do(c, r)
SmoothQuad == More /\ \E c \in {"T","t"}, r \in Reps : Do(c, r)
ArcTo     == More /\ \E c \in {"A","a"}, r \in Reps : Do(c, r)
Close     == More /\ \E c \in {"Z","z"} : Do(c, 1)
Next == MoveTo \/ LineTo \/ HLine \/ VLine \/ Curve \/ Smooth \/ Quad \/ SmoothQuad \/ ArcTo \/ Close
Spec == Init /\ [][Next]_vars

\* ---------- invariants of the machine
TypeOK == /\ k >= 2 /\ n >= 1
          /\ \A i \in 1..Len(st.segs) : Kind(st.segs[i]) \in {"L","Q","C","A"}
          /\ st.last \in {"M","L","H","V","C","S","Q","T","A","Z"}
(* the pen is at the end of the last segment, except right after M/Z where it is the subpath start *)
PenAtEnd == IF st.last \in {"M","Z"} THEN st.cur = st.sub
            ELSE st.segs # <<>> /\ st.cur = End(st.segs[Len(st.segs)])
(* between two consecutive segments either the pen was not lifted (they join) or an M/Z happened *)
ChainOrMove == \A i \in 1..(Len(st.segs)-1) :
                 End(st.segs[i]) # Start(st.segs[i+1]) =>
                   \E j \in 1..Len(prog) : Eff(prog[j].c, prog[j].first) \in {"M","Z"}
(* a closepath never leaves the pen elsewhere than the subpath start, and adds a line only if needed *)
CloseReturns == st.last = "Z" => st.cur = st.sub /\ st.closed
ZAddsOnlyIfNeeded == [][ st'.last = "Z" /\ n' = n + 1 =>
                           IF st.cur = st.sub THEN st'.segs = st.segs
                           ELSE st'.segs = Append(st.segs, <<"L", st.cur, st.sub>>) ]_vars
(* zero radius arcs become lines *)
NoZeroRadius == \A i \in 1..Len(st.segs) : Kind(st.segs[i]) = "A" => st.segs[i][3][1] # 0 /\ st.segs[i][3][2] # 0
(* the interpreter is a fold: re-interpreting the whole program gives the current state *)
FoldOK == Interp(St0, prog) = st
\* ---------- "different spellings of the same command sequence parse to equal paths"
EquivAbs == Parse(Absolutise(St0, prog)) = st.segs
EquivExplicit == Parse(Explicit(prog)) = st.segs
EquivHV == Parse(HVtoL(St0, prog)) = st.segs
EquivST == Parse(STtoCQ(St0, prog)) = st.segs

Terminal == n = MaxCmds + 1
Dump == Terminal => PrintT(ToJson([groups |-> prog, segs |-> st.segs, closed |-> st.closed]))
=============================================================================
