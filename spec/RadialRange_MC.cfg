SPECIFICATION Spec
CONSTANTS W = 8
  Segs <- SegsA
  Pts <- PtsA
INVARIANT LineMinIsMin
INVARIANT LineMaxAtEnd
INVARIANT WitnessBounds
CHECK_DEADLOCK FALSE
