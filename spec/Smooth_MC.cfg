SPECIFICATION Spec
CONSTANTS MaxN = 4
INVARIANT Continuous
INVARIANT StaysClosed
INVARIANT EndpointsKept
INVARIANT SingleUnchanged
INVARIANT NoKinks
INVARIANT SmoothUntouched
INVARIANT EverySegmentKept
CHECK_DEADLOCK FALSE
