----------------------------- MODULE RatLimit -----------------------------
(* rational_limit(f, g, t0): the limit of f/g at t0 by repeated differentiation (C19).            *)
(* f, g are integer polynomials (coefficient sequences, highest degree first, as numpy.poly1d);   *)
(* the state machine is the recursion of the code: while f(t0) = g(t0) = 0 differentiate both;    *)
(* stop with the quotient when g(t0) # 0, raise when g(t0) = 0 # f(t0).  The reference answer is  *)
(* computed independently from the orders of vanishing.                                           *)
EXTENDS Integers, Sequences, TLC, Json
CONSTANTS CoefSet, MaxLen, T0Set
MinusOne == -1
Coefs == {-2, -1, 0, 1, 3}
T0s == {-1, 0, 1, 2}
RECURSIVE Eval(_, _, _)
Eval(c, x, acc) == IF c = <<>> THEN acc ELSE Eval(Tail(c), x, acc * x + Head(c))
Ev(c, x) == Eval(c, x, 0)
Deriv(c) == IF Len(c) <= 1 THEN <<0>> ELSE [k \in 1..(Len(c)-1) |-> (Len(c) - k) * c[k]]
IsZero(c) == \A k \in 1..Len(c) : c[k] = 0
RECURSIVE Ord(_, _)
Ord(c, x) == IF IsZero(c) THEN 99 ELSE IF Ev(c, x) # 0 THEN 0 ELSE 1 + Ord(Deriv(c), x)
RECURSIVE DerivK(_, _)
DerivK(c, k) == IF k = 0 THEN c ELSE DerivK(Deriv(c), k-1)
VARIABLES f, g, t0, cf, cg, depth, pc, res
vars == <<f, g, t0, cf, cg, depth, pc, res>>
Polys == UNION { [1..n -> CoefSet] : n \in 1..MaxLen }
Init == /\ f \in Polys /\ g \in { p \in Polys : ~IsZero(p) } /\ t0 \in T0Set
        /\ cf = f /\ cg = g /\ depth = 0 /\ pc = "test" /\ res = <<0, 1>>
Quotient == /\ pc = "test" /\ Ev(cg, t0) # 0
            /\ res' = <<Ev(cf, t0), Ev(cg, t0)>> /\ pc' = "return" /\ UNCHANGED <<f, g, t0, cf, cg, depth>>
LHopital == /\ pc = "test" /\ Ev(cg, t0) = 0 /\ Ev(cf, t0) = 0
            /\ cf' = Deriv(cf) /\ cg' = Deriv(cg) /\ depth' = depth + 1 /\ UNCHANGED <<f, g, t0, pc, res>>
Raise == /\ pc = "test" /\ Ev(cg, t0) = 0 /\ Ev(cf, t0) # 0
         /\ pc' = "raise" /\ UNCHANGED <<f, g, t0, cf, cg, depth, res>>
Next == Quotient \/ LHopital \/ Raise
Spec == Init /\ [][Next]_vars
of == Ord(f, t0)
og == Ord(g, t0)
(* reference: limit exists iff ord f >= ord g; it is f^(og)(t0) / g^(og)(t0) *)
Correct == /\ pc = "return" => of >= og /\ depth = og
                               /\ res[1] * Ev(DerivK(g, og), t0) = res[2] * Ev(DerivK(f, og), t0) /\ res[2] # 0
           /\ pc = "raise" => of < og
Terminates == depth <= MaxLen
Dump == pc \in {"return", "raise"} => PrintT(ToJson([f |-> f, g |-> g, t0 |-> t0, pc |-> pc, res |-> res]))
=============================================================================
