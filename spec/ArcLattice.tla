---------------------------- MODULE ArcLattice ----------------------------
(* Elliptical arcs on an angle lattice (C04; used by C08, C09, C10, C15).                         *)
(* Abstract arc  A = [r, phi, th, dl, c]: integer radii r = <<rx,ry>>, integer centre c, rotation *)
(* phi, start angle th and sweep dl in units of 15 degrees (dl # 0, |dl| < 24).  This *is* the    *)
(* centre parameterisation (F.6.4); the harness turns it into the end-point parameterisation the  *)
(* constructor takes (start, radius, rotation, large_arc, sweep, end) and compares what the code  *)
(* derives (centre, theta, delta, points, derivatives) with the lattice values.  All reasoning    *)
(* here is on angle indices; irrational cos/sin appear only in the harness.                       *)
(* The walk along the arc in 15-degree steps (action Advance) makes the module a state machine:   *)
(* the eccentric angle moves monotonically in the direction the sweep flag selects and ends at    *)
(* th + dl.                                                                                       *)
(* kind = "small": radii too small for the chord (axis-aligned in the ellipse frame): the exact   *)
(* minimal enlargement factor is rational and the result is a half ellipse.                       *)
EXTENDS Integers, Sequences, FiniteSets, TLC, Json
CONSTANTS Radii, Phis, Ths, Dls, Centers, SmallH, SmallR
Full == 24
Abs(x) == IF x < 0 THEN -x ELSE x
Sgn(x) == IF x < 0 THEN -1 ELSE IF x > 0 THEN 1 ELSE 0
\* named sets for the cfg files
RadiiA == { <<5,5>>, <<5,3>>, <<2,7>> }
RadiiB == { <<5,5>>, <<5,3>>, <<2,7>>, <<13,13>>, <<1,40>> }
PhisA == { 0, 2, 3, 6, 9, 12, 18, -6, 26 }          \* 0,30,45,90,135,180,270,-90,390 degrees
PhisB == { 0, 3, 6, -6, 26 }
ThsAll == -11..12
DlsAll == { d \in -23..23 : d # 0 }
DlsSome == { -23, -18, -13, -12, -11, -6, -1, 1, 5, 6, 11, 12, 13, 17, 23 }
CentersA == { <<0,0>>, <<3,-2>> }
CentersB == { <<3,-2>> }
SmallA == { 6, 9 }
SmallB == { 6, 9, 29, 31, 45 }
SmallRA == { <<5,3>>, <<2,7>>, <<3,3>>, <<7,7>> }

Flags(dl) == <<IF Abs(dl) > 12 THEN 1 ELSE 0, IF dl > 0 THEN 1 ELSE 0>>
Compl(dl) == IF dl > 0 THEN dl - Full ELSE dl + Full
Norm(a) == ((a + 11) % Full) - 11            \* into -11..12
(* the four arcs of the same ellipse shape through the same two end points: same centre (dl and   *)
(* its complement) and the centre mirrored in the chord midpoint, c' = s + e - c, where by the    *)
(* central symmetry of the ellipse the start angle is th + dl + 180 and the sweep is reversed     *)
Through(A) == { [cen |-> "c",  th |-> Norm(A.th),               dl |-> A.dl],
                [cen |-> "c",  th |-> Norm(A.th),               dl |-> Compl(A.dl)],
                [cen |-> "c'", th |-> Norm(A.th + A.dl + 12),   dl |-> -A.dl],
                [cen |-> "c'", th |-> Norm(A.th + A.dl + 12),   dl |-> Compl(-A.dl)] }
InSweep(A, a) == \E w \in -3..3 : LET x == a + Full*w IN
                   IF A.dl > 0 THEN A.th <= x /\ x <= A.th + A.dl ELSE A.th + A.dl <= x /\ x <= A.th
IsCircle(A) == A.r[1] = A.r[2]
(* eccentric angles (0..23) at which x (resp. y) is extremal, when they are lattice angles *)
XCrit(A) == IF IsCircle(A) THEN { a \in 0..23 : (a + A.phi) % 12 = 0 }
            ELSE IF A.phi % 12 = 0 THEN { a \in 0..23 : a % 12 = 0 }
            ELSE IF A.phi % 6 = 0 THEN { a \in 0..23 : a % 12 = 6 } ELSE {}
YCrit(A) == IF IsCircle(A) THEN { a \in 0..23 : (a + A.phi) % 12 = 6 }
            ELSE IF A.phi % 12 = 0 THEN { a \in 0..23 : a % 12 = 6 }
            ELSE IF A.phi % 6 = 0 THEN { a \in 0..23 : a % 12 = 0 } ELSE {}
BBoxKnown(A) == IsCircle(A) \/ A.phi % 6 = 0
Crit(A) == [x |-> { a \in XCrit(A) : InSweep(A, a) }, y |-> { a \in YCrit(A) : InSweep(A, a) }]
Reverse(A) == [A EXCEPT !.th = A.th + A.dl, !.dl = -A.dl]
(* sub-arc between lattice steps i0 < i1 (steps of 15 degrees along the sweep) *)
Crop(A, i0, i1) == [A EXCEPT !.th = A.th + Sgn(A.dl) * i0, !.dl = Sgn(A.dl) * (i1 - i0)]
(* images under lattice similarities: rotation by k units about the origin / mirror in the x axis *)
RotPt(p, q) == CASE q % 4 = 0 -> p [] q % 4 = 1 -> <<-p[2], p[1]>> [] q % 4 = 2 -> <<-p[1], -p[2]>> [] OTHER -> <<p[2], -p[1]>>
Rot90(A, q) == [A EXCEPT !.phi = A.phi + 6*q, !.c = RotPt(A.c, q)]
MirrorX(A) == [A EXCEPT !.phi = -A.phi, !.th = -A.th, !.dl = -A.dl, !.c = <<A.c[1], -A.c[2]>>]

VARIABLES arc, pos
vars == <<arc, pos>>
Fit == [kind : {"fit"}, r : Radii, phi : Phis, th : Ths, dl : Dls, c : Centers]
(* too-small radii: chord of half-length h > r along the ellipse's own x or y axis *)
(* near = 0: the radii as given; near = 1, 2: radii that are too small only by a relative 1e-6 / 2e-8 (same shape, same answer) *)
Small == [kind : {"small"}, r : SmallR, phi : Phis, h : SmallH, ax : {"x", "y"}, fa : {0,1}, fs : {0,1}, c : Centers, near : {0, 1, 2}]
Init == pos = 0 /\ (arc \in Fit \/ (arc \in Small /\ arc.h > (IF arc.ax = "x" THEN arc.r[1] ELSE arc.r[2])))
Advance == arc.kind = "fit" /\ pos < Abs(arc.dl) /\ pos' = pos + 1 /\ UNCHANGED arc
Next == Advance
Spec == Init /\ [][Next]_vars
Cur == arc.th + Sgn(arc.dl) * pos
IsFit == arc.kind = "fit"
\* ---------- invariants
(* F.6.5 is well-posed: for |dl| # 180 the four candidate arcs have four different flag pairs, so the flags select exactly A *)
F65Unique == (IsFit /\ Abs(arc.dl) # 12) => Cardinality({ Flags(B.dl) : B \in Through(arc) }) = 4
F65Self == IsFit => \E B \in Through(arc) : B.cen = "c" /\ B.dl = arc.dl /\ Flags(B.dl) = Flags(arc.dl)
LargeIffOver180 == IsFit => (Flags(arc.dl)[1] = 1 <=> Abs(arc.dl) * 15 > 180)
CurInSweep == IsFit => InSweep(arc, Cur)
EndsAtEnd == (IsFit /\ pos = Abs(arc.dl)) => Cur = arc.th + arc.dl
MonotoneDir == [][IsFit => (Cur' - Cur = Sgn(arc.dl) /\ Sgn(arc.dl) = (IF Flags(arc.dl)[2] = 1 THEN 1 ELSE -1))]_vars
ReverseOK == IsFit => LET R == Reverse(arc) IN
                Flags(R.dl) = <<Flags(arc.dl)[1], 1 - Flags(arc.dl)[2]>> /\ Reverse(R) = arc
CropOK == IsFit => \A i0, i1 \in 0..Abs(arc.dl) : i0 < i1 =>
             LET C == Crop(arc, i0, i1) IN
               /\ InSweep(arc, C.th) /\ InSweep(arc, C.th + C.dl) /\ Sgn(C.dl) = Sgn(arc.dl)
               /\ (Flags(C.dl)[1] = 1 <=> (i1 - i0) > 12)
MirrorFlipsSweep == IsFit => Flags(MirrorX(arc).dl)[2] = 1 - Flags(arc.dl)[2] /\ Flags(MirrorX(arc).dl)[1] = Flags(arc.dl)[1]
RotKeepsFlags == IsFit => \A q \in 0..3 : Flags(Rot90(arc, q).dl) = Flags(arc.dl)
(* enlargement: factor = h / r_axis (rational); the enlarged ellipse has the chord as a diameter: a half ellipse *)
SmallResult(A) == LET rx == A.r[1]
                      ry == A.r[2]
                  IN IF A.ax = "x" THEN [num |-> <<A.h * rx, A.h * ry>>, den |-> rx, th |-> 12, dl |-> (IF A.fs = 1 THEN 12 ELSE -12)]
                     ELSE [num |-> <<A.h * rx, A.h * ry>>, den |-> ry, th |-> -6, dl |-> (IF A.fs = 1 THEN 12 ELSE -12)]
SmallOK == ~IsFit => LET S == SmallResult(arc) IN
              /\ S.num[IF arc.ax = "x" THEN 1 ELSE 2] = arc.h * S.den     \* the enlarged axis radius is exactly the half chord
              /\ S.num[1] * arc.r[2] = S.num[2] * arc.r[1]                  \* the ratio of the radii is kept
              /\ S.num[1] > arc.r[1] * S.den                                \* a genuine enlargement
AtStart == pos = 0          \* CONSTRAINT for the dump configuration: one state per arc
Dump == pos = 0 => PrintT(ToJson(
          IF IsFit THEN [arc |-> arc, flags |-> Flags(arc.dl), known |-> BBoxKnown(arc),
                         xc |-> Crit(arc).x, yc |-> Crit(arc).y, rev |-> Reverse(arc), mir |-> MirrorX(arc)]
          ELSE [arc |-> arc, small |-> SmallResult(arc)]))
=============================================================================
