------------------------------ MODULE Bezier ------------------------------
(* Exact Bezier algebra on an integer lattice (C03, C19; used by C08, C09, C13, C15).             *)
(* A curve is a 1-D control vector P = <<P0..Pn>> of integers (the harness pairs two of them into  *)
(* complex control points: every operation below is real-linear in P).  Parameters are rationals   *)
(* a/D with a fixed denominator D (dyadic: the float arithmetic of the code is then exact).        *)
(* All values are integers scaled by the stated power of D.  The module states the polynomial      *)
(* identities as invariants - so the oracle is model-checked - and TLC emits the expected          *)
(* observables for each (P, a).  Identities that are linear in P and of degree <= n in t hold for  *)
(* all reals iff they hold on basis vectors x n+1 parameter values (interpolation): the grids      *)
(* below are such unisolvent sets, plus dense small-integer vectors for degree <= 3.               *)
(* The walk along the parameter (action Step) gives the action property that consecutive values    *)
(* of a degree-n curve have vanishing (n+1)-th finite difference.                                  *)
EXTENDS Integers, Sequences, FiniteSets, TLC, Json
CONSTANTS D,          \* parameter denominator
          AMin, AMax, \* parameter numerators range (t = a/D, slightly outside [0,1] allowed)
          MaxDeg,     \* degrees 0..MaxDeg
          Dense       \* set of integers: for degree <= 3 every vector over Dense is explored

\* cfg files cannot write negative numbers: named values for the configurations
MinusTwo == -2
Zero == 0
MinusOne == -1
MinusThree == -3
Dense4 == {-3, 0, 1, 4}
Dense3 == {-2, 0, 3}
RECURSIVE Pow(_, _)
Pow(b, e) == IF e = 0 THEN 1 ELSE b * Pow(b, e-1)
RECURSIVE Fact(_)
Fact(k) == IF k = 0 THEN 1 ELSE k * Fact(k-1)
Binom(m, k) == Fact(m) \div (Fact(k) * Fact(m-k))
Deg(P) == Len(P) - 1
RECURSIVE SumSeq(_)
SumSeq(s) == IF s = <<>> THEN 0 ELSE Head(s) + SumSeq(Tail(s))
SumF(f(_), lo, hi) == SumSeq([k \in 1..(hi - lo + 1) |-> f(lo + k - 1)])

(* Bernstein form:  D^n * B(a/D) = sum_i C(n,i) (D-a)^(n-i) a^i P_i *)
PtB(P, a) == LET m == Deg(P)
                 T(i) == Binom(m, i) * Pow(D - a, m - i) * Pow(a, i) * P[i+1]
             IN SumF(T, 0, m)
(* de Casteljau: level r is scaled by D^r *)
RECURSIVE DeCast(_, _)
DeCast(Q, a) == IF Len(Q) = 1 THEN Q[1] ELSE DeCast([i \in 1..(Len(Q)-1) |-> (D - a) * Q[i] + a * Q[i+1]], a)
(* power basis, highest degree first (numpy order): c_j = C(n,j) sum_{i<=j} (-1)^(i+j) C(j,i) P_i *)
Coef(P, jj) == LET T(i) == (IF (i + jj) % 2 = 0 THEN 1 ELSE -1) * Binom(jj, i) * P[i+1]
               IN Binom(Deg(P), jj) * SumF(T, 0, jj)
Coeffs(P) == [k \in 1..Len(P) |-> Coef(P, Deg(P) - (k-1))]
(* Horner evaluation of numpy-ordered coefficients at a/D, scaled by D^n *)
RECURSIVE HornerFrom(_, _, _, _)
HornerFrom(c, a, k, acc) == IF k > Len(c) THEN acc ELSE HornerFrom(c, a, k+1, acc * a + c[k] * Pow(D, k-1))
Horner(c, a) == HornerFrom(c, a, 1, 0)
(* control points of the derivative curve, and the k-th derivative *)
DerivP(P) == [i \in 1..Deg(P) |-> Deg(P) * (P[i+1] - P[i])]
RECURSIVE DerivK(_, _)
DerivK(P, k) == IF k = 0 THEN P ELSE IF Len(P) = 1 THEN <<0>> ELSE DerivK(DerivP(P), k-1)
(* k-th derivative at a/D scaled by D^(n-k)  (0 when k > n) *)
DerivAt(P, k, a) == IF k > Deg(P) THEN 0 ELSE PtB(DerivK(P, k), a)
(* back from the power basis: P_i = sum_{j<=i} C(i,j)/C(n,j) c_j ; exact on coefficients that come from integers *)
FromCoef(c) == LET m == Len(c) - 1
                   cj(jj) == c[m - jj + 1]
                   Pi(i) == LET T(jj) == (Binom(i, jj) * cj(jj) * (Fact(m) \div Binom(m, jj)))
                            IN SumF(T, 0, i)   \* scaled by m!
               IN [k \in 1..Len(c) |-> Pi(k-1)]
(* de Casteljau split at a/D: both halves with every control point scaled by D^n *)
RECURSIVE Level(_, _, _)
Level(Q, a, r) == IF r = 0 THEN Q ELSE Level([i \in 1..(Len(Q)-1) |-> (D - a) * Q[i] + a * Q[i+1]], a, r-1)
SplitL(P, a) == [k \in 1..Len(P) |-> Level(P, a, k-1)[1] * Pow(D, Deg(P) - (k-1))]
SplitR(P, a) == [k \in 1..Len(P) |-> LET r == Deg(P) - (k-1) IN Level(P, a, r)[Len(P) - r] * Pow(D, Deg(P) - r)]
Rev(P) == [k \in 1..Len(P) |-> P[Len(P) + 1 - k]]

\* ---------- the explored space
Unit(m, i, v) == [k \in 1..(m+1) |-> IF k = i THEN v ELSE 0]
Ramp(m) == [k \in 1..(m+1) |-> ((k * k * 3) % 7) - 3]
Vectors == IF MaxDeg <= 3 THEN UNION { [1..(m+1) -> Dense] : m \in 0..MaxDeg }
           ELSE UNION { { Unit(m, i, v) : i \in 1..(m+1), v \in {1, -1} } \cup (IF m <= 5 THEN { Ramp(m) } ELSE {}) : m \in 4..MaxDeg }
VARIABLES P, a
vars == <<P, a>>
Init == P \in Vectors /\ a = AMin
Step == a < AMax /\ a' = a + 1 /\ UNCHANGED P
Next == Step
Spec == Init /\ [][Next]_vars

\* ---------- identities (the oracle is model-checked)
m == Deg(P)
DeCastIsBernstein == DeCast(P, a) = PtB(P, a)
HornerIsBernstein == Horner(Coeffs(P), a) = PtB(P, a)
EndPoints == PtB(P, 0) = Pow(D, m) * P[1] /\ PtB(P, D) = Pow(D, m) * P[m+1]
PolyRoundTrip == FromCoef(Coeffs(P)) = [k \in 1..(m+1) |-> Fact(m) * P[k]]
(* derivative = derivative of the polynomial: coefficients of the k-th derivative curve *)
DerivIsPolyDeriv == \A k \in 1..4 : k <= m =>
     Coeffs(DerivK(P, k)) = [i \in 1..(m+1-k) |-> (Fact(m+1-i) \div Fact(m+1-i-k)) * Coeffs(P)[i]]
(* split halves re-parameterise the curve:  L(u) = B(u a/D),  R(u) = B(a/D + u (1 - a/D)), checked at u = a'/D for all a' *)
SplitReparam == (a \in 0..D /\ Pow(D, 2*m) <= 4194304) => \A u \in 0..D :
     /\ PtB(SplitL(P, a), u) = (LET T(i) == Binom(m, i) * Pow(D*D - a*u, m - i) * Pow(a*u, i) * P[i+1]
                                             IN SumF(T, 0, m))
     /\ PtB(SplitR(P, a), u) = (LET w == a*D + u*(D - a)
                                             T(i) == Binom(m, i) * Pow(D*D - w, m - i) * Pow(w, i) * P[i+1]
                                         IN SumF(T, 0, m))
SplitMeets == SplitL(P, a)[m+1] = SplitR(P, a)[1] /\ SplitL(P, a)[m+1] = PtB(P, a)
             /\ SplitL(P, a)[1] = Pow(D, m) * P[1] /\ SplitR(P, a)[m+1] = Pow(D, m) * P[m+1]
RevIdentity == PtB(Rev(P), a) = PtB(P, D - a)
(* along the walk, the (m+1)-th finite difference of a degree-m polynomial vanishes (checked for the first difference order that fits) *)
FiniteDiff == [][ m = 0 => PtB(P, a') = PtB(P, a) ]_vars
Dump == PrintT(ToJson([P |-> P, a |-> a, D |-> D, pt |-> PtB(P, a), coeffs |-> Coeffs(P),
                       d |-> [k \in 1..4 |-> DerivAt(P, k, a)],
                       L |-> SplitL(P, a), R |-> SplitR(P, a)]))
=============================================================================
