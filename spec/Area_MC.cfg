SPECIFICATION Spec
CONSTANTS MaxV = 4
  Grid <- GridA
  Probes <- ProbesA
  Opt <- OptA
INVARIANT RevNegates
INVARIANT TranslationInvariant
INVARIANT DetScales
INVARIANT RotationInvariantStart
INVARIANT ParityIndependentOfOpt
INVARIANT PolygonAgrees
INVARIANT BezRevNegates
CHECK_DEADLOCK FALSE
