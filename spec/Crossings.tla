----------------------------- MODULE Crossings -----------------------------
(* Exact crossing oracle for pairs of Bezier segments on the integer lattice (C11, C12).           *)
(* fam = "cross":  curve 1 has a strictly north-east-going control polygon, curve 2 a strictly     *)
(*   south-east-going one; all control points of curve 2 but the last are chosen on a grid and the *)
(*   last is *solved for* so that B1(k1/Q) = B2(k2/Q) exactly (Q = 3: non-dyadic parameters;        *)
(*   Q = 2: the dyadic family, kept apart because the subdivision solver treats it differently).   *)
(*   NE- and SE-monotone polygons give monotone curves, hence exactly one crossing, and the        *)
(*   tangents there meet at an angle bounded below (TransversalOK).                                *)
(* fam = "apart":  two curves whose control points are strictly separated by a lattice line        *)
(*   (convex hull property: the curves cannot meet); gap down to one lattice unit.                 *)
(* fam = "count":  a long line y = m against a quadratic / cubic: the number of crossings is the    *)
(*   number of roots of y(t) - m in (0,1), decided exactly by sign changes on a rational grid that  *)
(*   isolates the roots (general position: no tangency, no crossing at an end).                    *)
EXTENDS Integers, Sequences, TLC, FiniteSets, Json
CONSTANTS Q, Fams
\* W(n, k) = weights of Q^n * Bernstein_{i,n}(k/Q)
RECURSIVE Pow(_, _)
Pow(b, e) == IF e = 0 THEN 1 ELSE b * Pow(b, e-1)
Binom(n, i) == IF i = 0 \/ i = n THEN 1 ELSE IF n = 2 THEN 2 ELSE 3
Wt(n, k, i) == Binom(n, i) * Pow(Q - k, n - i) * Pow(k, i)
RECURSIVE SumSeq(_)
SumSeq(s) == IF s = <<>> THEN 0 ELSE Head(s) + SumSeq(Tail(s))
\* Q^n * B(k/Q) for a coordinate list v of degree n = Len(v)-1
Ev(v, k) == LET n == Len(v) - 1 IN SumSeq([i \in 1..(n+1) |-> Wt(n, k, i-1) * v[i]])
\* Q^3-scaled value, so that curves of different degree compare
Ev3(v, k) == Pow(Q, 3 - (Len(v) - 1)) * Ev(v, k)
\* derivative control values: n (v[i+1] - v[i]); derivative at k/Q scaled by Q^(n-1), then to Q^2
Dv(v) == [i \in 1..(Len(v)-1) |-> (Len(v) - 1) * (v[i+1] - v[i])]
D2s(v, k) == Pow(Q, 2 - (Len(v) - 2)) * Ev(Dv(v), k)
Inc(v) == \A i \in 1..(Len(v)-1) : v[i] < v[i+1]
Dec(v) == \A i \in 1..(Len(v)-1) : v[i] > v[i+1]
Last(v) == v[Len(v)]
\* solve the last coordinate of curve 2: Q^3-scaled B2(k2/Q) = target
Solve(pre, n2, k2, target) ==
  LET s2 == Pow(Q, 3 - n2)
      rest == target - s2 * SumSeq([i \in 1..n2 |-> Wt(n2, k2, i-1) * pre[i]])
      den == s2 * Wt(n2, k2, n2)
  IN IF rest % den = 0 THEN rest \div den ELSE -999
VARIABLES pr
Ks == 1..(Q-1)
CrossInit == \E n1 \in 1..3, n2 \in 1..3, k1 \in Ks, k2 \in Ks :
        \E x1 \in { v \in [1..(n1+1) -> {0,2,5,6}] : Inc(v) }, y1 \in { v \in [1..(n1+1) -> {0,1,4,6}] : Inc(v) } :
        \E x2p \in { v \in [1..n2 -> -1..6] : Inc(v) }, y2p \in { v \in [1..n2 -> 0..7] : Dec(v) } :
          LET lx == Solve(x2p, n2, k2, Ev3(x1, k1))
              ly == Solve(y2p, n2, k2, Ev3(y1, k1))
          IN /\ lx # -999 /\ ly # -999
             /\ lx > Last(x2p) /\ ly < Last(y2p) /\ lx <= 12 /\ ly >= -6
             /\ pr = [fam |-> "cross", n1 |-> n1, n2 |-> n2, k1 |-> k1, k2 |-> k2, x1 |-> x1, y1 |-> y1,
                      x2 |-> Append(x2p, lx), y2 |-> Append(y2p, ly)]
ApartInit == \E n1 \in 1..3, n2 \in 1..3, gap \in {1, 2} :
        \E x1 \in { v \in [1..(n1+1) -> {0, 2, 4, 6}] : Inc(v) }, y1 \in [1..(n1+1) -> {1, 4}],
           x2 \in { v \in [1..(n2+1) -> {0, 1, 5, 6}] : Inc(v) }, y2 \in [1..(n2+1) -> {0, -3}] :
          pr = [fam |-> "apart", n1 |-> n1, n2 |-> n2, k1 |-> 0, k2 |-> 0, x1 |-> x1, y1 |-> [i \in 1..(n1+1) |-> y1[i] + gap - 1], x2 |-> x2, y2 |-> y2]
(* count family: curve 2 is the horizontal line y = m (doubled coordinates keep m between lattice rows) *)
CountInit == \E n1 \in 2..3, m \in {1, 3, 5} :
        \E x1 \in { v \in [1..(n1+1) -> {0, 2, 4, 6}] : Inc(v) }, y1 \in [1..(n1+1) -> {0, 2, 4, 6, -2}] :
          pr = [fam |-> "count", n1 |-> n1, n2 |-> 1, k1 |-> 0, k2 |-> 0, x1 |-> x1, y1 |-> y1, x2 |-> <<-4, 12>>, y2 |-> <<m, m>>]
Init == ("cross" \in Fams /\ CrossInit) \/ ("apart" \in Fams /\ ApartInit) \/ ("count" \in Fams /\ CountInit)
Next == UNCHANGED pr
Spec == Init /\ [][Next]_pr
IsCross == pr.fam = "cross"
\* ---------- properties of the constructed pairs
MeetExactly == IsCross => Ev3(pr.x1, pr.k1) = Ev3(pr.x2, pr.k2) /\ Ev3(pr.y1, pr.k1) = Ev3(pr.y2, pr.k2)
Monotone == IsCross => Inc(pr.x1) /\ Inc(pr.y1) /\ Inc(pr.x2) /\ Dec(pr.y2)
(* tangents u = B1'(k1/Q), v = B2'(k2/Q):  (u x v)^2 >= |u|^2 |v|^2 / 92  (angle >= ~6 degrees) *)
Ux == D2s(pr.x1, pr.k1)
Uy == D2s(pr.y1, pr.k1)
Vx == D2s(pr.x2, pr.k2)
Vy == D2s(pr.y2, pr.k2)
Sm(x) == x \div Pow(Q, 2)                     \* keep the products below 2^31: the derivative values are multiples of small numbers
TransversalOK == IsCross => LET c == Ux * Vy - Uy * Vx IN c # 0 /\ Ux > 0 /\ Uy > 0 /\ Vx > 0 /\ Vy < 0
Separated == pr.fam = "apart" => \A i \in 1..Len(pr.y1), m \in 1..Len(pr.y2) : pr.y1[i] >= pr.y2[m] + 1
(* number of sign changes of y1(t) - m over the grid t = j/12: general position requires no zero on the grid and every root isolated by it *)
G == 12
YG(j) == LET n == Len(pr.y1) - 1 IN SumSeq([i \in 1..(n+1) |-> Binom(n, i-1) * Pow(G - j, n - (i-1)) * Pow(j, i-1) * pr.y1[i]]) - Pow(G, n) * pr.y2[1]
SignChanges == Cardinality({ j \in 0..(G-1) : YG(j) * YG(j+1) < 0 })
NoGridZero == \A j \in 0..G : YG(j) # 0
(* the grid isolates the roots when the number of sign changes has the parity and size the degree allows and the derivative's roots avoid ambiguity: *)
(* for a quadratic: changes \in {0,1,2}; 0 changes with both ends on one side may hide a double crossing between grid points - excluded by the vertex test *)
VertexSafe == LET n == Len(pr.y1) - 1 IN
                IF n = 2 THEN LET a == pr.y1[1] - 2 * pr.y1[2] + pr.y1[3]
                                  b == pr.y1[2] - pr.y1[1]
                              IN a = 0 \/ SignChanges > 0 \/ ~(-b * a > 0 /\ -b * a < a * a)        \* vertex outside (0,1) or crossings seen
                              \/ (LET num == pr.y1[1] * a - b * b IN (num - pr.y2[1] * a) * a * YG(0) > 0)     \* vertex on the same side as the ends
                ELSE TRUE
CountKnown == pr.fam = "count" /\ NoGridZero /\ VertexSafe /\ Len(pr.y1) = 3
Dump == PrintT(ToJson([pr |-> pr, q |-> Q, count |-> IF CountKnown THEN SignChanges ELSE -1]))
=============================================================================
